"""Rule instances shared by several properties (C01/C02/C10/C17 …)."""
import re
from engine.rules import (MustPass, guard_edges, eq_matcher, pred_matcher, outcome, aggregates_of,
                          calls_to, call_checked, fmt_path, bool_atom, switch_bool_edges, variant_edge_fails, root_fn)
from engine.sym import Sym, strip, strip_deep, render, walk, short, roots

_SYMS = {}


def sym_of(body):
    s = _SYMS.get(id(body))
    if s is None or s.body is not body:
        s = Sym(body)
        _SYMS[id(body)] = s
    return s


def res_matches(c, rx):
    r = c.res
    return bool(r and re.search(rx, r))


def sink_verify_sig(c):
    """aws-lc signature verification."""
    return c.name == "verify_sig" and (c.trait or "").endswith("VerificationAlgorithm")


def sink_validity_verify_at(c):
    return c.res == "repository::x509::Validity::verify_at"


def why(f, mp, fn):
    w = mp.why(fn)
    if isinstance(w, dict) and "path" in w:
        b = f.body(w.get("fn", fn))
        return {"success_path_avoiding_%s" % mp.name: fmt_path(b, w["path"]) if b else w["path"],
                "blocks": w["path"]}
    return w


def arg_terms(c):
    s = sym_of(c.body)
    return [strip_deep(s.operand(a)) for a in c.args]


def arg_renders(c):
    return [render(t) for t in arg_terms(c)]


# ---------------------------------------------------------------------------
# ordering guards

def _canon_order(rel, a, b, pos):
    """Canonicalise an ordering atom to ('lt'|'le', x, y, pos)."""
    if rel == "gt":
        return ("lt", b, a, pos)
    if rel == "ge":
        return ("le", b, a, pos)
    return (rel, a, b, pos)


def order_literal_edges(body, sym, bb, lo_rx, hi_rx):
    """Edges of the bool switch at bb on which `lo <= hi` is known to hold, where the switch
    tests some spelling of that comparison (le(lo,hi), !lt(hi,lo), ge(hi,lo), !gt(lo,hi))."""
    t = body.term(bb)
    if t["t"] == "switch" and t.get("dty") != "bool":
        # `match lo.cmp(&hi) { … }`: the arms for Less and Equal (or Greater and Equal when the operands are swapped)
        d = strip_deep(sym.operand(t["discr"]))
        if d[0] == "discr" and d[1][0] == "call" and (d[1][3] or {}).get("name") in ("cmp", "partial_cmp") and len(d[1][2]) == 2 \
                and ((d[1][3] or {}).get("trait") or "").split("::")[-1] in ("Ord", "PartialOrd") and (d[1][3] or {}).get("name") == "cmp":
            ra, rb = render(d[1][2][0]), render(d[1][2][1])
            lo, hi = re.compile(lo_rx), re.compile(hi_rx)
            if lo.search(ra) and hi.search(rb):
                good = {255, -1, 0}
            elif hi.search(ra) and lo.search(rb):
                good = {1, 0}
            else:
                return None
            vals = {v for v, _ in t["targets"]}
            out = [(bb, tb) for v, tb in t["targets"] if v in good]
            # the otherwise edge stands for the values not listed
            rest = {255, 0, 1} - {(255 if v == -1 else v) for v in vals}
            if rest and rest <= {(255 if g == -1 else g) for g in good}:
                out.append((bb, t["otherwise"]))
            return out or None
        return None
    if t["t"] != "switch" or t.get("dty") != "bool":
        return None
    e = switch_bool_edges(body, bb)
    if e is None:
        return None
    at = bool_atom(sym.operand(t["discr"]))
    if at is None or at[0] not in ("lt", "le", "gt", "ge"):
        return None
    rel, a, b, pos = _canon_order(*at)
    ra, rb = render(a), render(b)
    lo, hi = re.compile(lo_rx), re.compile(hi_rx)
    f, tr = e
    if rel == "le" and lo.search(ra) and hi.search(rb):
        return [(bb, tr)] if pos else [(bb, f)]
    if rel == "lt" and hi.search(ra) and lo.search(rb):
        # atom: hi < lo  == not (lo <= hi)
        return [(bb, f)] if pos else [(bb, tr)]
    return None


def guard_false_edge_fails(body, matcher):
    """Somewhere in `body` a bool switch tests the literal, and the edge on which
    it is false cannot reach a success return."""
    oc = outcome(body)
    sym = oc.sym
    reach = oc.success_reach()
    found = 0
    bad = []
    for bi, blk in enumerate(body.blocks):
        if blk["term"]["t"] != "switch" or blk.get("cleanup"):
            continue
        edges = guard_edges(body, sym, bi, matcher)
        if not edges:
            continue
        found += 1
        e = switch_bool_edges(body, bi)
        true_t = edges[0][1]
        false_t = e[0] if true_t == e[1] else e[1]
        if false_t in reach:
            bad.append("bb%d: literal-false edge → bb%d reaches a success return (line %s)"
                       % (bi, false_t, body.line_of(bi)))
    if found == 0:
        return (False, "guard not found in " + body.name)
    return (not bad, bad or None)


# ---------------------------------------------------------------------------
# interprocedural argument provenance

def _subst(term, mapping):
    k = term[0]
    if k == "param":
        return mapping.get(term[1], term)
    if k == "upvar":
        return mapping.get(("upvar", term[1]), term)
    if k == "field":
        return (k, _subst(term[1], mapping), term[2], term[3] if len(term) > 3 else None)
    if k == "variant":
        return (k, _subst(term[1], mapping), term[2])
    if k == "mvar":
        return ("mvar", term[1], term[2], _subst(term[3], mapping))
    if k == "index":
        return (k, _subst(term[1], mapping), _subst(term[2], mapping))
    if k == "call":
        return ("call", term[1], tuple(_subst(a, mapping) for a in term[2]), term[3])
    if k == "bin":
        return ("bin", term[1], _subst(term[2], mapping), _subst(term[3], mapping))
    if k == "un":
        return ("un", term[1], _subst(term[2], mapping))
    if k == "cast":
        return ("cast", _subst(term[1], mapping), term[2])
    if k in ("discr", "len"):
        return (k, _subst(term[1], mapping))
    if k == "agg":
        return ("agg", term[1], term[2], tuple((f, _subst(v, mapping)) for f, v in term[3]))
    if k == "closure":
        return ("closure", term[1], tuple(_subst(a, mapping) for a in term[2]))
    return term


def fold_consts(term, consts):
    """Replace named integer constants of the crate by their values (a literal turned into `const LIMIT: … = n` is the
    same program)."""
    k = term[0]
    if k == "cdef":
        c = consts.get(term[1])
        if c is not None and isinstance(c.get("v"), int) and not isinstance(c.get("v"), bool):
            return ("const", c["v"])
        return term
    if k == "field":
        base = term[1]
        if base[0] == "cdef":
            c = consts.get(base[1])
            if c is not None and str(term[2]) in (c.get("fields") or {}):
                return ("const", c["fields"][str(term[2])])
        return (k, fold_consts(term[1], consts), term[2], term[3] if len(term) > 3 else None)
    if k == "variant":
        return (k, fold_consts(term[1], consts), term[2])
    if k == "mvar":
        return ("mvar", term[1], term[2], fold_consts(term[3], consts))
    if k == "index":
        return (k, fold_consts(term[1], consts), fold_consts(term[2], consts))
    if k == "call":
        t = ("call", term[1], tuple(fold_consts(a, consts) for a in term[2]), term[3])
        # len of a byte-string literal
        m = t[3] or {}
        if m.get("name") == "len" and len(t[2]) == 1 and t[2][0][0] == "bytes":
            return ("const", len(t[2][0][1]))
        return t
    if k == "bin":
        return ("bin", term[1], fold_consts(term[2], consts), fold_consts(term[3], consts))
    if k == "un":
        return ("un", term[1], fold_consts(term[2], consts))
    if k == "cast":
        return ("cast", fold_consts(term[1], consts), term[2])
    if k in ("discr", "len"):
        return (k, fold_consts(term[1], consts))
    if k == "agg":
        return ("agg", term[1], term[2], tuple((f_, fold_consts(v, consts)) for f_, v in term[3]))
    if k == "closure":
        return ("closure", term[1], tuple(fold_consts(a, consts) for a in term[2]))
    return term


def chains_to(f, entry, sink_pred, max_depth=10):
    """All call chains [c1, c2, …, sink] from body `entry` to a call satisfying sink_pred."""
    memo = {}

    def can(fn, depth):
        if fn in memo:
            return memo[fn]
        memo[fn] = False
        b = f.body(fn)
        r = False
        if b is not None and depth <= max_depth:
            for c in b.calls():
                if not c.is_static or b.is_cleanup(c.bb):
                    continue
                if sink_pred(c) or (c.res in f.bodies and can(c.res, depth + 1)):
                    r = True
                    break
        memo[fn] = r
        return r

    out = []

    def dfs(fn, chain, seen):
        b = f.body(fn)
        if b is None or len(chain) > max_depth:
            return
        for c in b.calls():
            if not c.is_static or b.is_cleanup(c.bb):
                continue
            if sink_pred(c):
                out.append(chain + [c])
            elif c.res in f.bodies and c.res not in seen and can(c.res, 0):
                dfs(c.res, chain + [c], seen | {c.res})
    dfs(entry, [], {entry})
    return out


def compose(chain, argidx):
    """Term of argument `argidx` of the last call of `chain`, expressed over the
    parameters of the first caller."""
    sink = chain[-1]
    t = strip_deep(sym_of(sink.body).operand(sink.args[argidx]))
    for c in reversed(chain[:-1]):
        callee = sink.body if c is chain[-2] else None
    # walk upwards: chain[i] is a call in body B_i to body B_{i+1}
    for i in range(len(chain) - 2, -1, -1):
        c = chain[i]
        callee_body = chain[i + 1].body
        s = sym_of(c.body)
        mapping = {}
        for j, a in enumerate(c.args):
            pname = callee_body.local_name(j + 1) or "_%d" % (j + 1)
            mapping[pname] = strip_deep(s.operand(a))
        t = strip_deep(_subst(t, mapping))
    return t


def check_sig_key_provenance(ctx, f, body, ename, want, forbid, prop_rule="R-FLOW",
                             msg_rx=r"\.signed_data\.data$", sigval_rx=r"Signature::value\(self\.signed_data\.signature\)$"):
    chains = chains_to(f, body.name, sink_verify_sig)
    ctx.floor(prop_rule, "%s:verify_sig chains" % ename, len(chains), 1)
    for ch in chains:
        keyt = compose(ch, 1)
        key = render(keyt)
        rts = {x[1] for x in roots(keyt) if x[0] == "param"}
        msg = render(compose(ch, 2))
        sig = render(compose(ch, 3))
        via = "→".join(short(c.res) for c in ch)
        ok = want in rts and (forbid is None or forbid not in rts) and "subject_public_key_info" in key
        ctx.ob(prop_rule, "%s:key[%s]" % (ename, short(ch[-1].res)), ok,
               "public key bits given to verify_sig in %s are the subject public key of `%s`" % (ename, want),
               where=ch[0].where(), detail={"key": key, "via": via})
        okm = re.search(msg_rx, msg) is not None and msg.startswith("self")
        ctx.ob(prop_rule, "%s:message[%s]" % (ename, short(ch[-1].res)), okm,
               "message given to verify_sig in %s is the certificate's captured signed bytes" % ename,
               where=ch[0].where(), detail={"message": msg})
        oks = re.search(sigval_rx, sig) is not None and "self" in sig
        ctx.ob(prop_rule, "%s:signature[%s]" % (ename, short(ch[-1].res)), oks,
               "signature given to verify_sig in %s is the certificate's own signature value" % ename,
               where=ch[0].where(), detail={"signature": sig})


def expand_accessors(f, term, depth=3, max_blocks=6):
    """Calls to small, loop-free functions of the crate whose result is a pure expression of their parameters
    (field accessors like `PublicKey::bits`, thin wrappers) are replaced by that expression with the arguments
    substituted: `PublicKey::bits(self)` reads `octet_slice(self.bits)…` exactly as if the caller had spelt the
    projection itself.  Semantics-preserving (the callee body is what runs); anything else is left as the call."""
    if depth <= 0 or not isinstance(term, tuple) or not term:
        return term
    k = term[0]
    if k == "call":
        args = tuple(expand_accessors(f, a, depth, max_blocks) for a in term[2])
        info = term[3] if len(term) > 3 else None
        res = (info or {}).get("res") if isinstance(info, dict) else None
        b = f.bodies.get(res) if res else None
        if b is not None and len(b.blocks) <= max_blocks and not b.rec.get("upvars") and \
                not b.cycles_sccs():
            try:
                rt = strip_deep(sym_of(b).local(0))
            except Exception:
                rt = None
            if rt is not None and not any(x[0] in ("var", "unknown", "yield", "upvar", "mvar") for x in walk(rt)):
                mapping = {}
                for j, a in enumerate(args):
                    mapping[b.local_name(j + 1) or "_%d" % (j + 1)] = a
                if all(x[1] in mapping for x in walk(rt) if x[0] == "param"):
                    return expand_accessors(f, strip_deep(_subst(rt, mapping)), depth - 1, max_blocks)
        return ("call", term[1], args, info)
    if k == "field":
        return (k, expand_accessors(f, term[1], depth, max_blocks), term[2], term[3] if len(term) > 3 else None)
    if k == "variant":
        return (k, expand_accessors(f, term[1], depth, max_blocks), term[2])
    if k == "index":
        return (k, expand_accessors(f, term[1], depth, max_blocks), expand_accessors(f, term[2], depth, max_blocks))
    if k == "bin":
        return (k, term[1], expand_accessors(f, term[2], depth, max_blocks), expand_accessors(f, term[3], depth, max_blocks))
    if k in ("un",):
        return (k, term[1], expand_accessors(f, term[2], depth, max_blocks))
    if k == "cast":
        return (k, expand_accessors(f, term[1], depth, max_blocks), term[2])
    if k in ("discr", "len"):
        return (k, expand_accessors(f, term[1], depth, max_blocks))
    return term


def check_key_identifier_is_sha1_of_bits(ctx, f):
    fn = "crypto::keys::PublicKey::key_identifier"
    b = f.body(fn)
    if b is None:
        return ctx.missing("R-FLOW", "key_identifier", fn)
    ctx.saw_fn(fn)
    s = sym_of(b)
    digs = [c for c in b.calls() if c.is_static and c.name == "digest" and (c.krate or "").startswith("aws_lc")]
    ok = False
    detail = "no aws-lc digest call"
    for c in digs:
        a = arg_renders(c)
        # the digested bytes, with accessor calls (`self.bits()`) read as the projection they return
        a = [a[0], render(strip_deep(expand_accessors(f, strip_deep(s.operand(c.args[1])))))] + a[2:]
        detail = a
        ok = "SHA1_FOR_LEGACY_USE_ONLY" in a[0] and re.search(r"self\.bits", a[1]) is not None
    ctx.ob("R-FLOW", "key_identifier=sha1(bits)", ok,
           "PublicKey::key_identifier digests the key's bit string with SHA-1", where=b.loc, detail=detail)
    # … and the returned identifier derives from that digest
    ret = render(strip_deep(s.local(0)))
    ctx.ob("R-FLOW", "key_identifier-returns-digest", "digest(" in ret, "the returned identifier is built from the digest",
           where=b.loc, detail=ret)


def check_signed_data_flow(ctx, f):
    """Cert::from_constructed decodes the TBS from the very bytes that are signature-checked."""
    fn = "repository::cert::Cert::from_constructed"
    b = f.body(fn)
    if b is None:
        return ctx.missing("R-FLOW", "Cert::from_constructed", fn)
    ctx.saw_fn(fn)
    s = sym_of(b)
    sites = [x for x in aggregates_of(f, "repository::cert::Cert") if x[0] is b]
    ok = False
    detail = None
    for _, bi, si, st in sites:
        t = s.rvalue(st["rv"])
        flds = dict(t[3])
        sd = render(strip_deep(flds.get("signed_data")))
        tbs = render(strip_deep(flds.get("tbs")))
        # tbs = decode(data(signed_data))…; signed_data = from_constructed(cons) payload
        ok = "SignedData::from_constructed(cons)" in sd and "SignedData::data(" in tbs and \
            "TbsCert::from_constructed" in tbs and sd.split("↓")[0] in tbs
        detail = {"signed_data": sd, "tbs": tbs}
    ctx.ob("R-FLOW", "Cert.tbs-from-signed-bytes", ok,
           "Cert.tbs is decoded from signed_data.data — the same captured bytes verify_signature checks",
           where=b.loc, detail=detail)
    fn2 = "repository::x509::SignedData::<Alg>::verify_signature"
    b2 = f.body(fn2)
    if b2 is None:
        return ctx.missing("R-FLOW", "SignedData::verify_signature", fn2)
    ctx.saw_fn(fn2)
    cs = [c for c in b2.calls() if c.res == "crypto::keys::PublicKey::verify"]
    ok = False
    detail = None
    if len(cs) == 1:
        a = arg_renders(cs[0])
        ok = a[0] == "public_key" and a[1] == "self.data" and a[2] == "self.signature"
        detail = a
    ctx.ob("R-FLOW", "SignedData::verify_signature-args", ok,
           "SignedData::verify_signature verifies self.data against self.signature under the given key",
           where=b2.loc, detail=detail)


def check_public_key_verify_format_guard(ctx, f):
    fn = "crypto::keys::PublicKey::verify"
    b = f.body(fn)
    if b is None:
        return ctx.missing("R-GRD", "PublicKey::verify", fn)
    ctx.saw_fn(fn)
    m = eq_matcher(r"public_key_format\(Signature::algorithm\(signature\)\)", r"^self\.algorithm$")
    ok, detail = guard_false_edge_fails(b, m)
    ctx.ob("R-GRD", "PublicKey::verify:format-agrees", ok,
           "PublicKey::verify fails unless the signature algorithm's key format equals the key's", where=b.loc,
           detail=detail)
    cs = [c for c in b.calls() if c.res == "crypto::keys::PublicKeyFormat::verify"]
    ok = False
    detail = None
    if len(cs) == 1:
        a = arg_renders(cs[0])
        ok = a[0] == "self.algorithm" and a[1] == "PublicKey::bits(self)" and a[2] == "message" \
            and a[3] == "Signature::value(signature)"
        detail = a
        chk, how = call_checked(b, cs[0].bb)
        ok = ok and chk
    ctx.ob("R-FLOW", "PublicKey::verify:args", ok,
           "PublicKey::verify passes (own bits, message, signature value) to the algorithm and returns its verdict",
           where=b.loc, detail=detail)
    fn = "crypto::keys::PublicKeyFormat::verify"
    b = f.body(fn)
    if b is None:
        return ctx.missing("R-FLOW", "PublicKeyFormat::verify", fn)
    ctx.saw_fn(fn)
    n = 0
    for c in b.calls():
        if c.is_static and sink_verify_sig(c):
            n += 1
            a = arg_renders(c)
            chk, how = call_checked(b, c.bb)
            ok = a[1] == "bits" and a[2] == "message" and a[3] == "signature" and chk
            alg = a[0]
            ctx.ob("R-FLOW", "PublicKeyFormat::verify:%s" % alg, ok,
                   "verify_sig(%s) receives (bits, message, signature) unchanged and its verdict is returned" % alg,
                   where=c.where(), detail={"args": a, "checked": how})
    ctx.floor("R-FLOW", "verify_sig call sites in PublicKeyFormat::verify", n, 2)


# ---------------------------------------------------------------------------
# verify_issued (C01.e, C03.e)

def _edge_dominates(body, edge, target):
    """Every path entry→target uses `edge`."""
    return target not in body.reachable(0, removed_edges=[edge])


def closure_result(f, ct, arg):
    """The value a closure term `ct` = ('closure', def, captures) returns when called with `arg`: its return term with the
    parameter spelt as `arg` and the captures as the captured values.  None unless the closure body is a single
    expression of those (no branches that the term language would hide)."""
    cb = f.body(ct[1])
    if cb is None or cb.cycles_sccs() or any(blk["term"]["t"] == "switch" for blk in cb.blocks if not blk.get("cleanup")):
        return None
    rt = strip_deep(sym_of(cb).local(0))
    if any(x[0] in ("var", "unknown", "yield", "mvar") for x in walk(rt)):
        return None
    m = {}
    if cb.arg_count >= 2:
        m[cb.local_name(2) or "_2"] = arg
    for name, pl in cb.rec.get("upvars", []):
        for pe in pl.get("p", []):
            if pe and pe[0] == "f":
                try:
                    m[("upvar", name)] = ct[2][int(pe[1])]
                except (TypeError, ValueError, IndexError):
                    pass
                break
    return strip_deep(_subst(rt, m))


def result_cases(f, v):
    """A value computed by a `Result` combinator is a case distinction on the Result it is applied to:
    `r.map_or_else(d, g)` is `match r { Ok(x) => g(x), Err(e) => d(e) }`, `r.map_or(c, g)` likewise with the constant c.
    -> [(value term, r, "Ok" | "Err")], or None when `v` is not of that form."""
    v = strip_deep(v)
    if v[0] != "call" or not re.match(r"^(std|core)::result::Result::<", (v[3] or {}).get("fn") or ""):
        return None
    name = (v[3] or {}).get("name")
    if name not in ("map_or_else", "map_or") or len(v[2]) != 3:
        return None
    r, d, g = (strip_deep(x) for x in v[2])
    if g[0] != "closure":
        return None
    okv = closure_result(f, g, ("field", ("variant", r, "Ok"), "0", None))
    if name == "map_or_else":
        if d[0] != "closure":
            return None
        errv = closure_result(f, d, ("field", ("variant", r, "Err"), "0", None))
    else:
        errv = d
    if okv is None or errv is None:
        return None
    return [(errv, r, "Err"), (okv, r, "Ok")]


def check_verify_issued(ctx, f, rule_prefix=""):
    specs = [
        ("repository::resources::ipres::IpBlocks::verify_issued",
         pred_matcher(r"IpBlocks::contains$", (r"^self$", r"^res\.0↓Blocks\.0$")), "contains(self, claimed)"),
        ("repository::resources::asres::AsBlocks::verify_issued",
         pred_matcher(r"is_encompassed$", (r"^res\.0↓Blocks\.0\.0$", r"^self\.0$")), "is_encompassed(claimed, self)"),
    ]
    for fn, matcher, gdesc in specs:
        b = f.body(fn)
        if b is None:
            ctx.missing("R-GRD", "verify_issued", fn)
            continue
        ctx.saw_fn(fn)
        oc = outcome(b)
        s = oc.sym
        own = short(fn)
        # locate the switches
        choice_sw = None
        cover_edges = []     # edges on which the claim is known covered
        for bi, blk in enumerate(b.blocks):
            t = blk["term"]
            if t["t"] != "switch" or blk.get("cleanup"):
                continue
            d = strip(s.operand(t["discr"]))
            if d[0] == "discr" and render(strip_deep(d[1])) == "res.0":
                choice_sw = bi
            e = guard_edges(b, s, bi, matcher)
            if e:
                cover_edges += e
                # false edge must fail
                fe = switch_bool_edges(b, bi)
                false_t = fe[0] if e[0][1] == fe[1] else fe[1]
                ok = false_t not in oc.success_reach()
                ctx.ob("R-GRD", "%s:refuse-false-edge-fails" % own, ok,
                       "%s: when %s is false the result is Err" % (own, gdesc), where=b.where(bi))
            # Ok arm of trim(claimed, self)
            if d[0] == "discr":
                inner = strip_deep(d[1])
                if inner[0] == "call" and inner[3].get("name") == "trim":
                    ar = [render(x) for x in inner[2]]
                    if re.match(r"^res\.0↓Blocks\.0\.0$", ar[0]) and ar[1] == "self.0":
                        for v, tb in b.switch_edges(bi):
                            if v == 0:
                                cover_edges.append((bi, tb))
        if choice_sw is None:
            ctx.missing("R-GRD", "%s:choice-switch" % own, "match on the resource choice in " + fn)
            continue
        adt = f.adts.get("repository::resources::choice::ResourcesChoice")
        vnames = [v["name"] for v in adt["variants"]] if adt else []
        arm_of = {}
        for v, tb in b.switch_edges(choice_sw):
            if v is not None and v < len(vnames):
                arm_of[vnames[v]] = tb
        ctx.ob("R-GRD", "%s:covered-guard-present" % own, bool(cover_edges),
               "%s tests %s" % (own, gdesc), where=b.loc)
        n_ok = 0
        for bi in sorted(oc.success_assign_blocks):
            for si, st in enumerate(b.stmts(bi)):
                if st["s"] != "assign" or st["pl"]["p"] or st["pl"]["l"] not in oc.carriers:
                    continue
                t = strip_deep(s.rvalue(st["rv"]))
                if not (t[0] == "agg" and t[2] == "Ok"):
                    # moved from a temp carrier: skip (the temp's own assignment is examined)
                    if t[0] == "var":
                        continue
                    ctx.ob("R-FLOW", "%s:bb-success-shape" % own, False,
                           "unrecognised success value in %s: %s" % (own, render(t)), where=b.where(bi, si))
                    continue
                v0 = strip_deep(dict(t[3])["0"])
                n_ok += 1
                # a value chosen by a combinator on the result of trim(claimed, issuer) is judged case by case: in the
                # Ok case the claim is known covered, in the Err case it is not
                cases = result_cases(f, v0)
                if cases is None or not re.match(r"^(\w+::)*trim\(res\.0↓Blocks\.0\.0, self\.0\)$", render(cases[0][1])):
                    cases = [(v0, None, None)]
                for v, _, case in cases:
                    r = render(v)
                    rts = {render(x).split(".")[0] for x in roots(v) if x[0] in ("param", "var", "upvar")}
                    verdict = False
                    kind = "?"
                    if re.search(r"::empty\(\)$", r) and not rts:
                        kind = "empty"
                        verdict = True
                    elif rts == {"self"} and r == "self":
                        kind = "issuer's own"
                        inh = arm_of.get("Inherit")
                        verdict = inh is not None and _edge_dominates(b, (choice_sw, inh), bi)
                    elif rts == {"res"} and re.match(r"^res\.0↓Blocks\.0$", r):
                        kind = "claimed blocks"
                        verdict = case == "Ok" or (case is None and any(_edge_dominates(b, e, bi) for e in cover_edges))
                    elif re.search(r"(intersection|intersection_assign)\(", r) and rts == {"res", "self"}:
                        kind = "intersection(claimed, issuer)"
                        verdict = True
                    elif re.search(r"trim\(res\.0↓Blocks\.0\.0, self\.0\)↓Err\.0", r):
                        kind = "trimmed(claimed, issuer)"
                        verdict = True
                    ctx.ob("R-FLOW", "%s:success-value:%s" % (own, kind), verdict,
                           "%s returns Ok(%s) only where that is a subset of the issuer's blocks" % (own, kind),
                           where=b.where(bi, si), detail=r)
        ctx.floor("R-FLOW", "%s success values" % own, n_ok, 4)


# ---------------------------------------------------------------------------
# validity window (C01.f, C17.a)

def check_validity_window(ctx, f):
    T = "repository::x509::Time::"
    for name, lo, hi, what in (("verify_not_before", r"^self\.0$", r"^now\.0$", "not_before <= now"),
                               ("verify_not_after", r"^now\.0$", r"^self\.0$", "now <= not_after")):
        b = f.body(T + name)
        if b is None:
            ctx.missing("R-GRD", name, T + name)
            continue
        ctx.saw_fn(T + name)
        mp = MustPass(f, lambda c: False,
                      guard_fn=lambda bd, s, bb, lo=lo, hi=hi: order_literal_edges(bd, s, bb, lo, hi), name=what)
        ok = mp.holds(T + name)
        ctx.ob("R-GRD", "Time::%s" % name, ok, "Time::%s returns Ok only if %s (boundary inclusive)" % (name, what),
               where=b.loc, detail=None if ok else why(f, mp, T + name))
        # and it is Ok whenever the literal holds: the literal-true edge must not be all-failure
        oc = outcome(b)
        okk = False
        for bi, blk in enumerate(b.blocks):
            if blk["term"]["t"] == "switch":
                e = order_literal_edges(b, oc.sym, bi, lo, hi)
                if e and e[0][1] in oc.success_reach():
                    okk = True
        ctx.ob("R-GRD", "Time::%s:accepts" % name, okk, "Time::%s returns Ok when %s" % (name, what), where=b.loc)
    V = "repository::x509::Validity::verify_at"
    b = f.body(V)
    if b is None:
        return ctx.missing("R-CHK", "Validity::verify_at", V)
    ctx.saw_fn(V)
    for callee, recv in (("verify_not_before", "self.not_before"), ("verify_not_after", "self.not_after")):
        def sink(c, callee=callee, recv=recv):
            if c.res != T + callee:
                return False
            a = arg_renders(c)
            return a[0] == recv and a[1] == "now"
        mp = MustPass(f, sink, name="%s.%s(now)" % (recv, callee))
        ok = mp.holds(V)
        ctx.ob("R-CHK", "Validity::verify_at→%s" % callee, ok,
               "Validity::verify_at checks %s.%s(now) on every success path" % (recv, callee), where=b.loc,
               detail=None if ok else why(f, mp, V))


# ---------------------------------------------------------------------------
# R-REG helpers

from engine import absint


def run_absint(f, fname, **kw):
    """`sym_names` keys may name parameters by position (`%1`, `%2`, …): a parameter's spelling is not part of the rule."""
    kw = {k: v for k, v in kw.items() if v is not None}
    b = f.body(fname)
    if b is not None and kw.get("sym_names"):
        pn = {}
        for i in range(1, b.arg_count + 1):
            n = b.local_name(i)
            if n:
                pn["%%%d" % i] = n
        sn = {}
        for k, v in kw["sym_names"].items():
            k2 = re.sub(r"%\d+", lambda m: pn.get(m.group(0), m.group(0)), k)
            sn[k2] = v
        kw["sym_names"] = sn
    it = absint.Interp(f, **kw)
    try:
        paths = it.run(fname)
    except absint.Unsupported as e:
        return None, it, str(e)
    return paths, it, None


def _norm_byte_expr(s):
    s = re.sub(r"Div\((.*), 256\)", r"Shr(\1, 8)", s)
    s = re.sub(r"BitAnd\((.*), 255\)", r"(\1 as u8)", s)
    s = re.sub(r"Rem\((.*), 256\)", r"(\1 as u8)", s)
    s = re.sub(r"^\(\((.*) as u8\) as u8\)$", r"(\1 as u8)", s)
    return s


def check_encode_verify(ctx, f, rule="R-REG"):
    """SignedAttrs::encode_verify emits the DER SET-OF header for every length region."""
    fn = "repository::sigobj::SignedAttrs::encode_verify"
    b = f.body(fn)
    if b is None:
        return ctx.missing(rule, "encode_verify", fn)
    ctx.saw_fn(fn)
    # the length of the captured attributes, however it is obtained (self.0.len(), self.0.as_slice().len(), …)
    paths, it, err = run_absint(f, fn, sym_names={"Bytes::len(self.0)": "len",
                                                  r"re:^(\w+::)?len\((\w+::\w+\()?self\.0\)?\)$": "len"})
    if paths is None:
        return ctx.ob(rule, "encode_verify:analysable", False, "cannot establish: " + err, where=b.loc)
    L = "len"
    spec = [
        ((0, 127), ["49", L]),
        ((128, 255), ["49", "129", L]),
        ((256, 65535), ["49", "130", "Shr(%s, 8)" % L, "(%s as u8)" % L]),
    ]
    delegated = any(any(e[0].startswith("encode::") or "bcder::encode" in e[0] for e in p.effects) for p in paths)
    if delegated and not any(e[0] == "Vec::push" for p in paths for e in p.effects):
        ctx.ob(rule, "encode_verify:delegates-to-bcder", True,
               "encode_verify delegates the SET-OF framing to bcder's DER encoder (library summary: DER lengths)",
               where=b.loc)
        return
    for (lo, hi), want in spec:
        ps = absint.paths_in_region(paths, absint.region_constraints(L, lo, hi))
        ok = bool(ps)
        details = []
        for p in ps:
            pushes = [_norm_byte_expr(e[1][1]) for e in p.effects if e[0] == "Vec::push"]
            # a narrowing cast of a value already below 256 is the value itself
            pushes = [re.sub(r"^\(len as u8\)$", "len", x) if hi <= 255 else x for x in pushes]
            wantn = [re.sub(r"^\(len as u8\)$", "len", x) if hi <= 255 else x for x in want]
            # … and so is the narrowing of `len >> 8` while len fits 16 bits
            if hi <= 0xFFFF:
                pushes = [re.sub(r"^\(Shr\(len, 8\) as u8\)$", "Shr(len, 8)", x) for x in pushes]
                wantn = [re.sub(r"^\(Shr\(len, 8\) as u8\)$", "Shr(len, 8)", x) for x in wantn]
            ext = [e for e in p.effects if e[0] == "Vec::extend_from_slice"]
            good = p.outcome[0] == "return" and pushes == wantn and len(ext) == 1 and re.match(r"^(\w+::\w+\()?self\.0\)?$", ext[0][1][1]) is not None \
                and p.effects.index(ext[0]) > max([i for i, e in enumerate(p.effects) if e[0] == "Vec::push"] or [-1])
            details.append({"region": p.zone.describe(), "header_bytes": pushes, "outcome": absint.outcome_str(p.outcome),
                            "expected_header": wantn})
            ok = ok and good
        ctx.ob(rule, "encode_verify:len∈[%d,%d]" % (lo, hi), ok,
               "for %d ≤ len ≤ %d encode_verify emits DER header %s followed by the attribute bytes" % (lo, hi, want),
               where=b.loc, detail=details)
    # the only constructors of SignedAttrs bound the length (so the ≥ 65536 panic arm is dead)
    SA = "repository::sigobj::SignedAttrs"
    sites = [x for x in aggregates_of(f, SA) if not x[0].name.startswith("<")]
    fns = sorted({x[0].name for x in sites})
    ctx.ob("R-WHO", "SignedAttrs-constructors", set(fns) <= {SA + "::new", SA + "::take_from_with_mode"} and len(fns) >= 1,
           "SignedAttrs(..) is built only by the decoder and the internal builder", detail=fns)
    tb = f.body(SA + "::take_from_with_mode")
    if tb is not None:
        oc = outcome(tb)

        def g(bd, s, bb):
            return order_literal_edges(bd, s, bb, r"len\(", r"^65535$")
        mp = MustPass(f, lambda c: False, guard_fn=g, name="raw.len() <= 0xFFFF")
        ok = mp.holds(SA + "::take_from_with_mode")
        ctx.ob("R-GRD", "SignedAttrs::take_from:len<=65535", ok,
               "the decoder rejects signed attributes longer than 65535 bytes (encode_verify's panic arm is unreachable)",
               where=tb.loc, detail=None if ok else why(f, mp, SA + "::take_from_with_mode"))


def _required_by_value(f, b, pos, depth=0):
    """Member `pos` of the tuple in the success value of `b` (or of the crate function `b` ends in) is the `Some` payload
    of an Option, and the `None` edge of every match on that Option fails.  -> (found, ok, detail)"""
    vals = success_values(b)
    if not vals:
        return (False, False, "no success value in %s" % b.name)
    res = None
    for _, _, t in vals:
        t = strip_deep(t)
        if t[0] == "call" and (t[3] or {}).get("res") in f.bodies and depth < 3:
            r = _required_by_value(f, f.body(t[3]["res"]), pos, depth + 1)
        else:
            r = (False, False, "success value of %s is not a tuple in Ok: %s" % (b.name, render(t)[:120]))
            if t[0] == "agg" and t[2] == "Ok":
                tup = strip_deep(dict(t[3]).get("0"))
                if tup is not None and tup[0] == "agg" and tup[1] == "tuple" and len(tup[3]) > pos:
                    payloads = [x for x in walk(strip_deep(tup[3][pos][1]))
                                if x[0] == "field" and str(x[2]) == "0" and strip_deep(x[1])[0] == "variant" and strip_deep(x[1])[2] == "Some"]
                    if len(payloads) == 1:
                        opt = render(strip_deep(strip_deep(payloads[0][1])[1]))
                        r = variant_edge_fails(b, "^%s$" % re.escape(opt), 0)
                    else:
                        r = (False, False, "member %d of the success tuple is not one Option's payload: %s" % (pos, render(tup[3][pos][1])[:120]))
        if not (r[0] and r[1]):
            return r
        res = r
    return res


def _reach_within(f, root, prefix):
    """Bodies under `prefix` that run as part of `root`: its closures and the crate functions it calls, transitively."""
    seen, work = [], [root]
    while work:
        n = work.pop()
        b = f.body(n)
        if b is None or n in seen:
            continue
        seen.append(n)
        for _, _, cdef, _ in b.closures_created():
            work.append(cdef)
        for c in b.calls():
            if c.is_static and not b.is_cleanup(c.bb) and (c.res or "").startswith(prefix):
                work.append(c.res)
    return seen


def option_slot_stores(b):
    """[(block, slot term)]: the statements of `b` that put `Some(..)` into an `Option` living outside `b` — written
    through a `&mut` parameter, a captured variable, or a field of either (`*slot = Some(v)`)."""
    s = sym_of(b)
    out = []
    for bi, blk in enumerate(b.blocks):
        if blk.get("cleanup"):
            continue
        for st in blk["stmts"]:
            if st["s"] != "assign" or not any(p_[0] == "d" for p_ in st["pl"]["p"]):
                continue
            t = strip_deep(s.rvalue(st["rv"]))
            if t[0] == "agg" and t[2] == "Some" and str(t[1]).endswith("option::Option"):
                slot = strip_deep(s.place(st["pl"]))
                if any(x[0] in ("param", "upvar") for x in roots(slot)):
                    out.append((bi, slot))
    return out


def upvar_origin(f, cb, name, depth=0):
    """The value a closure captured under `name`, as a term of the outermost enclosing function (captures of nested
    closures are followed through their creators); None when it cannot be told."""
    parent = None
    for n, b in f.bodies.items():
        for _, _, cdef, st in b.closures_created():
            if cdef == cb.name:
                parent = (b, st)
    if parent is None or depth > 6:
        return None
    pb, st = parent
    idx = None
    for nm, pl in cb.rec.get("upvars", []):
        if nm == name:
            for pe in pl.get("p", []):
                if pe and pe[0] == "f":
                    try:
                        idx = int(pe[1])
                    except (TypeError, ValueError):
                        idx = None
                    break
    ops = st["rv"]["ops"]
    if idx is None or idx >= len(ops):
        return None
    t = strip_deep(sym_of(pb).operand(ops[idx]))
    while t[0] == "mvar":
        t = strip_deep(t[3])
    if t[0] == "upvar":
        return upvar_origin(f, pb, t[1], depth + 1)
    return (pb, t)


def check_signed_attrs_decoder(ctx, f):
    SA = "repository::sigobj::SignedAttrs::"
    TF = SA + "take_from_with_mode"
    b = f.body(TF)
    if b is None:
        return ctx.missing("R-GRD", "take_from_with_mode", TF)
    ctx.saw_fn(TF)
    # Each attribute slot refuses a duplicate.  The readers are found by what they do — a function or closure of the
    # decoder that stores `Some(value)` into an Option slot owned by its caller — whether there is one reader per
    # attribute or one generic reader, and whether the slots are locals, captures or fields of a collecting struct.
    # Facts per (reader, slot): (1) the store lies behind the edge on which `slot.is_some()` is false, (2) the edge on
    # which it is true cannot reach a success return, (3) a reader serving a single slot returns Ok only through (1).
    n_slots = 0
    reach = _reach_within(f, TF, "repository::sigobj::")
    for n in reach:
        rb = f.body(n)
        stores = option_slot_stores(rb)
        if not stores:
            continue
        ctx.saw_fn(n)
        oc = outcome(rb)
        by_slot = {}
        for bi, slot in stores:
            by_slot.setdefault(render(slot), []).append(bi)
        for sl, blocks in sorted(by_slot.items()):
            m = pred_matcher(r"Option::is_some$", (r"^%s$" % re.escape(sl),), positive=False)
            empty_edges = []
            occupied_ok = True
            for bi in range(len(rb.blocks)):
                if rb.blocks[bi]["term"]["t"] != "switch" or rb.is_cleanup(bi):
                    continue
                e = guard_edges(rb, oc.sym, bi, m)
                if e:
                    empty_edges += e
                    fe = switch_bool_edges(rb, bi)
                    other = fe[0] if e[0][1] == fe[1] else fe[1]
                    occupied_ok = occupied_ok and other not in oc.success_reach()
            behind = bool(empty_edges) and all(x not in rb.reachable(0, removed_edges=empty_edges) for x in blocks)
            ok = behind and occupied_ok
            detail = None
            if ok and len(by_slot) == 1:
                mp = MustPass(f, lambda c: False, guard_fn=lambda bd, s, bb, m=m: guard_edges(bd, s, bb, m), name="slot empty")
                ok = mp.holds(n)
                detail = None if ok else why(f, mp, n)
            elif not ok:
                detail = {"slot": sl, "store_behind_slot_empty_edge": behind, "occupied_edge_fails": occupied_ok}
            # how many attribute slots this reader serves: its call sites in the decoder when the slot is a parameter
            is_param = any(x[0] == "param" for x in roots(stores[0][1])) and not rb.rec.get("upvars")
            sites = [c for rn in reach for c in f.body(rn).calls() if c.res == n and not f.body(rn).is_cleanup(c.bb)] if is_param else [None]
            n_slots += max(1, len(sites))
            helper = short(n).replace("SignedAttrs::", "")
            ctx.ob("R-GRD", "SignedAttrs::%s:no-duplicate%s" % (helper, "" if len(by_slot) == 1 else "[%s]" % sl), ok,
                   "%s fails when the attribute was already seen, and stores the value only into an empty slot" % short(n),
                   where=rb.loc, detail=detail)
    ctx.floor("R-GRD", "signed-attribute slots filled behind a duplicate test", n_slots, 3)
    # Each attribute is required.  The decoder's success value is the tuple (attrs, digest, content type, time): the
    # fact is about the values delivered at positions 1..3, wherever the function that builds the tuple lives (the
    # decoder itself or a private function it ends in) and whatever holds the slots: each is the payload of an Option
    # whose `None` edge cannot reach a success return.
    for pos, slot in ((1, "message_digest"), (2, "content_type"), (3, "signing_time")):
        found, ok, detail = variant_edge_fails(b, r"^%s⟵" % slot, 0)
        if not found:
            found, ok, detail = _required_by_value(f, b, pos)
        ctx.ob("R-GRD", "SignedAttrs::take_from:%s-required" % slot, found and ok,
               "decoding fails when the %s attribute is missing" % slot, where=b.loc, detail=detail)
    # unknown attributes: rejected when strict.  `strict` is the decoder's second parameter; the closures see it as a
    # capture (of a capture …) under whatever name it has.
    inner = [f.body(n) for n in reach if n != TF and f.body(n).rec.get("upvars")]
    strict_name = b.local_name(2)
    ok = False
    detail = "no switch on `strict` found"
    for bd in inner:
        oc = outcome(bd)
        for bi, blk in enumerate(bd.blocks):
            t = blk["term"]
            if t["t"] != "switch" or t.get("dty") != "bool" or blk.get("cleanup"):
                continue
            term = strip(oc.sym.operand(t["discr"]))
            neg = False
            while term[0] == "un" and term[1] == "Not":
                neg = not neg
                term = strip(term[2])
            term = strip_deep(term)
            if term[0] != "upvar":
                continue
            org = upvar_origin(f, bd, term[1])
            if org is not None and org[0] is b and org[1] == ("param", strict_name):
                e = switch_bool_edges(bd, bi)
                strict_true_t = e[0] if neg else e[1]
                ok = strict_true_t not in oc.success_reach()
                detail = "strict edge → bb%d in %s" % (strict_true_t, bd.name)
    ctx.ob("R-GRD", "SignedAttrs::take_from:unknown-attr-strict", ok,
           "an unknown signed attribute is an error in strict mode", where=b.loc, detail=detail)
    # the raw capture kept for signature verification is the whole attribute set
    for caller, val in ((SA + "take_from", 1), (SA + "take_from_signed_message", 0)):
        cb = f.body(caller)
        if cb is None:
            ctx.missing("R-FLOW", short(caller), caller)
            continue
        cs = [c for c in cb.calls() if c.res == SA + "take_from_with_mode"]
        ok = len(cs) == 1 and arg_renders(cs[0])[1] == str(val)
        ctx.ob("R-FLOW", "%s:strict=%d" % (short(caller), val), ok,
               "%s decodes with strict=%s" % (short(caller), bool(val)), where=cb.loc)


# ---------------------------------------------------------------------------
# R-SIB: capture mode vs re-decode mode (C04.b, C10.e)

from engine.callgraph import CallGraph


def _mode_const(t):
    t = strip(t)
    if t[0] == "agg" and t[1] == "bcder::Mode":
        return t[2]
    return None


def ber_reachable(f):
    """Bodies that may run with a decoder in BER mode: reachable from a body that passes
    Mode::Ber to Mode::decode, not crossing an explicit Mode::Der.decode(..) boundary."""
    cg = CallGraph(f)
    roots = []
    for n, b in f.bodies.items():
        for blk in b.blocks:
            for s in blk["stmts"]:
                if s["s"] == "assign" and s["rv"]["r"] == "agg" and s["rv"].get("adt") == "bcder::Mode" \
                        and s["rv"].get("variant") == "Ber":
                    roots.append(n)
    roots = sorted(set(roots))
    seen = set()
    work = []
    # from a BER root, the callbacks of its Mode::decode call run in BER
    for r in roots:
        b = f.body(r)
        for c in b.calls():
            if c.res == "bcder::Mode::decode":
                for a in arg_terms(c)[1:]:
                    for x in walk(a):
                        if x[0] == "fnref" and x[1] in f.bodies:
                            work.append((x[1], r))
                        if x[0] == "closure" and x[1] in f.bodies:
                            work.append((x[1], r))
    parent = {}
    while work:
        n, p = work.pop()
        if n in seen:
            continue
        seen.add(n)
        parent[n] = p
        b = f.body(n)
        s = sym_of(b)
        used_closures = set()
        for c in b.calls():
            if b.is_cleanup(c.bb) or not c.is_static:
                continue
            ats = arg_terms(c)
            der_reset = c.res == "bcder::Mode::decode" and ats and _mode_const(ats[0]) == "Der"
            if c.res in f.bodies and not der_reset:
                work.append((c.res, n))
            elif c.trait and "res" not in c.k:
                for m in cg.impl_methods(c.trait, c.name):
                    work.append((m, n))
            for a in ats:
                for x in walk(a):
                    if x[0] in ("fnref", "closure") and x[1] in f.bodies:
                        used_closures.add(x[1])
                        if not der_reset:
                            work.append((x[1], n))
        for _, _, cdef, _ in b.closures_created():
            if cdef not in used_closures and cdef in f.bodies:
                work.append((cdef, n))
    return seen, parent, roots


def check_redecode_modes(ctx, f, only=None, rule="R-SIB"):
    ber, parent, roots = ber_reachable(f)
    ctx.floor(rule, "BER decode entry points", len(roots), 2)
    n_sites = 0
    for name, b in f.bodies.items():
        if only and not any(name.startswith(o) or name.startswith("<" + o) for o in only):
            continue
        adt = b.rec.get("impl_adt")
        root_b = f.body(b.rec.get("root", name)) or b
        adt = adt or root_b.rec.get("impl_adt")
        if not adt or adt not in f.adts:
            continue
        cap_fields = {fl["name"] for v in f.adts[adt]["variants"] for fl in v["fields"] if fl["ty"] == "bcder::Captured"}
        if not cap_fields:
            continue
        for c in b.calls():
            if c.res != "bcder::Mode::decode" or b.is_cleanup(c.bb):
                continue
            ats = arg_terms(c)
            mode = _mode_const(ats[0])
            src = render(ats[1])
            m = re.match(r"^(?:\w+⟵)?self\.(\w+)$", src)
            if mode is None or not m or m.group(1) not in cap_fields:
                continue
            n_sites += 1
            # constructors of the ADT from a capture
            ctors = {root_fn_name(f, x[0].name) for x in aggregates_of(f, adt) if not is_derived_body(x[0])}
            ctors_closure = {x[0].name for x in aggregates_of(f, adt) if not is_derived_body(x[0])}
            ber_ctors = sorted(x for x in ctors_closure if x in ber)
            ok = not (mode == "Der" and ber_ctors)
            detail = None
            if not ok:
                chain = []
                n = ber_ctors[0]
                while n in parent and len(chain) < 12:
                    chain.append(n)
                    n = parent[n]
                chain.append(n)
                detail = {"re-decode": "Mode::%s.decode(self.%s)" % (mode, m.group(1)),
                          "constructor_reachable_in_BER": ber_ctors, "via": chain[::-1]}
            ctx.ob(rule, "%s:redecode-mode[%s.%s]" % (short(root_fn_name(f, name)), short(adt), m.group(1)), ok,
                   "%s re-decodes the captured %s.%s in an explicit mode that every capture path also uses"
                   % (short(root_fn_name(f, name)), short(adt), m.group(1)), where=c.where(), detail=detail)
    return n_sites


def root_fn_name(f, name):
    b = f.body(name)
    return b.rec.get("root", name) if b is not None else name


def is_derived_body(body):
    for blk in body.blocks:
        sp = blk["term"].get("sp")
        return bool(sp and len(sp) > 1 and sp[1].startswith("#[derive"))
    return False


def rename(text, names):
    for k in sorted(names or {}, key=len, reverse=True):
        text = text.replace(k, names[k])
    return text


def ret_is(text, names=None):
    return lambda p: rename(absint.outcome_str(p.outcome), names) == "return " + text


def check_regions(ctx, rule, label, paths, it, rows, where, allow_opaque=False, path_filter=None):
    """Compare an abstract-interpretation result with a spec table.
    rows: [(row name, zone constraints, predicate(path) -> bool, expected text)]."""
    for name, cons, pred, text in rows:
        ps = absint.paths_in_region([p for p in paths if path_filter is None or path_filter(p)], cons)
        ok = bool(ps)
        det = []
        for p in ps:
            good = pred(p) and (allow_opaque or not p.conds)
            ok = ok and good
            if not good or len(det) < 2:
                det.append(dict(p.describe(), verdict="ok" if good else "MISMATCH"))
        ctx.ob(rule, "%s:%s" % (label, name), ok, "%s: %s ⇒ %s" % (label, name, text), where=where,
               detail={"expected": text, "paths": det, "imprecision": it.imprecise[:5]})


# ---------------------------------------------------------------------------
# X.509 time pivots (C17.b, C05.b)

def century_adds(b, consts=None):
    """The additions `yy + 1900` / `yy + 2000` (either operand order, literal or named constant) in `b`, grouped by the
    quantity yy they are applied to: {render(yy): [(block, century, yy term)]}."""
    s = sym_of(b)
    out = {}
    for bi, blk in enumerate(b.blocks):
        if blk.get("cleanup"):
            continue
        for st in blk["stmts"]:
            if st["s"] != "assign" or st["rv"]["r"] != "bin" or st["rv"]["bop"] not in ("Add", "AddWithOverflow"):
                continue
            t = strip_deep(s.rvalue(st["rv"]))
            if consts is not None:
                t = fold_consts(t, consts)
            x, y = strip_deep(t[2]), strip_deep(t[3])
            if x[0] == "const" and x[1] in (1900, 2000) and not isinstance(x[1], bool):
                x, y = y, x
            if not (y[0] == "const" and y[1] in (1900, 2000) and not isinstance(y[1], bool)) or x[0] == "const":
                continue
            while x[0] == "cast":
                x = strip_deep(x[1])
            out.setdefault(render(x), []).append((bi, y[1], x))
    return out


def _fills_two_octets(f, res, ga, depth=0):
    """The crate function `res` (instantiated with generic arguments `ga`) fills a `[u8; 2]` buffer — itself, written out
    or as the instance N = 2 of a reader generic over the width, or through a crate function it calls (thin wrappers)."""
    cb = f.bodies.get(res)
    if cb is None:
        return False
    tys = {l["ty"] for l in cb.locals}
    if "[u8; 2]" in tys or (any(re.match(r"^\[u8; [A-Z]\w*\]$", ty) for ty in tys) and "2" in (ga or ())):
        return True
    if depth < 2:
        for c in cb.calls():
            if c.is_static and not cb.is_cleanup(c.bb) and c.res in f.bodies and c.res != res and \
                    _fills_two_octets(f, c.res, c.ga, depth + 1):
                return True
    return False


def _is_two_octet_field(f, t):
    """`t` is the value of a fixed-width field of two octets: the result of a crate function that fills a `[u8; 2]` buffer
    — whatever the reader is called."""
    return any(x[0] == "call" and _fills_two_octets(f, (x[3] or {}).get("res"), (x[3] or {}).get("ga")) for x in walk(t))


def year_pivot_table(b, leaf, adds, consts=None):
    """{yy: [years]} for yy in 0..=99: which of the century additions on `leaf` is reached when the two-digit field has
    the value yy.  Every branch whose condition is an expression of yy alone (`yy < 50`,
    `50 <= yy`, the two range tests of a `0..=49` pattern, a switch on yy itself) is evaluated for that value and only the
    edge it takes is followed; indifferent to the spelling of the pivot test and to which arm comes first."""
    s = sym_of(b)
    switches = []
    for sb, blk in enumerate(b.blocks):
        t = blk["term"]
        if t["t"] == "switch" and not blk.get("cleanup"):
            d = strip_deep(s.operand(t["discr"]))
            switches.append((sb, t, fold_consts(d, consts) if consts is not None else d))
    table = {}
    for v in range(100):
        env = {leaf: v}
        dead = set()                    # the edges a decided branch does not take for this value
        for sb, t, d in switches:
            val = eval_term(d, env)
            if val is None:
                continue
            edges = b.switch_edges(sb)
            taken = [tb for ev, tb in edges if ev is not None and ev == val] or [t["otherwise"]]
            dead.update((sb, tb) for _, tb in edges if tb not in taken)
        reach = b.reachable(0, removed_edges=dead)
        table[v] = sorted({century + v for bb, century, _ in adds if bb in reach})
    return table


def check_time_pivots(ctx, f):
    from engine.absint import region_constraints as RC, outcome_str
    X = "repository::x509::"
    eb = f.body(X + "Time::encode_varied")
    if eb is None:
        ctx.missing("R-REG", "Time::encode_varied", X + "Time::encode_varied")
    else:
        ctx.saw_fn(eb.name)
        paths, it, err = run_absint(f, eb.name, sym_names={"DateTime::year(Time::deref(self))": "year", "DateTime::year(self.0)": "year"})
        if paths is None:
            ctx.ob("R-REG", "encode_varied:analysable", False, "cannot establish: " + err, where=eb.loc)
        else:
            ysym = [s for p in paths for s in p.zone.syms if "year" in s]
            y = ysym[0] if ysym else "year"
            utc = lambda p: outcome_str(p.outcome) == "return (Some(Time::encode_utc_time(self)), None)"
            gen = lambda p: outcome_str(p.outcome) == "return (None, Some(Time::encode_generalized_time(self)))"
            check_regions(ctx, "R-REG", "Time::encode_varied", paths, it, [
                ("year<1950", RC(y, None, 1949), gen, "GeneralizedTime"),
                ("1950≤year≤2049", RC(y, 1950, 2049), utc, "UTCTime"),
                ("year>2049", RC(y, 2050, None), gen, "GeneralizedTime"),
            ], eb.loc)
    # decoder pivot in every copy of the UTCTime year reader, wherever it lives (closure, named helper) and whatever
    # the digit reader is called: the bodies of x509 that add a century (1900 / 2000) to a two-digit quantity.  Decided
    # per value: for every yy in 0..=99 exactly the addition giving 19yy (yy ≥ 50) resp. 20yy (yy < 50) is reached.
    npiv = 0
    consts = getattr(f, "consts", None)
    for n, b in sorted(f.bodies.items()):
        if not n.startswith(X) or is_derived_body(b) or "::test" in n:
            continue
        for leaf, adds in sorted(century_adds(b, consts).items()):
            if not _is_two_octet_field(f, adds[0][2]):
                continue                # (a century added to anything else — a parameter, a four-digit field — is no UTCTime reader)
            npiv += 1
            table = year_pivot_table(b, leaf, adds, consts)
            wrong = {v: ys for v, ys in table.items() if ys != [(1900 if v >= 50 else 2000) + v]}
            ctx.ob("R-SIB", "%s:two-digit-year-pivot-50" % short(root_fn(f, b.name)), not wrong,
                   "%s maps yy ≥ 50 to 19yy and yy < 50 to 20yy (the encoder's UTCTime range 1950..=2049)" % short(root_fn(f, b.name)),
                   where=b.loc, detail={"yy": leaf, "additions": [(bb, c) for bb, c, _ in adds],
                                        "wrong_for": dict(sorted(wrong.items())[:6]) or None})
    ctx.floor("R-SIB", "UTCTime field readers with a year pivot", npiv, 1)


# ---------------------------------------------------------------------------
# α-normalised rendering and dominating branch conditions (shared by C03/C04/…)

_KEEP_LOCAL_NAMES = [False]


class keeping_local_names:
    """Within the block, alpha() keeps the names of locals (`$x`, `x⟵`, `^x`): two occurrences of `$x` are then known
    to be the same local, which `$` alone does not say."""

    def __enter__(self):
        self.old = _KEEP_LOCAL_NAMES[0]
        _KEEP_LOCAL_NAMES[0] = True

    def __exit__(self, *a):
        _KEEP_LOCAL_NAMES[0] = self.old


def alpha(s, body):
    """α-normalise a rendered provenance term: local and parameter names do not matter."""
    if not _KEEP_LOCAL_NAMES[0]:
        s = re.sub(r"\$\w+", "$", s)
        s = re.sub(r"\b\w+⟵", "⟵", s)
        s = re.sub(r"\^\w+", "^", s)
    for i in range(1, body.arg_count + 1):
        nm = body.local_name(i)
        if nm and nm != "self":
            s = re.sub(r"(?<![\w.:])%s(?![\w(:])" % re.escape(nm), "%%%d" % i, s)
    return s



_DOM = {}


def canon_literal(body, discr_term, dty, edge_vals, n_edges):
    """Canonical text of what is known to hold after leaving a branch on `discr_term` along `edge_vals`.

    Boolean tests become positive literals independent of how the source spelt them: `a > b`, `!(a <= b)`,
    `b < a` and an `if`/`else` with swapped arms all give `b < a`; equalities have their operands sorted.  Other
    switches (enum discriminants, three-way comparisons) read `discr(X) in {v, …}`; a three-way `cmp` has its
    operands sorted and its outcomes renamed accordingly."""
    from engine import orderlogic as OL
    t = strip_deep(discr_term)
    if body.facts is not None:
        t = fold_consts(t, body.facts.consts)
    if dty == "bool" and len(edge_vals) == 1:
        truth = edge_vals[0] != "0"
        a = OL.atom(t)
        while a[0] == "not":
            a, truth = a[1], not truth
        if a[0] == "cmp":
            op, x, y = a[1], alpha(render(a[2]), body), alpha(render(a[3]), body)
            if not truth:
                op = {"<": ">=", "<=": ">", ">": "<=", ">=": "<", "==": "!=", "!=": "=="}[op]
            if op in (">", ">="):
                op, x, y = {">": "<", ">=": "<="}[op], y, x
            if op in ("==", "!=") and y < x:
                x, y = y, x
            return "%s %s %s" % (x, op, y)
        if a[0] == "const":
            return "const %s" % (a[1] == truth)
        txt = alpha(a[1] if a[0] == "opaque" else render(t), body)
        return txt if truth else "!" + txt
    txt = alpha(render(t), body)
    vals = list(edge_vals)
    m = re.match(r"^discr\(Ord::cmp\((.*)\)\)$", txt)
    if t[0] == "discr" and strip_deep(t[1])[0] == "call" and (strip_deep(t[1])[3] or {}).get("name") == "cmp" and len(strip_deep(t[1])[2]) == 2:
        c = strip_deep(t[1])
        x, y = alpha(render(strip_deep(c[2][0])), body), alpha(render(strip_deep(c[2][1])), body)
        names = {"255": "Less", "0": "Equal", "1": "Greater"}
        if y < x:
            x, y = y, x
            names = {"255": "Greater", "0": "Equal", "1": "Less"}
        known = [names.get(v) for v in vals if v != "else"]
        if "else" in vals:
            known = None
        return "cmp(%s, %s) in {%s}" % (x, y, ",".join(sorted(known)) if known is not None else ",".join(vals))
    return "%s in {%s}" % (txt, ",".join(vals))


def dominating_guards(f, body, bb):
    """What every path to block `bb` has established: canonical literals (see canon_literal) of the branches that
    dominate `bb` and from some of whose edges `bb` cannot be reached."""
    ent = _DOM.get(id(body))
    if ent is None or ent[0] is not body:
        ent = (body, body.dominators())
        _DOM[id(body)] = ent
    dom = ent[1]
    s = sym_of(body)
    out = []
    for sb in sorted(dom.get(bb, ())):
        t = body.term(sb)
        if t["t"] != "switch" or sb == bb:
            continue
        edges = body.switch_edges(sb)
        ok_vals = []
        listed = [v for v, _ in edges if v is not None]
        for v, tb in edges:
            if bb in body.reachable(tb, removed_blocks=[sb]) or tb == bb:
                if v is None and t.get("dty") == "bool" and listed == [0]:
                    ok_vals.append("1")
                elif v is None and len(listed) == 1 and listed[0] in (0, 1) and "discr(" in render(strip_deep(s.operand(t["discr"])))[:6]:
                    ok_vals.append(str(1 - listed[0]))       # two-variant enum: the otherwise edge is the other variant
                else:
                    ok_vals.append("else" if v is None else str(v))
        if len(ok_vals) < len(edges):
            out.append(canon_literal(body, s.operand(t["discr"]), t.get("dty"), ok_vals, len(edges)))
    return out


# ---------------------------------------------------------------------------
# comparison-only predicates of the interval type (chain::Block)

def check_block_predicates(ctx, f, rule="R-REG"):
    """The four order predicates of `chain::Block` are decided on every weak ordering of the bounds involved and compared
    with the interval-arithmetic definition (intervals are inclusive)."""
    from engine import orderlogic as OL
    CH = "repository::resources::chain::Block::"
    M = {"Block::min(self)": "a", "Block::max(self)": "b", "Block::min(%2)": "c", "Block::max(%2)": "d", "%2": "x"}

    def spec(fn, q):
        fn.quantities = q
        return fn
    specs = {
        "is_encompassed": (spec(lambda e: e["c"] <= e["a"] and e["b"] <= e["d"], ("a", "b", "c", "d")),
                           "[a,b] ⊆ [c,d] ⇔ c ≤ a ∧ b ≤ d"),
        "intersects": (spec(lambda e: e["a"] <= e["d"] and e["c"] <= e["b"], ("a", "b", "c", "d")),
                       "[a,b] ∩ [c,d] ≠ ∅ ⇔ a ≤ d ∧ c ≤ b"),
        "contains": (spec(lambda e: e["a"] <= e["x"] <= e["b"], ("a", "b", "x")), "x ∈ [a,b] ⇔ a ≤ x ≤ b"),
        "is_equivalent": (spec(lambda e: e["a"] == e["c"] and e["b"] == e["d"], ("a", "b", "c", "d")), "a = c ∧ b = d"),
    }
    n = 0
    for meth, (sp, text) in specs.items():
        b = f.body(CH + meth)
        if b is None:
            ctx.missing(rule, "Block::%s" % meth, CH + meth)
            continue
        n += 1
        ctx.saw_fn(b.name)
        ok, det = OL.decide(b, sym_of(b), M, sp, assume=lambda e: e.get("a", 0) <= e.get("b", 0) and e.get("c", 0) <= e.get("d", 0),
                            norm=lambda q, b=b: alpha(q, b))
        over = sorted(n2 for n2 in f.bodies if re.search(r" as repository::resources::chain::Block>::%s$" % meth, n2))
        if over:
            ok, det = False, {"overridden_by": over, "table": det}
        ctx.ob(rule, "Block::%s:order-table" % meth, ok,
               "Block::%s is %s on every weak ordering of the bounds (with a ≤ b, c ≤ d)" % (meth, text), where=b.loc, detail=det)
    return n


def check_bool_table(ctx, f, rule, fn, names, spec, text, key=None):
    """Decide a small boolean function of side-effect-free tests on every assignment of its tests."""
    from engine import orderlogic as OL
    b = f.body(fn)
    if b is None:
        return ctx.missing(rule, key or short(fn), fn)
    ctx.saw_fn(fn)
    ok, det = OL.decide_bool(b, sym_of(b), names, spec, norm=lambda q, b=b: alpha(q, b))
    return ctx.ob(rule, "%s:truth-table" % (key or short(fn)), ok, "%s %s (on every assignment of the tests it performs)" % (short(fn), text),
                  where=b.loc, detail=det)


def eval_term(t, env):
    """Value of an integer/boolean term under env {rendered leaf: int}; None if something else occurs."""
    t = strip_deep(t)
    k = t[0]
    if k == "const" and isinstance(t[1], (int, bool)):
        return int(t[1])
    r = render(t)
    if r in env:
        return env[r]
    if k == "cast":
        return eval_term(t[1], env)
    if k == "un" and t[1] == "Not":
        v = eval_term(t[2], env)
        return None if v is None else int(not v)
    if k == "bin":
        a, b = eval_term(t[2], env), eval_term(t[3], env)
        if a is None or b is None:
            return None
        op = t[1]
        if op in ("Lt", "Le", "Gt", "Ge", "Eq", "Ne"):
            return int({"Lt": a < b, "Le": a <= b, "Gt": a > b, "Ge": a >= b, "Eq": a == b, "Ne": a != b}[op])
        if op in ("BitAnd", "BitOr", "BitXor", "Add", "Sub", "Shr", "Shl"):
            return {"BitAnd": a & b, "BitOr": a | b, "BitXor": a ^ b, "Add": a + b, "Sub": a - b, "Shr": a >> b, "Shl": a << b}[op]
        if op == "Mul":
            return a * b
        if op in ("Rem", "Div") and b != 0 and a >= 0 and b > 0:
            return a % b if op == "Rem" else a // b
    return None


def _pads_for_octets(b):
    """(switch block, the first-octet values for which `b` steps back by one) for the branch of `b` whose condition is an
    expression of one indexed octet, evaluated for all 256 values; None when `b` has no such branch."""
    s = sym_of(b)
    found = None
    for bi, blk in enumerate(b.blocks):
        t = blk["term"]
        if t["t"] != "switch" or blk.get("cleanup"):
            continue
        d = strip_deep(s.operand(t["discr"]))
        if b.facts is not None:
            d = fold_consts(d, b.facts.consts)         # `& 0x80` and `& SIGN_BIT` are the same test
        leaves = [x for x in walk(d) if x[0] == "index"]
        if not leaves:
            continue
        leaf = render(leaves[0])
        vals = {}
        for v in range(256):
            vals[v] = eval_term(d, {leaf: v})
        if any(x is None for x in vals.values()):
            continue
        # which edge subtracts one?
        tt = b.switch_edges(bi)
        sub_reach = {}
        for val, tb in tt:
            blocks = b.reachable(tb, removed_blocks=[bi])
            has_sub = any(st["s"] == "assign" and st["rv"]["r"] == "bin" and st["rv"]["bop"] in ("SubWithOverflow", "Sub")
                          for x in blocks for st in b.blocks[x]["stmts"]) and not all(
                any(st["s"] == "assign" and st["rv"]["r"] == "bin" and st["rv"]["bop"] in ("SubWithOverflow", "Sub")
                    for x in b.reachable(tb2, removed_blocks=[bi]) for st in b.blocks[x]["stmts"]) for _, tb2 in tt)
            sub_reach[val] = has_sub
        pad = set()
        for v in range(256):
            edge = vals[v] if vals[v] in sub_reach else None
            if sub_reach.get(edge, False):
                pad.add(v)
        found = (bi, sorted(pad))
    return found


def check_serial_start(ctx, f, rule="R-REG"):
    """Serial::start prepends a zero octet exactly when the first significant octet has its top bit set (so the INTEGER
    stays non-negative and minimal): the branch condition is evaluated for all 256 octet values."""
    fn = "repository::x509::Serial::start"
    b = f.body(fn)
    found = None
    if b is None:
        # The function is private, so its name is not part of the fact: it is the inherent method of Serial that maps
        # the value to a `usize` position and decides on one indexed octet whether to step back by one.
        cands = []
        for n, r in sorted(f.fns.items()):
            cb = f.body(n)
            if r.get("impl_adt") != "repository::x509::Serial" or r.get("impl_trait") or cb is None or is_derived_body(cb) \
                    or cb.arg_count != 1 or cb.ret_ty != "usize":
                continue
            fd = _pads_for_octets(cb)
            if fd is not None:
                cands.append((cb, fd))
        if len(cands) != 1:
            return ctx.missing(rule, "Serial::start", fn)
        b, found = cands[0]
    else:
        found = _pads_for_octets(b)
    ctx.saw_fn(b.name)
    ok = found is not None and found[1] == list(range(128, 256))
    ctx.ob(rule, "Serial::start:pad-iff-top-bit", ok,
           "Serial::start steps back one octet (emits a leading 0x00) exactly for first octets 0x80..=0xFF",
           where=b.loc, detail=None if found is None else {"pads_for": "%s..%s (%d values)" % (found[1][:1], found[1][-1:], len(found[1]))})


def check_attr_values_unescaped(ctx, f, rule="R-CHK"):
    """Writer and reader agree on escaping: the writer escapes attribute values, so every accessor of
    xml::decode::AttrValue hands out the value only after quick-xml's unescape_value."""
    n = 0
    for name, r in sorted(f.fns.items()):
        if r.get("impl_adt") != "xml::decode::AttrValue" or not r.get("has_body") or r.get("impl_trait"):
            continue
        b = f.body(name)
        if b is None:
            continue
        n += 1
        ctx.saw_fn(name)
        mp = MustPass(f, lambda c: (c.res or "").endswith("Attribute::<'a>::unescape_value") or c.name == "unescape_value", name="unescape_value")
        ok = mp.holds(name)
        ctx.ob(rule, "%s→unescape_value" % short(name), ok,
               "%s returns a value only after the attribute went through quick-xml's unescape_value (the writer escapes the five XML special characters)"
               % short(name), where=b.loc, detail=None if ok else why(f, mp, name))
    ctx.floor(rule, "accessors of xml::decode::AttrValue", n, 2)


def check_attr_ascii_after_unescape(ctx, f, rule="R-GRD"):
    """An accessor of xml::decode::AttrValue that promises ASCII (`ascii_*` / `*_ascii_*`) hands out the *unescaped* value, so
    it is the unescaped value that has to be ASCII: success requires `is_ascii(X)` with X derived from the result of
    unescape_value.  (A character reference such as `&#233;` is ASCII before unescaping and is not afterwards; the writer
    would then emit text that the reader refuses.)"""
    from engine.rules import pred_matcher, guard_edges
    n = 0
    g = pred_matcher(r"(^|::)is_ascii$", (r"unescape_value\(",))
    for name, r in sorted(f.fns.items()):
        if r.get("impl_adt") != "xml::decode::AttrValue" or not r.get("has_body") or r.get("impl_trait"):
            continue
        if "ascii" not in name.rsplit("::", 1)[-1] or r.get("vis") != "pub":
            continue
        b = f.body(name)
        if b is None:
            continue
        n += 1
        ctx.saw_fn(name)
        mp = MustPass(f, lambda c: False, guard_fn=lambda bd, s_, bb: guard_edges(bd, s_, bb, g), name="is_ascii(unescaped value)")
        ok = mp.holds(name)
        ctx.ob(rule, "%s:ascii-after-unescape" % short(name), ok,
               "%s succeeds only if the value it hands out — the attribute after unescape_value — is ASCII (the test looks at the "
               "unescaped text, not at the raw attribute)" % short(name), where=b.loc, detail=None if ok else why(f, mp, name))
    ctx.floor(rule, "ASCII accessors of xml::decode::AttrValue", n, 2)


def check_revocation_lookup(ctx, f, which, rule="R-GRD"):
    """`contains(serial)` answers true exactly for an entry whose serial equals the one asked for — nothing else
    (dates, position) takes part in the decision."""
    n = 0
    for name, b in sorted(f.bodies.items()):
        if not re.search(r"^%s::RevokedCertificates::contains::\{closure#0\}$" % which, name):
            continue
        n += 1
        ctx.saw_fn(name)
        s = sym_of(b)
        trues, falses = [], []
        for bi, blk in enumerate(b.blocks):
            for st in blk["stmts"]:
                if st["s"] == "assign" and st["pl"]["l"] == 0 and not st["pl"]["p"]:
                    r = render(strip_deep(s.rvalue(st["rv"])))
                    g = dominating_guards(f, b, bi)
                    if r == "result::Result::Ok{0: 1}":
                        trues.append(g)
                    elif r == "result::Result::Ok{0: 0}":
                        falses.append(g)
        want_t = [r"^discr\(Result::unwrap\(CrlEntry::take_opt_from\(%2\)\)\) in \{1\}$",
                  r"^Result::unwrap\(CrlEntry::take_opt_from\(%2\)\)↓Some\.0\.user_certificate == \^$"]
        ok = len(trues) == 1 and len(trues[0]) == 2 and all(re.match(w, g) for w, g in zip(want_t, trues[0])) and \
            len(falses) == 1 and falses[0] == ["discr(Result::unwrap(CrlEntry::take_opt_from(%2))) in {0}"]
        if not ok:
            alt = _lookup_by_flag(f, b, s)
            if alt is not None:
                ok, extra = alt
                trues = trues or [extra]
        ctx.ob(rule, "%s::RevokedCertificates::contains:decision" % which.split("::")[-1], ok,
               "the revocation lookup returns true exactly when an entry's serial equals the requested one, false when the list "
               "is exhausted; no other condition takes part", where=b.loc, detail={"true_under": trues, "false_under": falses})
    ctx.floor(rule, "%s revocation lookups" % which, n, 1)


def _lookup_by_flag(f, b, s):
    """The same decision kept in a flag: `let mut found = false; while !found { match next { Some(e) => found = (e.serial
    == wanted), None => break } } Ok(found)`.  Decided on the flag's reaching definitions: the answer is the flag; the
    flag is only ever the constant false or the value of the serial equality; once an equality has been stored the next
    store is reachable only over an edge on which the flag is false (so a later entry cannot overwrite a hit); and the
    initial false reaches the answer only over the list-exhausted edge or through an equality store.
    -> (ok, description) or None when the function does not have this shape."""
    EQ = re.compile(r"^(?:PartialEq::eq\((?:\^|%\d), Result::unwrap\(CrlEntry::take_opt_from\(%2\)\)↓Some\.0\.user_certificate\)|"
                    r"PartialEq::eq\(Result::unwrap\(CrlEntry::take_opt_from\(%2\)\)↓Some\.0\.user_certificate, (?:\^|%\d)\))$")
    rets = []
    for bi, blk in enumerate(b.blocks):
        for st in blk["stmts"]:
            if st["s"] == "assign" and st["pl"]["l"] == 0 and not st["pl"]["p"]:
                rets.append((bi, strip_deep(s.rvalue(st["rv"]))))
    if len(rets) != 1 or rets[0][1][0] != "agg" or not str(rets[0][1][2]).endswith("Ok") or len(rets[0][1][3]) != 1:
        return None
    flag = strip_deep(rets[0][1][3][0][1])
    if flag[0] != "var":
        return None
    fl = flag[2]
    inits, stores, other = [], [], []
    for db, val in s.defs_of_var(fl):
        v = strip_deep(val)
        r = alpha(render(v), b)
        if v[0] == "const" and v[1] in (0, False):
            inits.append(db)
        elif EQ.match(r):
            stores.append(db)
        else:
            other.append(r[:120])
    if other or not stores or not inits:
        return (False, {"flag": flag[1], "other_definitions": other})
    # edges on which the flag is known false / the list is known exhausted
    flag_false, flag_true, exhausted = set(), set(), set()
    for bi, blk in enumerate(b.blocks):
        t = blk["term"]
        if t["t"] != "switch" or blk.get("cleanup"):
            continue
        d = strip_deep(s.operand(t["discr"]))
        neg = False
        while d[0] == "un" and d[1] == "Not":
            d, neg = strip_deep(d[2]), not neg
        if d[0] == "var" and d[2] == fl and t.get("dty") == "bool":
            for v, tb in b.switch_edges(bi):
                is_true_edge = (v is None) if any(x == 0 for x, _ in b.switch_edges(bi)) else (v == 1)
                val = is_true_edge != neg
                if not val:
                    flag_false.add((bi, tb))
                else:
                    flag_true.add((bi, tb))
        if d[0] == "discr" and re.search(r"take_opt_from\(%2\)", alpha(render(d[1]), b)):
            for v, tb in b.switch_edges(bi):
                if v == 0:
                    exhausted.add((bi, tb))
    # (1) after a store, the next store is only reachable over a flag-is-false edge
    overwrite = []
    for sb in stores:
        for nxt in b.succs(sb):
            reach = b.reachable(nxt, removed_edges=flag_false)
            if any(x in reach for x in stores):
                overwrite.append(b.line_of(sb))
    # (2) the initial false answers only when the list is exhausted (or after a store)
    early = []
    for ib in inits:
        # (no store passed, so the flag is still false: its true edges are infeasible)
        reach = b.reachable(ib, removed_blocks=set(stores), removed_edges=exhausted | flag_true)
        if rets[0][0] in reach and ib not in stores:
            early.append(b.line_of(ib))
    ok = not overwrite and not early
    return (ok, {"flag": flag[1], "a_hit_can_be_overwritten_from_line": overwrite, "false_answered_before_the_list_ends_from_line": early})


def check_text_impls_escape(ctx, f, rule="R-CHK"):
    """Every implementation of xml::encode::Text::write_escaped sends all of its bytes through TextEscape::write_escaped
    (directly or via the DisplayText adaptor) — there is no path that writes the bytes unescaped."""
    n = 0
    for name, b in sorted(f.bodies.items()):
        m = re.match(r"^<(.+) as xml::encode::Text>::write_escaped$", name)
        disp = name == "<xml::encode::DisplayText<'_, W> as std::fmt::Write>::write_str" or \
            re.match(r"^<xml::encode::DisplayText<.*> as std::fmt::Write>::write_str$", name)
        if not m and not disp:
            continue
        n += 1
        ctx.saw_fn(name)
        mp = MustPass(f, lambda c: (c.res or "") == "xml::encode::TextEscape::write_escaped" or
                      (c.name == "write_fmt" and "DisplayText::new(" in (arg_renders(c) or [""])[0]), name="TextEscape::write_escaped")
        ok = mp.holds(name)
        raw = [c.where() for c in b.calls() if not b.is_cleanup(c.bb) and c.name in ("write_all", "write") and
               (c.trait or "").endswith("io::Write")]
        ctx.ob(rule, "%s:escapes-everything" % short(name), ok and not raw,
               "%s writes nothing that did not pass TextEscape::write_escaped" % short(name), where=b.loc,
               detail={"unescaped_writes": raw, "path": None if ok else why(f, mp, name)})
    ctx.floor(rule, "implementations of Text::write_escaped (and the Display adaptor)", n, 3)


def check_scheme_tests_ignore_case(ctx, f, rule="R-SIB"):
    """URI schemes are case-insensitive everywhere they are recognised: a comparison against the literal "http://",
    "https://" or "rsync://" goes through the ignore-case helper or looks at a lower-cased copy (the URI types and the
    RFC 8183 service URI must accept what the other writes)."""
    n = 0
    for name, b in sorted(f.bodies.items()):
        if is_derived_body(b) or "::test" in name or "arbitrary" in name:
            continue
        for c in b.calls():
            if b.is_cleanup(c.bb) or c.name not in ("starts_with", "strip_prefix", "starts_with_ignore_case", "eq", "eq_ignore_ascii_case"):
                continue
            a = arg_renders(c)
            if len(a) < 2 or not re.search(r"^b'(https?|rsync)://'$", a[-1]):
                continue
            n += 1
            recv = alpha(a[0], b)
            ok = c.name in ("starts_with_ignore_case", "eq_ignore_ascii_case") or \
                re.search(r"(to_lowercase|to_ascii_lowercase|make_ascii_lowercase)\(", recv) is not None
            ctx.ob(rule, "%s:scheme-test-ignores-case[%s]" % (short(root_fn_name(f, name)), a[-1].strip("b'")), ok,
                   "%s recognises the scheme %s case-insensitively" % (short(root_fn_name(f, name)), a[-1]), where=c.where(),
                   detail={"call": short(c.res or c.name), "receiver": recv})
    ctx.floor(rule, "scheme literal comparisons", n, 2)      # (two in the URI types, two in the RFC 8183 service URI; a prefix table leaves the latter)


def check_base64_engines(ctx, f, rule="R-SIB"):
    """Each base64 flavour of util::base64 encodes, displays and decodes with one and the same engine constant (its own
    ENGINE): a flavour whose writer and reader disagree on the alphabet cannot read what it wrote."""
    per = {}
    for n, b in sorted(f.bodies.items()):
        m = re.match(r"^util::base64::(\w+)::(\w+)$", n)
        if not m or m.group(2) == "ENGINE" or is_derived_body(b):
            continue
        eng = set()
        for c in b.calls():
            if b.is_cleanup(c.bb):
                continue
            for t in arg_terms(c):
                for x in walk(t):
                    if x[0] in ("cdef", "static") and ("base64" in str(x[1])):
                        eng.add(x[1])
                    elif x[0] == "call" and (x[3] or {}).get("krate") == "base64" and re.search(r"(STANDARD|URL_SAFE|GeneralPurpose::new)", x[1]):
                        eng.add(short(x[1]))
        if eng:
            per.setdefault(m.group(1), {})[m.group(2)] = sorted(eng)
    n = 0
    for ty, meths in sorted(per.items()):
        n += 1
        want = ["util::base64::%s::ENGINE" % ty]
        bad = {k: v for k, v in meths.items() if v != want}
        ctx.ob(rule, "base64::%s:one-engine" % ty, not bad and len(meths) >= 2,
               "all encoding and decoding functions of util::base64::%s use %s" % (ty, want[0]), detail=bad or sorted(meths))
    ctx.floor(rule, "base64 flavours", n, 3)


def check_limit_owners(ctx, f, const_name, owners, rule="R-WHO"):
    """A limit is enforced where the value is built, not re-implemented elsewhere: the order comparisons against the value
    of `const_name` are exactly the reviewed ones (a second, hand-rolled limit test is where off-by-one slips live)."""
    from engine import orderlogic as OL
    c = f.consts.get(const_name)
    if c is None or "v" not in c:
        return ctx.missing(rule, "limit:" + short(const_name), const_name)
    val = c["v"]
    got = set()
    for n, b in sorted(f.bodies.items()):
        if is_derived_body(b) or "::test" in n:
            continue
        s = sym_of(b)
        for bi, blk in enumerate(b.blocks):
            t = blk["term"]
            if blk.get("cleanup") or t["t"] != "switch" or t.get("dty") != "bool":
                continue
            a = OL.atom(strip_deep(s.operand(t["discr"])))
            while a[0] == "not":
                a = a[1]
            if a[0] == "cmp" and a[1] in ("<", "<=", ">", ">="):
                for side in (a[2], a[3]):
                    if (side[0] == "const" and side[1] == val and not isinstance(side[1], bool)) or (side[0] == "cdef" and side[1] == const_name):
                        got.add(root_fn_name(f, n))
    got = sorted(got)
    ctx.ob(rule, "limit:%s=%s:compared-only-by-owners" % (short(const_name), val), got == sorted(owners),
           "the limit %s (%s) is tested only in %s" % (short(const_name), val, ", ".join(short(o) for o in owners)),
           detail={"found": got, "reviewed": sorted(owners)})


# ---------------------------------------------------------------------------
# Quantified checks written with iterator combinators instead of loops
#
#   for e in C { if !G(e) { return Err } }      ≡   if !C.iter().all(|e| G(e)) { return Err }
#                                               ≡   if C.iter().any(|e| !G(e)) { return Err }
#                                               ≡   if let Some(e) = C.iter().find(|e| !G(e)) { return Err }
#   for e in C { if G(e) { return true } } false ≡  C.iter().any(|e| G(e))  ≡  C.iter().find(|e| G(e)).is_some()
#
# The closure is read in the caller's vocabulary (engine.sym.substituting): its element parameter renders as the
# loop form's element (`Iterator::next(iter⟵C)↓Some.0`), its captures as the captured values.  What is decided is
# std's documented contract of the combinator plus, by engine.orderlogic.implies, the closure's truth table.

from engine import sym as _symmod
from engine import orderlogic as _OL
from engine.rules import success_values

_QUANT = {"all": True, "any": False, "find": False, "position": False}


def closure_env(f, closure_term, elem_text, elem_param=2):
    """(closure body, substitution) for a ('closure', def, captures) term."""
    cb = f.body(closure_term[1])
    if cb is None:
        return None, None
    m = {}
    for name, pl in cb.rec.get("upvars", []):
        idx = None
        for pe in pl.get("p", []):
            if pe and pe[0] == "f":
                try:
                    idx = int(pe[1])
                except (TypeError, ValueError):
                    idx = None
                break
        if idx is not None and idx < len(closure_term[2]):
            m[("upvar", name)] = render(closure_term[2][idx])
    if cb.arg_count >= elem_param and cb.local_name(elem_param):
        m[("param", cb.local_name(elem_param))] = elem_text
    return cb, m


def order_lit(lo_rx, hi_rx):
    """orderlogic literal `lo <= hi` (any spelling)."""
    lo, hi = re.compile(lo_rx), re.compile(hi_rx)

    def lit(a):
        if a[0] != "cmp":
            return None
        x, y = render(a[2]), render(a[3])
        op = a[1]
        if lo.search(x) and hi.search(y):
            return {"<=": True, ">": False}.get(op)
        if hi.search(x) and lo.search(y):
            return {">=": True, "<": False}.get(op)
        return None
    return lit


def pred_lit(text_rx, positive=True):
    """orderlogic literal: a predicate call whose rendering matches."""
    rx = re.compile(text_rx)

    def lit(a):
        if a[0] == "opaque" and rx.search(a[1]):
            return positive
        return None
    return lit


def combinator_calls(f, b, recv_rx, names=("all", "any", "find", "position")):
    """Calls `Iterator::<name>(receiver ~ recv_rx, closure)` in b: [(call, name, closure term)]."""
    out = []
    sy = outcome(b).sym
    for c in b.calls():
        if c.name not in names or c.trait != "std::iter::Iterator" or len(c.args) != 2 or b.is_cleanup(c.bb):
            continue
        a = arg_terms(c)
        if not re.search(recv_rx, render(a[0])):
            continue
        ct = strip(a[1])
        if ct[0] != "closure":
            continue
        out.append((c, c.name, ct))
    return out


def forall_by_combinator(f, b, recv_rx, elem_text, lit, coll_rx=None):
    """∀-check in combinator form.  Returns [(where, ok, detail)] — one per combinator call over the collection.
    coll_rx: rendering of the collection itself; a path on which `is_empty(collection)` holds has nothing to check."""
    from engine.rules import bool_place_edge, variant_edge
    out = []
    for c, name, ct in combinator_calls(f, b, recv_rx):
        cb, m = closure_env(f, ct, elem_text)
        if cb is None:
            out.append((c.where(), False, "closure body not found"))
            continue
        with _symmod.substituting(m):
            ok1, d1 = _OL.implies(cb, Sym(cb), _QUANT[name], lit)
        # the caller succeeds only when the combinator reports "every element passed"
        if c.dest is None or c.dest["p"]:
            out.append((c.where(), False, "result of %s is not kept" % name))
            continue
        sy = outcome(b).sym
        call_text = re.escape(render(strip_deep(sy.call(b.term(c.bb), c.bb))))

        def g(bd, s, bb, name=name, call_text=call_text):
            if coll_rx is not None:
                e0 = guard_edges(bd, s, bb, pred_matcher(r"is_empty$", (coll_rx,)))
                if e0:
                    return e0
            if name in ("all", "any"):
                return bool_place_edge(bd, s, bb, "^" + call_text + "$", name == "all")
            e = variant_edge(bd, s, bb, "^" + call_text + "$", 0)
            if e:
                return e
            at = None
            t = bd.term(bb)
            if t["t"] == "switch" and t.get("dty") == "bool":
                from engine.rules import bool_atom, switch_bool_edges
                at = bool_atom(s.operand(t["discr"]))
                if at and isinstance(at[0], tuple) and at[0][2] in ("is_none", "is_some") and len(at[1]) == 1 \
                        and re.match("^" + call_text + "$", render(at[1][0])):
                    fe, te = switch_bool_edges(bd, bb)
                    none_true = (at[0][2] == "is_none") == at[3]
                    return [(bb, te if none_true else fe)]
            return None
        mp = MustPass(f, lambda cc: False, guard_fn=g, name="%s over the collection" % name)
        ok2 = mp.holds(b.name)
        out.append((c.where(), ok1 and ok2,
                    {"form": "%s(closure)" % name, "closure": cb.name,
                     "closure_truth": "ok" if ok1 else d1, "caller": "ok" if ok2 else why(f, mp, b.name)}))
    return out


def exists_by_combinator(f, b, recv_rx, elem_text, lit):
    """∃-check: a bool function that is true only as `any(closure)` / `find(closure).is_some()` over the collection,
    the closure being true only if the literal holds.  None when the function has another form."""
    vals = success_values(b)
    if not vals:
        return None
    det = []
    for _, _, t in vals:
        t = strip_deep(t)
        inner = t
        if t[0] == "call" and (t[3] or {}).get("name") == "is_some" and len(t[2]) == 1:
            inner = strip_deep(t[2][0])
            if not (inner[0] == "call" and (inner[3] or {}).get("name") in ("find", "position")):
                return None
        elif not (t[0] == "call" and (t[3] or {}).get("name") == "any"):
            return None
        if (inner[3] or {}).get("trait") != "std::iter::Iterator" or len(inner[2]) != 2:
            return None
        if not re.search(recv_rx, render(inner[2][0])):
            return None
        ct = strip(inner[2][1])
        if ct[0] != "closure":
            return None
        cb, m = closure_env(f, ct, elem_text)
        if cb is None:
            return None
        with _symmod.substituting(m):
            ok, d = _OL.implies(cb, Sym(cb), True, lit)
        det.append({"closure": cb.name, "truth": "ok" if ok else d})
        if not ok:
            return False, det
    return True, det


def check_digest_input(ctx, f, b, key):
    """The digest that is compared with message_digest is computed over self.content under self.digest_algorithm."""
    # digest context is fed from the content: every update of the context started under self.digest_algorithm takes
    # an element of an iteration over self.content — as a for_each closure or as a loop, whatever the locals are called
    START = r"\w+⟵DigestAlgorithm::start\(self\.digest_algorithm\)"
    ok = False
    detail = []
    ups = [c for c in b.calls() if c.res == "crypto::digest::Context::update"]
    for c in ups:                                   # loop form
        ua = arg_renders(c)
        detail.append({"update": ua})
        if re.match("^%s$" % START, ua[0]) and re.match(r"^Iterator::next\(\w+⟵(OctetString::iter\()?self\.content\)?\)↓Some\.0$", ua[1]):
            ok = True
        else:
            ok = False
            break
    if not ups:
        for c in [c for c in b.calls() if c.name == "for_each"]:
            a = arg_terms(c)
            d = [render(x) for x in a]
            if re.match(r"^(OctetString::iter\()?self\.content\)?$", render(a[0])) and a[1][0] == "closure":
                cb = f.body(a[1][1])
                caps = [render(x) for x in a[1][2]]
                if cb is not None:
                    cups = [c2 for c2 in cb.calls() if c2.res == "crypto::digest::Context::update"]
                    if len(cups) == 1 and cb.arg_count == 2:
                        ua = arg_renders(cups[0])
                        ok = ua[0].startswith("^") and ua[1] == (cb.local_name(2) or "?") and \
                            len(caps) == 1 and re.match("^%s$" % START, caps[0]) is not None
                        d = {"for_each": d, "update": ua, "captures": caps}
            detail.append(d)
    # and the finished context is that same context
    fin = [arg_renders(c)[0] for c in b.calls() if c.res == "crypto::digest::Context::finish"]
    ok = ok and len(fin) == 1 and re.match("^%s$" % START, fin[0]) is not None
    ctx.ob("R-FLOW", key, ok,
           "the digest compared with message_digest is computed over self.content under self.digest_algorithm",
           where=b.loc, detail=detail)



# ---------------------------------------------------------------------------------------------
# XML readers: what an attribute arm stores, it stores on every accepting path; per-element slots are fresh

def _captured_state_writes(cb):
    """blocks of a closure body that write a variable captured from the enclosing function: a store through the closure
    environment, or a call that is handed a `&mut` to captured state."""
    from engine.sym import Sym
    sy = sym_of(cb)
    out = set()
    for bi, blk in enumerate(cb.blocks):
        if blk.get("cleanup"):
            continue
        for st in blk["stmts"]:
            if st["s"] == "assign" and st["pl"]["l"] == 1 and any(p_[0] == "f" for p_ in st["pl"]["p"]):
                out.add(bi)
        t = blk["term"]
        if t["t"] == "call":
            for a in t["args"]:
                pl = a.get("m") or a.get("c") if isinstance(a, dict) else None
                if pl and not pl["p"] and (cb.local_ty(pl["l"]) or "").startswith("&mut "):
                    if any(x[0] == "upvar" for x in walk(strip_deep(sy.operand(a)))):
                        out.add(bi)
    return out


def check_attribute_arms(ctx, f, rule, prefix, floor):
    """In the closures handed to `Element::attributes`, the arm of an attribute name either only checks the value or
    stores it — and then on every path on which the arm accepts.  (An arm that stores a value only sometimes makes a
    written attribute — `req_resource_set_as=""` for an explicitly empty set — read back as if it had been absent.)"""
    from engine.rules import slice_patterns
    n = 0
    for name, b in sorted(f.bodies.items()):
        if not name.startswith(prefix):
            continue
        for c in b.calls():
            if b.is_cleanup(c.bb) or c.name != "attributes" or not (c.res or "").startswith("xml::decode::Element"):
                continue
            a = arg_terms(c)
            ct = strip(a[1]) if len(a) > 1 else ("?",)
            cb = f.body(ct[1]) if ct[0] == "closure" else None
            if cb is None or cb.arg_count < 3:
                continue
            oc = outcome(cb)
            rets = oc.returns()
            writes = _captured_state_writes(cb)
            arms = {}
            for w, leaf in slice_patterns(cb, 2):
                if w is not None:
                    arms.setdefault(w, set()).add(leaf)
            if not arms:
                continue
            n += 1
            bad = []
            for w, leaves in sorted(arms.items()):
                for leaf in leaves:
                    reach = cb.reachable(leaf)
                    if not (writes & reach):
                        continue                    # a check-only arm
                    pth = cb.path(leaf, rets, set(oc.fail_blocks) | writes) if rets else None
                    if pth is not None:
                        bad.append({"attribute": w.decode("ascii", "replace"), "accepting_path_without_the_store": [cb.line_of(x) for x in pth][:10]})
            ctx.ob(rule, "%s:attribute-arms-store-unconditionally[%s]" % (short(root_fn(f, name)), ",".join(sorted(x.decode("ascii", "replace") for x in arms))[:80]),
                   not bad, "each attribute arm of the reader closure in %s that stores the attribute's value does so on every "
                   "accepting path" % short(root_fn(f, name)), where=cb.loc, detail=bad or None)
    ctx.floor(rule, "attribute reader closures with named arms under %s" % prefix, n, floor)


def check_element_slots_fresh(ctx, f, rule, prefix, floor):
    """A loop that reads one element per round through a closure filling `Option` slots of the enclosing function
    (`uri`, `hash`, `action` …) starts every round with every slot empty: each captured slot is assigned `None` (or
    emptied with `take()` / `mem::take`) on every way round the loop.  A slot that survives a round hands the previous
    element's attribute to the next element that does not carry it."""
    n = 0
    for name, b in sorted(f.bodies.items()):
        if not name.startswith(prefix) or is_derived_body(b):
            continue
        sccs = [set(x) for x in b.cycles_sccs()]
        if not sccs:
            continue
        sy = sym_of(b)
        for scc in sccs:
            slots = {}
            for bi in scc:
                if b.is_cleanup(bi):
                    continue
                for st in b.blocks[bi]["stmts"]:
                    if st["s"] == "assign" and st["rv"]["r"] == "agg" and st["rv"].get("ak") in ("closure", "coroutine"):
                        for o in st["rv"]["ops"]:
                            pl = o.get("m") or o.get("c") if isinstance(o, dict) else None
                            if not pl or pl["p"]:
                                continue
                            # the capture operand is a temp holding `&mut slot`
                            ds = [d for d in b.defs().get(pl["l"], []) if d[2] == "assign"]
                            if len(ds) == 1 and ds[0][3]["rv"]["r"] == "ref" and ds[0][3]["rv"].get("mut") and not ds[0][3]["rv"]["pl"]["p"]:
                                sl = ds[0][3]["rv"]["pl"]["l"]
                                if (b.local_ty(sl) or "").startswith("std::option::Option<") or (b.local_ty(sl) or "") in f.adts:
                                    # an `Option` slot, or a record of the crate that the reader fills field by field
                                    # (`RequestResourceLimit`): both describe *one* element
                                    slots.setdefault(sl, set()).add(bi)
            if not slots:
                continue
            from props.C04 import _every_round_passes

            def read_in_loop(sl):
                """is the slot's value looked at inside the loop (a per-element slot), or only after it (an accumulator
                for the whole file, like the notification's `snapshot`)?"""
                def mentions(node):
                    if isinstance(node, dict):
                        if set(node.keys()) >= {"l", "p"} and node.get("l") == sl:
                            return True
                        return any(mentions(v) for v in node.values())
                    if isinstance(node, list):
                        return any(mentions(v) for v in node)
                    return False
                for bi in scc:
                    if b.is_cleanup(bi):
                        continue
                    for st in b.blocks[bi]["stmts"]:
                        if st["s"] != "assign":
                            continue
                        rv = st["rv"]
                        if rv["r"] in ("ref", "rawptr") and rv.get("mut"):
                            continue            # handed out mutably: to the reader closure or to take()
                        if mentions(rv):
                            return True
                    t = b.blocks[bi]["term"]
                    if t["t"] == "switch" and mentions(t.get("discr")):
                        return True
                    if t["t"] == "call" and mentions(t.get("args")):
                        return True
                return False
            for sl, creators in sorted(slots.items()):
                took = False
                for c in b.calls():
                    if c.bb in scc and not b.is_cleanup(c.bb) and c.name in ("take", "replace") and c.args and \
                            c.krate in ("core", "std", "alloc"):
                        t0 = strip_deep(sy.operand(c.args[0]))
                        while t0[0] == "mvar":
                            t0 = ("var", t0[1], t0[2])
                        took = took or (t0[0] == "var" and t0[2] == sl)
                if not took and not read_in_loop(sl):
                    continue
                n += 1
                clears = set()
                for d in b.defs().get(sl, []):
                    if d[0] in scc and d[2] == "assign" and d[3]["rv"]["r"] == "agg" and d[3]["rv"].get("variant") == "None":
                        clears.add(d[0])
                    elif d[0] in scc and not (b.local_ty(sl) or "").startswith("std::option::Option<") and d[2] in ("assign", "call") \
                            and not b.is_cleanup(d[0]):
                        clears.add(d[0])        # a record slot is fresh when it is assigned as a whole (`= T::default()`)
                for c in b.calls():
                    if c.bb in scc and not b.is_cleanup(c.bb) and c.name in ("take", "replace") and c.args and \
                            c.krate in ("core", "std", "alloc"):
                        t0 = strip_deep(sy.operand(c.args[0]))
                        while t0[0] == "mvar":
                            t0 = ("var", t0[1], t0[2])
                        if t0[0] == "var" and t0[2] == sl:
                            clears.add(c.bb)
                # every round that creates the reader closure also passes a clearing of the slot
                ok = bool(clears) and _every_round_passes(b, scc, clears)
                ctx.ob(rule, "%s:slot-fresh-each-round[%s]" % (short(root_fn(f, name)), short((b.local_ty(sl) or "")[20:-1])[:40] + "#%d" % sorted(slots).index(sl)),
                       ok, "in %s every `Option` slot (or record of the crate) that the per-element reader closure fills is emptied "
                       "(assigned afresh) on every way round the element loop" % short(root_fn(f, name)), where=b.where(min(creators)),
                       detail=None if ok else {"slot": b.local_name(sl), "emptied_in_blocks": sorted(clears)})
    ctx.floor(rule, "per-element slots filled by reader closures in loops under %s" % prefix, n, floor)



# ---------------------------------------------------------------------------------------------
# what a text reader does with the empty string

_EMPTY_KEEPING = {"chars", "bytes", "iter", "into_iter", "char_indices", "as_bytes", "as_str", "as_ref", "rev", "skip", "take",
                  "enumerate", "peekable", "map", "filter", "copied", "cloned", "by_ref", "deref", "borrow", "trim", "trim_start",
                  "trim_end", "to_vec", "to_owned", "clone", "filter_map", "skip_while", "take_while", "fuse", "step_by"}


def accepts_empty_input(f, b, pidx):
    """Does `b` return success when its parameter number `pidx` (a string / byte slice) is empty?  The CFG is walked from
    the entry; a decision about the input's emptiness (`is_empty`, a comparison of its length with a constant, `next()`
    / `first()` / `split_first()` / `last()` of the input or of an iterator over it) is taken the way the empty input
    takes it; any other decision must lead to success on every edge.  -> (True / False, why)."""
    oc = outcome(b)
    sy = oc.sym
    pname = b.local_name(pidx) or "_%d" % pidx
    rets = set(oc.returns())

    def only_input(t):
        t = strip_deep(t)
        rs = [x for x in walk(t) if x[0] in ("param", "upvar", "var")]
        if not rs or any(not (x[0] == "param" and x[1] == pname) for x in rs):
            return False
        return all((x[3] or {}).get("name") in _EMPTY_KEEPING for x in walk(t) if x[0] == "call")

    def length_of_input(t):
        t = strip_deep(t)
        return (t[0] == "len" and only_input(t[1])) or \
            (t[0] == "call" and (t[3] or {}).get("name") in ("len", "count") and len(t[2]) == 1 and only_input(t[2][0]))

    def decide_bool(d):
        """truth value of a boolean term on the empty input, or None."""
        d = strip_deep(d)
        if d[0] == "un" and d[1] == "Not":
            v = decide_bool(d[2])
            return None if v is None else not v
        if d[0] == "call" and (d[3] or {}).get("name") == "is_empty" and len(d[2]) == 1 and only_input(d[2][0]):
            return True
        if d[0] == "call" and (d[3] or {}).get("name") in ("is_some", "is_none") and len(d[2]) == 1:
            inner = strip_deep(d[2][0])
            if inner[0] == "call" and (inner[3] or {}).get("name") in ("next", "first", "last", "split_first", "split_last", "next_back", "peek") \
                    and inner[2] and only_input(inner[2][0]):
                return d[3]["name"] == "is_none"
        if d[0] == "bin" and d[1] in ("Eq", "Ne", "Lt", "Le", "Gt", "Ge"):
            x, y = strip_deep(d[2]), strip_deep(d[3])
            vx = 0 if length_of_input(x) else (x[1] if x[0] == "const" and isinstance(x[1], int) and not isinstance(x[1], bool) else None)
            vy = 0 if length_of_input(y) else (y[1] if y[0] == "const" and isinstance(y[1], int) and not isinstance(y[1], bool) else None)
            if vx is not None and vy is not None and (length_of_input(x) or length_of_input(y)):
                return {"Eq": vx == vy, "Ne": vx != vy, "Lt": vx < vy, "Le": vx <= vy, "Gt": vx > vy, "Ge": vx >= vy}[d[1]]
        return None

    memo = {}

    def go(bb, onpath):
        if bb in onpath:
            return False, "the walk for the empty input comes round a loop at line %s" % b.line_of(bb)
        if bb in oc.fail_blocks:
            return False, "reaches the failure at line %s" % b.line_of(bb)
        if bb in memo:
            return memo[bb]
        t = b.term(bb)
        k = t["t"]
        res = None
        if k == "return":
            res = (True, "") if bb in rets else (False, "?")
        elif k in ("goto", "drop", "assert") or (k == "call" and t.get("target") is not None):
            res = go(t["target"], onpath | {bb})
        elif k == "switch":
            d = strip_deep(sy.operand(t["discr"]))
            edges = [(v, tb) for v, tb in b.switch_edges(bb) if b.term(tb)["t"] != "unreachable"]
            chosen = None
            if t.get("dty") == "bool":
                v = decide_bool(d)
                if v is not None:
                    chosen = [tb for val, tb in edges if (val == 0) != v] if any(val == 0 for val, _ in edges) else None
            elif d[0] == "discr":
                inner = strip_deep(d[1])
                if inner[0] == "call" and (inner[3] or {}).get("name") in ("next", "first", "last", "split_first", "split_last", "next_back", "peek") \
                        and inner[2] and only_input(inner[2][0]):
                    # None is variant 0
                    listed = [tb for val, tb in edges if val == 0]
                    chosen = listed or [tb for val, tb in edges if val is None]
            if chosen:
                res = go(chosen[0], onpath | {bb})
            else:
                res = (True, "")
                for _, tb in edges:
                    r = go(tb, onpath | {bb})
                    if not r[0]:
                        res = (False, "decision at line %s (%s) is not about the input being empty, and %s" % (b.line_of(bb), render(d)[:80], r[1]))
                        break
        else:
            res = (False, "terminator %s at line %s" % (k, b.line_of(bb)))
        memo[bb] = res
        return res
    return go(0, frozenset())



# ---------------------------------------------------------------------------------------------
# R-SIB: capture mode vs encode mode (C04: re-encoding a decoded value does not panic)

def _top_level_members(ty):
    """members of a tuple type `(A, B, C)` (top level only), or [ty] itself."""
    ty = ty.strip()
    if not (ty.startswith("(") and ty.endswith(")")):
        return [ty]
    out, depth, cur = [], 0, ""
    for ch in ty[1:-1]:
        if ch in "(<[{":
            depth += 1
        elif ch in ")>]}":
            depth -= 1
        if ch == "," and depth == 0:
            out.append(cur.strip())
            cur = ""
        else:
            cur += ch
    if cur.strip():
        out.append(cur.strip())
    return out


def check_encode_modes(ctx, f, rule="R-SIB", reach=None):
    """bcder's `Values for Captured` panics when a value captured in BER mode is written by an encoder running in DER
    mode ("Trying to encode a captured value with incompatible mode").  The encoders of this crate run in DER mode
    (`to_captured()` = `Captured::from_values(Mode::Der, ..)`), and a decoder in relaxed mode captures in BER mode.  So a
    `Captured` field that some decoding path reachable in BER mode fills must not be handed to a bcder encoder as a
    `Captured` (it has to be written as the octets it holds).  One obligation per such hand-over site — in a function that
    can run on a decoded value at all (`reach`: what is reachable from the decoders and from the accessors of decoded
    values; an encoder only ever used while *building* a value sees DER captures by construction)."""
    ber, parent, roots = ber_reachable(f)
    n_sites = 0
    ber_fill = {}

    def filled_in_ber(adt, fld):
        key = (adt, fld)
        if key in ber_fill:
            return ber_fill[key]
        who = []
        for b, bi, si, st in aggregates_of(f, adt):
            if is_derived_body(b) or b.name not in ber:
                continue
            t = strip_deep(sym_of(b).rvalue(st["rv"]))
            d = dict(t[3]) if t[0] == "agg" else {}
            v = d.get(fld)
            if v is None:
                continue
            # filled from the decoder's input (capture / capture_one / capture_all …), not from a DER re-encoding
            def has_capture(t, depth=0):
                for x in walk(strip_deep(t)):
                    if x[0] == "call" and ((x[3] or {}).get("name") or "").startswith("capture") and \
                            (x[3] or {}).get("krate") == "bcder":
                        return True
                    if x[0] in ("closure", "fnref") and depth < 3:
                        cb = f.body(x[1])
                        if cb is not None and any((cc.name or "").startswith("capture") and cc.krate == "bcder" for cc in cb.calls()):
                            return True
                return False
            vs = [v]
            if v[0] == "var":
                vs = [t2 for _, t2 in sym_of(b).defs_of_var(v[2])]      # `match res { Some(c) => c, None => Captured::empty(..) }`
            if any(has_capture(x) for x in vs):
                who.append(b.name)
        ber_fill[key] = sorted(set(who))
        return ber_fill[key]

    for name, b in sorted(f.bodies.items()):
        if is_derived_body(b):
            continue
        if reach is not None and name not in reach and root_fn_name(f, name) not in reach:
            continue
        for c in b.calls():
            if b.is_cleanup(c.bb) or not c.is_static or not (c.res or "").startswith("bcder::") or not c.ga:
                continue
            if not ((c.res or "").startswith("bcder::encode::") or c.name in ("from_values", "to_captured", "write_encoded", "encoded_len")):
                continue
            # which generic argument is the values type, and which of its top-level members is a Captured
            hits = []
            for g in c.ga:
                for i, m in enumerate(_top_level_members(g)):
                    if m in ("&bcder::Captured", "bcder::Captured", "&&bcder::Captured"):
                        hits.append((g, i, len(_top_level_members(g))))
            if not hits:
                continue
            ats = arg_terms(c)
            for g, i, nmem in hits:
                # the argument carrying the values: the last one whose aggregate has nmem members, or the value itself
                term = None
                for a in reversed(ats):
                    a = strip_deep(a)
                    if nmem > 1 and a[0] == "agg" and a[1] == "tuple" and len(a[3]) == nmem:
                        term = strip_deep(a[3][i][1])
                        break
                    if nmem == 1 and a[0] in ("field", "param", "var", "mvar", "call"):
                        term = a
                        break
                if term is None:
                    continue
                while term[0] == "mvar":
                    term = strip_deep(term[3])
                if term[0] != "field" or len(term) < 4 or term[3] not in f.adts:
                    continue                    # a captured value built here (builders): DER by construction
                adt, fld = term[3], str(term[2])
                n_sites += 1
                who = filled_in_ber(adt, fld)
                ctx.ob(rule, "%s:encodes-captured[%s.%s]" % (short(root_fn_name(f, name)), short(adt), fld), not who,
                       "%s hands %s.%s to bcder as a captured value; no decoding path that can run in BER mode fills that field "
                       "(writing a BER capture in DER mode panics in bcder)" % (short(root_fn_name(f, name)), short(adt), fld),
                       where=c.where(), detail=None if not who else {"filled_in_BER_mode_by": who[:6]})
    return n_sites


# ---------------------------------------------------------------------------------------------
# R-WHO on one field: who can change it

def field_writers(f, adt, field):
    """{root fn: [how]} of every non-derived function that assigns `adt.field` (also through a projection of it) or takes a
    mutable borrow of it (handing it to something that may write: `get_or_insert`, `take`, `replace`, `as_mut` …)."""
    out = {}
    for n, b in f.bodies.items():
        if is_derived_body(b):
            continue
        for bi, blk in enumerate(b.blocks):
            if blk.get("cleanup"):
                continue
            for st in blk["stmts"]:
                if st["s"] != "assign":
                    continue

                def on_field(pl):
                    return any(p[0] == "f" and len(p) > 2 and p[1] == field and p[2] == adt for p in pl["p"])
                if on_field(st["pl"]):
                    out.setdefault(root_fn_name(f, n), []).append("assigned at %s" % b.where(bi))
                rv = st["rv"]
                if rv["r"] in ("ref", "rawptr") and (rv.get("mut") or rv.get("kind") == "Mut") and on_field(rv["pl"]):
                    out.setdefault(root_fn_name(f, n), []).append("borrowed mutably at %s" % b.where(bi))
    return out


def check_field_writers(ctx, f, rule, adt, field, allowed, what):
    """`adt.field` is written only by the functions `allowed` (and by private helpers all of whose callers are).  Decided on
    the program as written only: folding helpers into their callers changes *who* writes, which is what is being asked."""
    if getattr(ctx, "view", None) is not None:
        return None
    ws = field_writers(f, adt, field)
    allowed = set(allowed)
    changed = True
    while changed:
        changed = False
        for w in sorted(set(ws) - allowed):
            fr = f.fns.get(w)
            callers = {root_fn_name(f, c.body.name) for b in f.bodies.values() for c in b.calls() if c.is_static and c.res == w}
            if fr is not None and not fr.get("exported") and callers and callers <= allowed:
                allowed.add(w)
                changed = True
    extra = sorted(set(ws) - allowed)
    from engine.sym import short as _short
    ctx.ob(rule, "%s.%s:writers" % (_short(adt), field), not extra, what,
           detail={"other_writers": {w: ws[w][:2] for w in extra}, "writers": sorted(_short(w) for w in ws)})
    return ws


def check_raw_text_writers(ctx, f, rule="R-WHO"):
    """The unescaped form of a text (Text::write_raw) reaches the output only as element content handed to Content::raw
    (whose call sites are reviewed one by one) or through the base64 encoder.  An attribute value, or any other new way
    of putting raw text between the markup, is reported with the function that does it."""
    ok_callers = re.compile(r"^xml::encode::Content::<.*>::raw$|^<.+ as xml::encode::Text>::write_(raw|base64)$|"
                            r"^xml::encode::Text::write_base64$")
    sites, bad = [], []
    for n, b in f.bodies.items():
        for c in b.calls():
            if b.is_cleanup(c.bb) or c.name != "write_raw":
                continue
            if not ((c.trait or "").endswith("xml::encode::Text") or re.match(r"^<.+ as xml::encode::Text>::write_raw$", c.res or "")):
                continue
            who = root_fn_name(f, n)
            sites.append(who)
            if not ok_callers.match(who):
                bad.append("%s @ %s" % (short(who), c.where()))
    ctx.ob(rule, "Text::write_raw-callers", not bad and len(sites) >= 2,
           "unescaped text is written only by Content::raw and into the base64 encoder (never as an attribute value)",
           detail={"other_callers": bad, "callers": sorted({short(x) for x in sites})})


def check_base64_chunking(ctx, f, rule="R-GRD"):
    """Base64 turns 3 octets into 4 characters and pads the last group: encoding a long value piecewise gives the encoding
    of the whole only if every piece but the last is a multiple of 3 octets long.  Every encode call of the `base64` crate
    that sits in a loop must take its input from `chunks(n)` / `chunks_exact(n)` with a constant n divisible by 3 (the
    streaming EncoderWriter keeps its own remainder and is not concerned)."""
    n = 0
    for name, b in sorted(f.bodies.items()):
        if is_derived_body(b):
            continue
        sccs = None
        for c in b.calls():
            if b.is_cleanup(c.bb) or (c.krate != "base64") or not re.match(r"^encode(_slice|_string)?$", c.name or ""):
                continue
            if sccs is None:
                sccs = b.cycles_sccs()
            if not any(c.bb in comp for comp in sccs):
                continue
            n += 1
            txt = " ".join(arg_renders(c))
            m = re.search(r"chunks(?:_exact)?\(([^()]*(?:\([^()]*\))?[^()]*), ([^()]+)\)", txt)
            size = None
            if m:
                t = m.group(2).strip()
                if re.match(r"^\d+$", t):
                    size = int(t)
                else:
                    cst = f.consts.get(t) or next((v for k, v in f.consts.items() if k.endswith("::" + t)), None)
                    if cst and isinstance(cst.get("v"), int):
                        size = cst["v"]
            ctx.ob(rule, "%s:base64-pieces-are-multiples-of-3" % short(root_fn_name(f, name)), size is not None and size % 3 == 0 and size > 0,
                   "%s encodes piecewise only in pieces of a multiple of 3 octets (else padding appears inside the text)"
                   % short(root_fn_name(f, name)), where=c.where(), detail={"input": alpha(txt, b)[:200], "piece_size": size})
    ctx.note("base64 encode calls inside loops: %d" % n)


# ---------------------------------------------------------------------------------------------
# byte order of integer conversions, decided on the bytes

def byte_order_eval(t, is_input, host, width=4):
    """The value of a composition of the std integer byte-order conversions, as a permutation of the input's bytes.
    An integer is ("int", m) with m its bytes most significant first, an array ("arr", a) in index order; the input is
    ("int", (0, 1, .., width-1)).  `host` is "le" or "be".  None when the term is anything else."""
    t = strip_deep(t)
    while t[0] == "mvar":
        t = strip_deep(t[3])
    if is_input(t):
        return ("int", tuple(range(width)))
    if t[0] == "cast":
        return byte_order_eval(t[1], is_input, host, width)
    if t[0] != "call" or len(t[2]) != 1:
        return None
    name = (t[3] or {}).get("name")
    if not re.match(r"^(core|std)::num::", (t[3] or {}).get("fn") or "") and not re.match(r"^(core|std)::num::", t[1] or ""):
        return None
    v = byte_order_eval(t[2][0], is_input, host, width)
    if v is None:
        return None

    def mem(m):                 # memory layout of an integer on this host
        return tuple(m) if host == "be" else tuple(reversed(m))
    kind, x = v
    if kind == "int":
        if name in ("to_be", "from_be"):
            return ("int", x if host == "be" else tuple(reversed(x)))
        if name in ("to_le", "from_le"):
            return ("int", x if host == "le" else tuple(reversed(x)))
        if name == "swap_bytes":
            return ("int", tuple(reversed(x)))
        if name == "to_be_bytes":
            return ("arr", tuple(x))
        if name == "to_le_bytes":
            return ("arr", tuple(reversed(x)))
        if name == "to_ne_bytes":
            return ("arr", mem(x))
    else:
        if name == "from_be_bytes":
            return ("int", tuple(x))
        if name == "from_le_bytes":
            return ("int", tuple(reversed(x)))
        if name == "from_ne_bytes":
            return ("int", tuple(x) if host == "be" else tuple(reversed(x)))
    return None


def is_byte_order_conversion(t, is_input, want, width=4):
    """Does term `t` compute `want` ("to_be" / "from_be" — the same permutation) of the input on both kinds of host?"""
    for host in ("le", "be"):
        v = byte_order_eval(t, is_input, host, width)
        ref = ("int", tuple(range(width)) if host == "be" else tuple(reversed(range(width))))
        if v != ref:
            return False
    return True


# ---------------------------------------------------------------------------------------------
# R-FLOW: a value is handed on exactly as it is

_KEEPING = ("to_string", "to_owned", "into", "from", "clone", "to_vec", "as_ref", "as_str", "as_bytes", "as_slice",
            "deref", "borrow", "copied", "cloned", "into_boxed_str", "into_bytes", "to_bytes")


def kept_as_is(t, allowed_leaf):
    """Is term `t` the value `allowed_leaf(leaf)` accepts, possibly passed through conversions that keep every byte of it
    (`to_string`, `to_owned`, `into`, `clone`, views)?  Anything else in between — a case fold, a filter, a clamp, a
    truncation, arithmetic — is not."""
    t = strip_deep(t)
    for _ in range(8):
        if allowed_leaf(t):
            return True
        if t[0] == "call" and len(t[2]) == 1 and (t[3] or {}).get("name") in _KEEPING and \
                (t[3] or {}).get("krate") in ("core", "std", "alloc", "bytes"):
            t = strip_deep(t[2][0])
            continue
        return False
    return False


def check_returns_kept(ctx, f, rule, fn, what, leaf_rx, key=None, through=None):
    """Every value `fn` returns is (a keeping conversion of) the term matching `leaf_rx` — `through(t)` may first peel a
    wrapper off the returned term (Some(..), a struct literal field …)."""
    b = f.body(fn)
    if b is None:
        return ctx.missing(rule, key or short(fn), fn)
    ctx.saw_fn(fn)
    vals = [strip_deep(t) for _, _, t in success_values(b)]
    rx = re.compile(leaf_rx)
    bad = []
    for v in vals:
        for x in (through(v) if through else [v]):
            if x is None or not kept_as_is(x, lambda l: rx.match(alpha(render(l), b)) is not None):
                bad.append(alpha(render(v), b)[:160])
    ctx.ob(rule, key or (short(fn) + ":kept-as-is"), bool(vals) and not bad, what, where=b.loc, detail=bad or None)


# ---------------------------------------------------------------------------
# session 6 (rounds 6/7 of seeded changes)

def check_bytes_eq_delegates(ctx, f, rule, adt, what_for):
    """A hand-written `PartialEq<..>::eq` of a byte-identifier newtype answers with the equality of the two byte views
    and nothing else: every returned value is one call of the slice / array equality of core on (the value's own bytes,
    the other side's bytes) — no loop, no fold, no other operand.  (`derive(PartialEq)` impls are trusted as derived.)"""
    n = 0
    for name, b in sorted(f.bodies.items()):
        r = f.fns.get(name) or {}
        if r.get("impl_adt") != adt or not (r.get("impl_trait_full") or r.get("impl_trait") or "").startswith("std::cmp::PartialEq") \
                or not name.endswith("::eq") or is_derived_body(b):
            continue
        n += 1
        ctx.saw_fn(name)
        vals = [strip_deep(t) for _, _, t in success_values(b)]
        bad = []
        for v in vals:
            txt = alpha(render(v), b)
            info = v[3] if v[0] == "call" and len(v) > 3 and v[3] else {}
            # core's equality of slices / arrays / references to them, however the operands are viewed (`a.as_ref().eq(b)`,
            # `a.as_slice() == b.as_ref()`)
            ok = v[0] == "call" and len(v[2]) == 2 and info.get("name") == "eq" and (info.get("krate") in ("core", "std", "alloc")) and \
                (re.match(r"^core::(slice|array)::.*PartialEq.*::eq$", v[1] or "") is not None or
                 (re.match(r"^(core|std)::cmp::impls::<impl (std|core)::cmp::PartialEq<&.*> for &.*>::eq$", v[1] or "") is not None
                  and all(re.match(r"^&(mut )?\[u8(; \d+)?\]$", g or "") for g in (info.get("ga") or ("",)))))
            if ok:
                a0, a1 = alpha(render(v[2][0]), b), alpha(render(v[2][1]), b)
                ok = {root for root in (re.sub(r"^(?:[\w:]+\()*(self|%2).*$", r"\1", x) for x in (a0, a1))} == {"self", "%2"}
            if not ok:
                bad.append(txt[:160])
        loops = [c for c in b.cycles_sccs()] if hasattr(b, "cycles_sccs") else []
        ctx.ob(rule, "%s:eq-is-byte-equality" % short(name), bool(vals) and not bad and not loops,
               "%s answers with core's slice equality of the two byte views and nothing else (%s)" % (short(name), what_for),
               where=b.loc, detail={"returns": bad or None, "loops": len(loops)})
    ctx.floor(rule, "hand-written PartialEq::eq of %s" % short(adt), n, 1)


def check_serial_sign_guard(ctx, f, rule="R-GRD"):
    """The multi-precision helpers of x509::Serial that consume a serial, rewrite its octets and hand it back as
    `Option<Self>` (the steps of the decimal parser) hand it back only while it still is a positive 20-octet integer:
    `Some` requires the top bit of the first octet to be clear.  Found by what they do (by-value `self`, a store into
    `self.0[..]`, result Option<Serial>), not by name."""
    from engine.rules import guard_edges
    X = "repository::x509::Serial"
    n = 0

    def sign_clear(rel, a, b_):
        if rel != "eq" or b_ is None:
            return None
        consts = getattr(f, "consts", None)
        if consts is not None:
            a, b_ = fold_consts(strip_deep(a), consts), fold_consts(strip_deep(b_), consts)     # `& 0x80` and `& SIGN_BIT`
        sa, sb = render(a), render(b_)
        for x, y in ((sa, sb), (sb, sa)):
            if y == "0" and re.match(r"^BitAnd\((self\.0\[0\], 128|128, self\.0\[0\])\)$", x):
                return True
        return None
    for name, b in sorted(f.bodies.items()):
        r = f.fns.get(name) or {}
        if r.get("impl_adt") != X or r.get("impl_trait") or b.arg_count < 1:
            continue
        if b.locals[0]["ty"] not in ("std::option::Option<repository::x509::Serial>",) or b.locals[1]["ty"] != X:
            continue
        # rewrites its octets: a store into `self.0[..]`, or the octets handed out mutably (`self.0.iter_mut()`)
        writes = False
        for blk in b.blocks:
            for st in blk["stmts"]:
                if st["s"] == "assign" and st["pl"]["l"] == 1 and any(p[0] in ("i", "ci") for p in st["pl"]["p"]):
                    writes = True
                if st["s"] == "assign" and st["rv"]["r"] in ("ref", "rawptr") and (st["rv"].get("mut") or st["rv"].get("kind") == "Mut") \
                        and st["rv"]["pl"]["l"] == 1:
                    writes = True
        if not writes:
            continue
        n += 1
        ctx.saw_fn(name)
        mp = MustPass(f, lambda c: False, guard_fn=lambda bd, s_, bb: guard_edges(bd, s_, bb, sign_clear), name="self.0[0] & 0x80 == 0")
        ok = mp.holds(name)
        if not ok:
            # the same decision taken as a value: `(carry == 0 && self.0[0] & 0x80 == 0).then_some(self)` — Some exactly when
            # the condition holds; the condition must be a conjunction containing the sign test (every definition of the
            # flag handed to then / then_some is either `false` or the sign test itself, reached behind the other conjuncts)
            sy = sym_of(b)
            for c in b.calls():
                if b.is_cleanup(c.bb) or c.name not in ("then_some", "then") or c.krate not in ("core", "std") or not c.args:
                    continue
                t0 = strip_deep(sy.operand(c.args[0]))
                defs = [strip_deep(v) for _, v in sy.defs_of_var(t0[2])] if t0[0] == "var" else [t0]
                non_false = [d for d in defs if not (d[0] == "const" and not d[1])]
                if non_false and all(d[0] == "bin" and d[1] in ("Eq",) and sign_clear("eq", d[2], d[3]) for d in non_false):
                    ok = True
        ctx.ob(rule, "%s:result-stays-positive" % short(name), ok,
               "%s returns Some only while the top bit of the first octet is clear (the serial is still a positive integer "
               "of at most 20 octets)" % short(name), where=b.loc, detail=None if ok else why(f, mp, name))
    ctx.floor(rule, "octet-rewriting steps of Serial returning Option<Self>", n, 1)


def check_builder_slot_accumulates(ctx, f, rule, fns, field="res"):
    """`XResourcesBuilder::blocks(|b| …)` may be called several times before `finalize`; what the earlier calls added
    stays.  So the stored sub-builder `self.<field>` is *replaced* (assigned as a whole, `Option::insert`, `replace`,
    `take`, `mem::take/replace`) only where it is known to be empty — behind the `None` edge of a test on it;
    `get_or_insert_with` / `get_or_insert` / `as_mut` / `if let Some(ref mut b)` keep what is there."""
    REPLACING = {"insert", "replace", "take", "swap"}
    n = 0
    for fn in fns:
        b = f.body(fn)
        if b is None:
            ctx.missing(rule, short(fn) + ":accumulates", fn)
            continue
        ctx.saw_fn(fn)
        sy = sym_of(b)
        fld_rx = re.compile(r"^(?:\w+⟵)?self\.%s$" % re.escape(field))
        sites = []
        for bi, blk in enumerate(b.blocks):
            if blk.get("cleanup"):
                continue
            for si, st in enumerate(blk["stmts"]):
                if st["s"] == "assign" and st["pl"]["l"] == 1 and [p[1] for p in st["pl"]["p"] if p[0] == "f"] == [field] \
                        and not any(p[0] in ("dc",) for p in st["pl"]["p"]):
                    sites.append((bi, "assignment", b.where(bi, si)))
        for c in b.calls():
            if b.is_cleanup(c.bb):
                continue
            if c.name in REPLACING and c.args and c.krate in ("core", "std", "alloc"):
                a0 = alpha(render(strip_deep(sy.operand(c.args[0]))), b)
                if any(fld_rx.match(alpha(render(strip_deep(sy.operand(a))), b) or "") for a in c.args[:2]) or fld_rx.match(a0 or ""):
                    sites.append((c.bb, c.name, c.where()))
            if c.dest_is_field(1, field) if hasattr(c, "dest_is_field") else False:
                sites.append((c.bb, "call result stored", c.where()))
        bad = []
        for bb, kind, where in sites:
            gs = dominating_guards(f, b, bb)
            empty = any(re.search(r"discr\((?:\w+⟵)?self\.%s\) in \{0\}" % re.escape(field), g) or
                        re.search(r"Option::is_none\((?:\w+⟵)?self\.%s\)$" % re.escape(field), g) for g in gs)
            if not empty:
                bad.append({"how": kind, "where": where, "established": gs[:4]})
        n += 1
        ctx.ob(rule, "%s:accumulates" % short(fn), not bad,
               "%s replaces the stored sub-builder only where it is known to be empty (earlier calls' blocks are kept)" % short(fn),
               where=b.loc, detail={"replacing_sites": len(sites), "unguarded": bad or None})
    ctx.floor(rule, "resource builders whose blocks() accumulates", n, len(fns))
