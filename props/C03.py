"""C03 — resource sets are exact, canonical sets (structural clauses only;
DESIGN §2 C03.a–f).  The exactness of the set algebra is NOT decided."""
import re
from engine.rules import (MustPass, guard_edges, eq_matcher, pred_matcher, outcome, aggregates_of, is_derived, root_fn,
                          calls_to, success_values, bool_atom, switch_bool_edges)
from engine.sym import Sym, strip, strip_deep, render, walk, short, unmut
from props import common as K

META = {
    "level": "other",
    "technique": "static analysis of type-checked MIR (rustc_private driver): who-may-construct enumeration, contradiction rule on merge loops, guard dominance, decision of comparison-only predicates on every weak ordering, bound-kind comparison discipline; abstract interpretation of the sweep loops (trim, difference, is_encompassed, contains_item) over the finite order domain of their cursors' bounds, every round checked against the set operation's admissible actions",
    "explanation": "Canonical-form discipline: the invariant-establishing unsafe constructor is called only from the reviewed "
                   "sites and the chain types' fields are private; every block stored by a chain-producing function is "
                   "re-created through Block::new (canonical form) or copied from an existing chain; every normalisation "
                   "loop that merges on adjacency also handles overlap (contradiction rule); every range built from decoded "
                   "or parsed input is dominated by a lower ≤ upper guard; issuance and resource-limit results pair like "
                   "families and return the claim only behind the containment test; end-of-number-space arithmetic uses "
                   "checked operations; the four order predicates of Block (contains, intersects, is_encompassed, is_equivalent) "
                   "are decided on every weak ordering of the bounds and equal the interval definitions; a merge replaces a "
                   "stored block only by one with a larger upper bound; an upper and a lower bound are only ever compared as "
                   "`upper < lower` / `lower <= upper` (inclusive ranges); every round of Chain::trim / difference / "
                   "is_encompassed / contains_item, interpreted from the MIR for every placement of the cursors' bounds "
                   "(equal / adjacent / apart / at either end of the number space) and every fork on unknown sequence "
                   "remainders, consumes and emits exactly what intersection / difference / subset / membership allow "
                   "(prologue and all ways of ending the sweep included); a hand-written Option<blocks> deserialiser "
                   "answers None only for the legacy word \"none\".",
    "not_decided": ["the induction from admissible rounds to the whole sweep (written in DESIGN 6.3, not machine-checked); "
                    "Chain::eq / Ord and the merge passes of from_iter as set operations (structural rules only)",
                    "range-to-prefix decomposition", "text / serde round-trip equality"],
    "trusted_base": ["std sort_unstable_by_key", "Block::new implementations produce the canonical form of (min, max)"],
}

CH = "repository::resources::chain::"
IP = "repository::resources::ipres::"
AS = "repository::resources::asres::"


def expand(sym, t, depth=3):
    """Possible values of a term that mentions multiply-assigned locals (bounded)."""
    t = strip_deep(t)
    if depth == 0:
        return [t]
    k = t[0]
    if k == "var":
        out = []
        for _, d in sym.defs_of_var(t[2]):
            out += expand(sym, d, depth - 1)
        return out or [t]
    if k == "mvar":
        return expand(sym, t[3], depth)
    if k in ("field", "variant"):
        outs = []
        for b in expand(sym, t[1], depth):
            if k == "field" and b[0] == "agg":
                hit = [v for f_, v in b[3] if f_ == t[2]]
                outs += [strip_deep(hit[0])] if hit else [("field", b, t[2], t[3] if len(t) > 3 else None)]
            elif k == "variant" and b[0] == "agg":
                if b[2] == t[2]:
                    outs.append(("variant", b, t[2]))
                # a different variant cannot be downcast to t[2]: drop it
            elif k == "field":
                outs.append((k, b, t[2], t[3] if len(t) > 3 else None))
            else:
                outs.append((k, b, t[2]))
        return outs
    return [t]


# ---------------------------------------------------------------------------------------------
# Values, however they are spelt: the alternatives a term can denote, read through multiply-assigned locals, literal
# Option / tuple wrappers, std's Option / Iterator combinators (by their documented contract: which closure result or
# which element comes out) and private helpers of the crate (their returned values with the arguments substituted).

_OPTION = "std::option::Option"
_ANY = ("unknown", "any")
# iterator adaptors whose items are items of the receiver
_ELEM_KEEPING = {"rev", "skip", "take", "filter", "take_while", "skip_while", "cloned", "copied", "peekable", "by_ref",
                 "step_by", "fuse", "iter", "iter_mut", "into_iter", "inspect", "chain", "cycle", "drain", "as_slice",
                 "as_mut_slice", "to_vec", "into_vec", "to_owned", "clone", "deref", "deref_mut", "as_ref", "as_mut"}
# accessors that hand out an element (or a sub-collection) of their receiver
_ELEM_OF = {"index", "index_mut", "first", "last", "get", "first_mut", "last_mut", "get_mut", "get_unchecked",
            "get_unchecked_mut", "next", "next_back", "peek", "nth", "last", "find", "split_first", "split_last", "split_at",
            "split_at_mut", "split_first_mut", "split_last_mut", "unwrap", "expect", "unwrap_unchecked", "as_chain",
            "min_by_key", "max_by_key", "min_by", "max_by"} | _ELEM_KEEPING


def _info(t):
    return (t[3] or {}) if t[0] == "call" else {}


def _is_std(t):
    return _info(t).get("krate") in ("core", "alloc", "std")


def _block_call(t, *names):
    """A call of one of the `chain::Block` trait's items."""
    return t[0] == "call" and _info(t).get("name") in names and (_info(t).get("trait") or "").endswith("chain::Block")


def _some(v):
    return ("agg", _OPTION, "Some", (("0", v),))


_NONE = ("agg", _OPTION, "None", ())


def _subst(t, m):
    """Substitute ('param', name) / ('upvar', name) leaves by terms."""
    k = t[0]
    if k in ("param", "upvar"):
        return m.get((k, t[1]), t)
    if k == "field":
        return (k, _subst(t[1], m), t[2], t[3] if len(t) > 3 else None)
    if k == "variant":
        return (k, _subst(t[1], m), t[2])
    if k == "mvar":
        return ("mvar", t[1], t[2], _subst(t[3], m))
    if k == "index":
        return (k, _subst(t[1], m), _subst(t[2], m))
    if k == "subslice":
        return (k, _subst(t[1], m)) + tuple(t[2:])
    if k == "call":
        return ("call", t[1], tuple(_subst(a, m) for a in t[2]), t[3])
    if k == "bin":
        return ("bin", t[1], _subst(t[2], m), _subst(t[3], m))
    if k == "un":
        return ("un", t[1], _subst(t[2], m))
    if k == "cast":
        return ("cast", _subst(t[1], m), t[2])
    if k in ("discr", "len"):
        return (k, _subst(t[1], m))
    if k == "agg":
        return ("agg", t[1], t[2], tuple((f_, _subst(v, m)) for f_, v in t[3]))
    if k == "closure":
        return ("closure", t[1], tuple(_subst(a, m) for a in t[2]))
    return t


def _seal(t):
    """Locals of another body mean nothing where the term is going: keep their initial value if there is one."""
    k = t[0]
    if k == "var":
        return ("unknown", "local %s of a callee" % t[1])
    if k == "mvar":
        return _seal(t[3])
    if k == "field":
        return (k, _seal(t[1]), t[2], t[3] if len(t) > 3 else None)
    if k == "variant":
        return (k, _seal(t[1]), t[2])
    if k == "index":
        return (k, _seal(t[1]), _seal(t[2]))
    if k == "call":
        return ("call", t[1], tuple(_seal(a) for a in t[2]), t[3])
    if k == "bin":
        return ("bin", t[1], _seal(t[2]), _seal(t[3]))
    if k == "un":
        return ("un", t[1], _seal(t[2]))
    if k == "cast":
        return ("cast", _seal(t[1]), t[2])
    if k in ("discr", "len"):
        return (k, _seal(t[1]))
    if k == "agg":
        return ("agg", t[1], t[2], tuple((f_, _seal(v)) for f_, v in t[3]))
    if k == "closure":
        return ("closure", t[1], tuple(_seal(a) for a in t[2]))
    return t


def _upvar_index(pl):
    for pe in pl.get("p", []):
        if pe and pe[0] == "f":
            try:
                return int(pe[1])
            except (TypeError, ValueError):
                return None
    return None


class Vals:
    """Value resolver of one body."""
    _CACHE = {}

    @classmethod
    def of(cls, f, body):
        v = cls._CACHE.get(id(body))
        if v is None or v.body is not body:
            v = cls(f, body)
            cls._CACHE[id(body)] = v
        return v

    def __init__(self, f, body):
        self.f = f
        self.body = body
        self.sym = K.sym_of(body)

    # -- results of closures / private helpers, in this body's vocabulary -------------------------------------------
    def returned(self, cb):
        cs = K.sym_of(cb)
        out = []
        for bi, blk in enumerate(cb.blocks):
            if blk.get("cleanup"):
                continue
            for st in blk["stmts"]:
                if st["s"] == "assign" and st["pl"]["l"] == 0 and not st["pl"]["p"]:
                    out.append(strip_deep(cs.rvalue(st["rv"])))
            t = blk["term"]
            if t["t"] == "call" and t["dest"]["l"] == 0 and not t["dest"]["p"]:
                out.append(strip_deep(cs.call(t, bi)))
        return out

    def closure_mapping(self, ct, args):
        """Substitution reading the closure `ct` = ('closure', def, captures) applied to `args` here."""
        cb = self.f.body(ct[1])
        if cb is None:
            return None, None
        m = {}
        for name, pl in cb.rec.get("upvars", []):
            idx = _upvar_index(pl)
            if idx is not None and idx < len(ct[2]):
                m[("upvar", name)] = ct[2][idx]
        for i, a in enumerate(args):
            if a is not None and 2 + i <= cb.arg_count:
                m[("param", cb.local_name(2 + i) or "_%d" % (2 + i))] = a
        return cb, m

    def closure_results(self, ct, args, depth):
        ct = strip(ct)
        if ct[0] == "fnref":
            fb = self.f.body(ct[1])
            if fb is None:
                return None
            return self.fn_results(fb, args, depth)
        if ct[0] != "closure":
            return None
        cb, m = self.closure_mapping(ct, args)
        if cb is None:
            return None
        inner = Vals.of(self.f, cb)
        out = []
        for r in inner.returned(cb):
            for a in inner.alts(r, depth - 1):
                out.append(strip_deep(_subst(_seal(a), m)))
        return out

    def fn_results(self, fb, args, depth):
        m = {}
        for i, a in enumerate(args):
            if 1 + i <= fb.arg_count:
                m[("param", fb.local_name(1 + i) or "_%d" % (1 + i))] = a
        inner = Vals.of(self.f, fb)
        out = []
        for r in inner.returned(fb):
            for a in inner.alts(r, depth - 1):
                out.append(strip_deep(_subst(_seal(a), m)))
        return out

    # -- items of an iterable ----------------------------------------------------------------------------------------
    def elems(self, it, depth=6):
        """Terms for the items an iterator / collection term yields."""
        out = []
        for a in self.alts(it, depth):
            a = strip_deep(unmut(a))
            if a[0] == "agg" and a[1] == _OPTION:
                out += [v for _, v in a[3]]
                continue
            if a[0] == "agg" and a[1] in ("array", "tuple"):
                out += [v for _, v in a[3]]
                continue
            if a[0] == "call" and _is_std(a) and a[2]:
                nm = _info(a).get("name")
                if nm in _ELEM_KEEPING:
                    if nm == "chain" and len(a[2]) == 2:
                        out += self.elems(a[2][1], depth - 1)
                    out += self.elems(a[2][0], depth - 1)
                    continue
                if nm == "once" and len(a[2]) == 1:
                    out.append(a[2][0])
                    continue
                if nm in ("map", "filter_map", "flat_map") and len(a[2]) == 2:
                    for e in self.elems(a[2][0], depth - 1):
                        rs = self.closure_results(a[2][1], [e], depth - 1)
                        if rs is None:
                            out.append(("unknown", "closure"))
                        elif nm == "map":
                            out += rs
                        else:
                            for r in rs:
                                out += self.elems(r, depth - 1)
                    continue
                if nm == "zip" and len(a[2]) == 2:
                    for x in self.elems(a[2][0], depth - 1):
                        for y in self.elems(a[2][1], depth - 1):
                            out.append(("agg", "tuple", "", (("0", x), ("1", y))))
                    continue
                if nm == "enumerate":
                    for x in self.elems(a[2][0], depth - 1):
                        out.append(("agg", "tuple", "", (("0", _ANY), ("1", x))))
                    continue
            out.append(("index", a, _ANY))
        return out

    # -- alternatives --------------------------------------------------------------------------------------------------
    def alts(self, t, depth=6):
        t = strip_deep(t)
        if depth <= 0:
            return [t]
        k = t[0]
        if k == "mvar":
            return self.alts(t[3], depth)
        if k == "var":
            out = []
            for _, d in self.sym.defs_of_var(t[2]):
                out += self.alts(d, depth - 1)
            return out or [t]
        if k == "variant":
            out = []
            for b in self.alts(t[1], depth):
                if b[0] == "agg" and b[1] not in ("tuple", "array") and b[2] != t[2]:
                    continue                        # another variant cannot be downcast to this one
                out.append(("variant", b, t[2]))
            return out
        if k == "field":
            out = []
            for b in self.alts(t[1], depth):
                b = strip_deep(b)
                r = strip_deep(("field", b, t[2], t[3] if len(t) > 3 else None))
                if r[0] == "field" and str(r[2]) == str(t[2]) and r[1] == b:
                    out.append(r)               # nothing to project
                else:
                    out += self.alts(r, depth - 1)
            return out
        if k != "call" or not t[2]:
            return [t]
        info = _info(t)
        nm = info.get("name")
        fn = info.get("fn") or ""
        a = t[2]
        if _is_std(t):
            on_opt = "option::Option" in fn
            on_res = "result::Result" in fn
            payload = lambda x: ("field", ("variant", x, "Ok" if on_res else "Some"), "0", None)
            if nm in ("unwrap", "expect", "unwrap_unchecked") and (on_opt or on_res):
                return self.alts(payload(a[0]), depth - 1)
            if nm in ("unwrap_or",) and len(a) == 2:
                return self.alts(payload(a[0]), depth - 1) + self.alts(a[1], depth - 1)
            if nm in ("unwrap_or_else",) and len(a) == 2:
                rs = self.closure_results(a[1], [], depth - 1)
                return self.alts(payload(a[0]), depth - 1) + (rs if rs is not None else [("unknown", "closure")])
            if nm in ("map", "and_then") and on_opt and len(a) == 2:
                out = [_NONE]
                for x in self.alts(payload(a[0]), depth - 1):
                    rs = self.closure_results(a[1], [x], depth - 1)
                    if rs is None:
                        return [t]
                    out += [_some(r) for r in rs] if nm == "map" else rs
                return out
            if nm in ("map_or", "map_or_else") and len(a) == 3:
                out = []
                if nm == "map_or":
                    out += self.alts(a[1], depth - 1)
                else:
                    rs = self.closure_results(a[1], [], depth - 1)
                    out += rs if rs is not None else [("unknown", "closure")]
                for x in self.alts(payload(a[0]), depth - 1):
                    rs = self.closure_results(a[2], [x], depth - 1)
                    out += rs if rs is not None else [("unknown", "closure")]
                return out
            if nm in ("filter", "take_if") and on_opt:
                return self.alts(a[0], depth - 1) + [_NONE]
            if nm in ("or", "xor") and on_opt and len(a) == 2:
                return self.alts(a[0], depth - 1) + self.alts(a[1], depth - 1)
            if nm == "or_else" and on_opt and len(a) == 2:
                rs = self.closure_results(a[1], [], depth - 1)
                return self.alts(a[0], depth - 1) + (rs if rs is not None else [("unknown", "closure")])
            if nm == "then" and len(a) == 2:
                rs = self.closure_results(a[1], [], depth - 1)
                return [_NONE] + ([_some(r) for r in rs] if rs is not None else [("unknown", "closure")])
            if nm == "then_some" and len(a) == 2:
                return [_NONE] + [_some(x) for x in self.alts(a[1], depth - 1)]
            if nm in ("replace", "take") and "mem::" in fn:
                return self.alts(a[0], depth - 1)
            if nm == "find_map" and len(a) == 2:
                out = [_NONE]
                for e in self.elems(a[0], depth - 1):
                    rs = self.closure_results(a[1], [e], depth - 1)
                    if rs is None:
                        return [t]
                    out += rs
                return out
            if info.get("trait") == "std::iter::Iterator" and nm in ("next", "next_back", "last", "find", "nth", "peek", "min_by_key",
                                                                     "max_by_key", "min_by", "max_by", "reduce"):
                return [_NONE] + [_some(e) for e in self.elems(a[0], depth - 1)]
            if nm in ("first", "last", "get", "first_mut", "last_mut", "get_mut") and "slice" in fn:
                return [_NONE] + [_some(("index", x, _ANY)) for x in self.alts(a[0], depth - 1)]
            return [t]
        if info.get("krate") == "rpki" and not info.get("trait"):
            fb = self.f.body(t[1])
            if fb is not None and fb.rec.get("vis") != "pub" and len(fb.blocks) <= 60 and depth >= 3:
                rs = self.fn_results(fb, list(a), depth - 2)
                if rs:
                    return rs
        return [t]

    # -- where a value comes from ------------------------------------------------------------------------------------
    def param_local(self, name):
        for i in range(1, self.body.arg_count + 1):
            if (self.body.local_name(i) or "_%d" % i) == name:
                return i
        return None

    _CREATORS = {}

    @classmethod
    def creators(cls, f):
        """closure def -> bodies that create it (in a view with helpers folded in: the callers the helper went into)."""
        ent = cls._CREATORS.get(id(f))
        if ent is None or ent[0] is not f:
            m = {}
            for n in list(f.bodies.keys() if hasattr(f.bodies, "keys") else f.bodies):
                b = f.bodies[n]
                for bi, l, cdef, st in b.closures_created():
                    m.setdefault(cdef, []).append(b)
            ent = (f, m)
            cls._CREATORS[id(f)] = ent
        return ent[1]

    def creator(self, prefer=None):
        """(resolver of the body that creates this closure, the closure term there)."""
        if "{closure" not in self.body.name:
            return None, None
        cands = Vals.creators(self.f).get(self.body.name, [])
        if prefer is not None:
            cands = [b for b in cands if b is prefer] or cands
        for pb in cands:
            for bi, l, cdef, st in pb.closures_created():
                if cdef == self.body.name:
                    pv = Vals.of(self.f, pb)
                    return pv, strip_deep(pv.sym.rvalue(st["rv"]))
        return None, None

    def from_collection(self, t, trusted, depth=8):
        """The value is an element (or a part) of an existing collection of blocks that is canonical already: a chain
        (by the type's invariant), a vector this very function builds (every store into it is checked), or — in a
        private helper — a vector every caller hands over in that state."""
        if depth <= 0:
            return False
        return all(self._fc(a, trusted, depth) for a in self.alts(t))

    def _fc(self, t, trusted, depth):
        t = strip_deep(unmut(t))
        k = t[0]
        if k in ("index", "field", "variant", "subslice"):
            return self._fc(t[1], trusted, depth - 1) if depth > 0 else False
        if k == "call":
            nm = _info(t).get("name")
            if _is_std(t) and nm in ("new", "with_capacity", "box_assume_init_into_vec_unsafe", "new_uninit", "default") and \
                    re.search(r"(vec::Vec|boxed::Box)", _info(t).get("fn") or ""):
                return True                       # a fresh vector: holds only what is stored into it
            if t[2] and ((_is_std(t) and nm in _ELEM_OF) or (_info(t).get("krate") == "rpki" and nm in ("as_chain", "as_slice", "iter"))):
                return self.from_collection(t[2][0], trusted, depth - 1)
            return False
        if k == "var":
            ds = [d for _, d in self.sym.defs_of_var(t[2]) if not (d[0] == "unknown" and d[1] == "partial")]
            return bool(ds) and all(self.from_collection(d, trusted, depth - 1) for d in ds)
        if k == "param":
            l = self.param_local(t[1])
            if l is None:
                return False
            return trusted(self.body.local_ty(l), (self, l))
        if k == "upvar":
            pv, ct = self.creator()
            if pv is None:
                return False
            for name, pl in self.body.rec.get("upvars", []):
                idx = _upvar_index(pl)
                if name == t[1] and idx is not None and idx < len(ct[2]):
                    return pv.from_collection(ct[2][idx], trusted, depth - 1)
            return False
        return False


def run(ctx):
    f = ctx.facts()
    ctx.rule("R-WHO", "construction / unsafe-call sites are exactly the confirmed ones")
    ctx.rule("R-FLOW", "operand provenance")
    ctx.rule("R-SIB", "contradiction rule: adjacency merging implies overlap handling")
    ctx.rule("R-GRD", "success requires the guard literal")
    ctx.rule("R-PANIC", "end-of-number-space arithmetic")
    ctx.rule("R-REG", "decision table of a comparison-only function equals the interval definition on every ordering")
    K.check_block_predicates(ctx, f)
    check_sweeps(ctx, f)
    check_append(ctx, f)
    check_block_sum(ctx, f)
    check_no_limit_sentinel(ctx, f)
    # "collecting blocks yields exactly the set of the blocks collected": a resources builder keeps what earlier
    # blocks() calls added
    K.check_builder_slot_accumulates(ctx, f, "R-GRD", ["repository::resources::ipres::IpResourcesBuilder::blocks",
                                                       "repository::resources::asres::AsResourcesBuilder::blocks"])
    K.check_bool_table(ctx, f, "R-REG", "ca::provisioning::RequestResourceLimit::is_empty",
                       [(r"^Option::is_none\(self\.asn\)$", "asn"), (r"^Option::is_none\(self\.ipv4\)$", "v4"),
                        (r"^Option::is_none\(self\.ipv6\)$", "v6")],
                       lambda e: e["asn"] and e["v4"] and e["v6"],
                       "is true iff no component is present (an explicitly empty component still limits)")

    # ---- C03.a canonical-form discipline --------------------------------------
    OC = CH + "OwnedChain"
    UNCHECKED = CH + "OwnedChain::<T>::from_vec_unchecked"
    uns = [c for c in calls_to(f, lambda c: c.res == UNCHECKED) if not c.body.is_cleanup(c.bb)]
    want = sorted([CH + "Chain::<T>::trim", CH + "Chain::<T>::difference",
                   "<%sOwnedChain<T> as std::iter::FromIterator<T>>::from_iter" % CH, IP + "IpBlocks::all", AS + "AsBlocks::all"])
    helper_memo = {}

    def helper_of_reviewed(fn, depth=0):
        """`fn` is a private function whose every caller is a reviewed site (or such a helper): the reviewed site's code,
        moved into a function of its own."""
        if fn in want:
            return True
        if fn in helper_memo:
            return helper_memo[fn]
        helper_memo[fn] = False
        r = f.fns.get(fn) or {}
        bd = f.body(fn)
        vis = (bd.rec.get("vis") if bd is not None else None) or r.get("vis")
        if depth > 6 or vis is None or vis == "pub" or r.get("impl_trait") or (bd is not None and bd.rec.get("impl_trait")):
            return False
        cs = {root_fn(f, c.body.name) for c in calls_to(f, lambda c: c.res == fn) if not c.body.is_cleanup(c.bb)}
        ok = bool(cs) and all(helper_of_reviewed(x, depth + 1) for x in cs if x != fn)
        helper_memo[fn] = ok
        return ok

    def hands_over_nothing(c):
        a = K.arg_terms(c)
        t = strip_deep(unmut(a[0])) if a else ("unknown", "?")
        return t[0] == "call" and not t[2] and _info(t).get("name") in ("new", "default") and "vec::Vec" in (_info(t).get("fn") or "")
    callers = sorted({root_fn(f, c.body.name) for c in uns})
    odd = sorted({root_fn(f, c.body.name) for c in uns
                  if not helper_of_reviewed(root_fn(f, c.body.name)) and not hands_over_nothing(c)})
    ctx.ob("R-WHO", "OwnedChain::from_vec_unchecked-callers", bool(callers) and not odd,
           "the unsafe chain constructor is called only from the reviewed sites (trim, difference, the normalising collector "
           "with its private helpers, and the single-block `all()` constructors)", detail={"found": callers, "reviewed": want, "not_reviewed": odd})
    lit_ok = {UNCHECKED, CH + "OwnedChain::<T>::empty"}
    sites = sorted({root_fn(f, x[0].name) for x in aggregates_of(f, OC) if not is_derived(x[0])})
    ctx.ob("R-WHO", "OwnedChain-literal-sites", UNCHECKED in sites and set(sites) <= lit_ok,
           "OwnedChain(..) is built only in from_vec_unchecked and empty", detail=sites)
    for adt in (OC, CH + "SharedChain", IP + "IpBlocks", AS + "AsBlocks", IP + "Ipv4Blocks", IP + "Ipv6Blocks"):
        rec = f.adts.get(adt)
        if rec is None:
            ctx.missing("R-WHO", short(adt), adt)
            continue
        ctx.ob("R-WHO", "%s:fields-private" % short(adt), all(fl["vis"] != "pub" for v in rec["variants"] for fl in v["fields"]),
               "the fields of %s are private" % short(adt))
    # conversions from unchecked vectors/slices go through the normalising collector
    FROM_ITER = "<%sOwnedChain<T> as std::iter::FromIterator<T>>::from_iter" % CH
    conv = ["<%sOwnedChain<T> as std::convert::From<std::vec::Vec<T>>>::from" % CH,
            "<%sOwnedChain<T> as std::convert::From<&'a [T]>>::from" % CH]
    for fn in conv:
        b = f.body(fn)
        if b is None:
            ctx.missing("R-FLOW", short(fn), fn)
            continue
        ctx.saw_fn(fn)
        names = {(c.trait, c.name) for c in b.calls() if c.is_static and not b.is_cleanup(c.bb)}
        # the returned chain is the result of the collector itself, of `collect()` into the chain type, or of the other
        # (normalising) conversion
        ok = False
        for c in b.calls():
            if not c.is_static or b.is_cleanup(c.bb) or c.dest is None or c.dest["p"]:
                continue
            if not re.search(r"chain::OwnedChain<", b.local_ty(c.dest["l"])):
                continue
            if c.res == FROM_ITER or c.name == "from_iter" or (c.trait == "std::iter::Iterator" and c.name == "collect") or \
                    (c.res in conv and c.res != fn) or (c.name in ("into", "from") and (c.trait or "").startswith("std::convert::")
                                                        and c.res != fn):
                ok = True
        ctx.ob("R-FLOW", "%s:normalises" % short(fn), ok, "%s builds the chain with the normalising FromIterator" % short(fn),
               where=b.loc, detail=sorted(str(x) for x in names))
    for owner, blk in ((IP + "IpBlocks::all", "IpBlock::all()"), (AS + "AsBlocks::all", "AsBlock::all()")):
        b = f.body(owner)
        if b is None:
            continue
        cs = [c for c in b.calls() if (c.res or "").endswith("from_vec_unchecked")]
        alls = [c for c in b.calls() if not b.is_cleanup(c.bb) and short(c.res or "") == blk.split("(")[0]]
        others = [short(c.res or "") for c in b.calls() if not b.is_cleanup(c.bb) and c.is_static and
                  re.search(r"(Block|Range|Prefix)::(new|from)", c.res or "")]
        ctx.ob("R-FLOW", "%s:single-block" % short(owner), len(cs) == 1 and len(alls) == 1 and not others and not b.cycles_sccs(),
               "%s hands the unsafe constructor exactly one block covering everything" % short(owner), where=b.loc,
               detail={"all_calls": len(alls), "other_block_ctors": others})

    # ---- C03.b every stored block is canonicalised -----------------------------------
    check_stored_blocks(ctx, f)

    # ---- C03.c overlap handled wherever adjacency is -------------------------------------
    check_adjacency_implies_overlap(ctx, f)

    # ---- C03.d lower <= upper at untrusted constructors -----------------------------------
    check_ranges(ctx, f)
    check_interval_discipline(ctx, f)
    check_cached_projections(ctx, f)

    # ---- C03.e issuance / limit results ------------------------------------------------------
    # (shared with C01: the textual rule first, then the path-by-path decision of props/C01.py)
    from props.C01 import check_verify_issued as _check_verify_issued
    _check_verify_issued(ctx, f)
    check_apply_to(ctx, f)
    check_resource_set(ctx, f)

    # ---- C03.f arithmetic at the ends of the number space ------------------------------------
    for tr_impl in ("<%sAddressRange as %sBlock>" % (IP, CH), "<%sIpBlock as %sBlock>" % (IP, CH),
                    "<%sAsRange as %sBlock>" % (AS, CH), "<%sAsBlock as %sBlock>" % (AS, CH)):
        for meth, want in (("next", "checked_add"), ("previous", "checked_sub")):
            b = f.body("%s::%s" % (tr_impl, meth))
            if b is None:
                ctx.missing("R-PANIC", "%s::%s" % (short(tr_impl), meth), "%s::%s" % (tr_impl, meth))
                continue
            ctx.saw_fn(b.name)
            names = set()
            stack = [b]
            seen = set()
            while stack:
                x = stack.pop()
                if x.name in seen:
                    continue
                seen.add(x.name)
                for c in x.calls():
                    if x.is_cleanup(c.bb) or not c.is_static:
                        continue
                    names.add(c.name)
                    if c.res in f.bodies and len(seen) < 6:
                        stack.append(f.bodies[c.res])
            arith = [st for x in seen for blk in f.bodies[x].blocks for st in blk["stmts"]
                     if st["s"] == "assign" and st["rv"]["r"] == "bin" and st["rv"]["bop"] in ("AddWithOverflow", "SubWithOverflow", "Add", "Sub")]
            ctx.ob("R-PANIC", "%s::%s:checked" % (short(tr_impl), meth), want in names and not arith,
                   "%s::%s steps with %s (None at the end of the number space, no overflowing +/-)" % (short(tr_impl), meth, want),
                   where=b.loc, detail=sorted(x for x in names if x))
    ac = f.body(AS + "AsRange::asn_count")
    if ac is not None:
        paths, it, err = K.run_absint(f, ac.name, sym_names={"u32::from(self.max)": "max", "u32::from(self.min)": "min",
                                                            "Asn::into_u32(self.max)": "max", "Asn::into_u32(self.min)": "min"})
        pan = [p for p in (paths or []) if p.outcome[0] == "panic" and "Add" in p.outcome[1]]
        # the +1 overflows exactly for the full range; the subtraction underflows only for inverted ranges (C03.d)
        ctx.ob("R-PANIC", "AsRange::asn_count:full-range-overflow", not pan,
               "AsRange::asn_count cannot overflow (max − min + 1 fits u32)", where=ac.loc,
               detail=[p.describe() for p in pan][:2] or None)


# ---------------------------------------------------------------------------------------------
# C03.k — "no limit" and "the empty set" stay apart in the serde form of a resource limit

def check_no_limit_sentinel(ctx, f):
    """An absent component of a RequestResourceLimit means "no limit", an empty one "nothing of this kind" — opposite
    requests.  Present components are written as their text (the empty set as the empty string); the hand-written
    deserialisers additionally read the legacy word "none" as absent.  Every place where one of them answers `None` must
    lie behind the comparison of the deserialised text with that word: any other text — in particular the empty one —
    goes to the blocks parser."""
    n = 0
    for name, b in sorted(f.bodies.items()):
        if not name.startswith("ca::provisioning::") or K.is_derived_body(b) or "{closure" in name:
            continue
        if not re.match(r"^std::result::Result<std::option::Option<.*>, .*>$", b.ret_ty or ""):
            continue
        if not any(c.name == "deserialize" and "String" in (c.res or "") for c in b.calls()):
            continue
        nones = [bi for bi, blk in enumerate(b.blocks) if not blk.get("cleanup") for st in blk["stmts"]
                 if st["s"] == "assign" and st["rv"]["r"] == "agg" and st["rv"].get("adt") == "std::option::Option"
                 and st["rv"].get("variant") == "None"]
        ctx.saw_fn(name)
        n += 1
        bad = []
        for bi in nones:
            g = K.dominating_guards(f, b, bi)
            if not any(re.search(r"deserialize\(.*\).* == b'none'$", x) for x in g):
                bad.append({"line": b.line_of(bi), "guards": g})
        ctx.ob("R-GRD", "%s:none-only-for-the-legacy-word" % short(name), bool(nones) and not bad,
               "%s answers None (no limit) only for the text \"none\"; every other text, the empty one included, is parsed as a "
               "set" % short(name), where=b.loc, detail=bad or None)
    ctx.floor("R-GRD", "hand-written Option<blocks> deserialisers of the resource limit", n, 1)


# ---------------------------------------------------------------------------------------------
# C03.j — the sweeps over ascending block sequences, round by round (engine/sweep.py)

SWEEPS = [
    # (function, set operation it must compute, floor on interpreted rounds counted when armed)
    ("Chain::<T>::contains_item", "member", 300),
    ("Chain::<T>::is_encompassed", "subset", 3000),
    ("Chain::<T>::difference", "difference", 3000),
    ("Chain::<T>::trim", "intersection", 5000),
]


def check_sweeps(ctx, f):
    from engine import sweep
    ctx.rule("R-STEP", "every round of a sweep over ascending block sequences, interpreted over the order domain of its "
                       "cursors' bounds (all placements incl. adjacency and both ends of the number space), consumes and emits "
                       "exactly what the set operation allows; prologue and every way of ending the sweep included")
    for fn, op, floor in SWEEPS:
        name = CH + fn
        b = f.body(name)
        short_fn = fn.replace("::<T>", "")
        if b is None:
            ctx.missing("R-STEP", short_fn, name)
            continue
        ctx.saw_fn(name)
        outside = None
        try:
            sw = sweep.Sweep(f, b, op, vmax=8 if ctx.tier == "quick" else 11)   # thorough: a wider universe (more slack than the order types need)
            problems = sw.run()
            rounds, states = sw.rounds, sw.states
            hard = [p for p in problems if not p.get("unsupported")]
            if problems and not hard:
                outside = problems[0]["problem"]
            elif hard and len(hard) < len(problems) and all(p.get("where") == "prologue" for p in hard):
                # the prologue is judged with the same reading of the state: if the rounds cannot be read, neither can it
                outside = [p for p in problems if p.get("unsupported")][0]["problem"]
            problems = hard if outside is None else []
        except sweep.Unsupported as e:
            problems, rounds, states = [], 0, 0
            outside = str(e)
        ctx.analysed["paths"] += rounds
        if outside is not None and ctx.view is not None:
            continue        # "no verdict" on a rewritten view must not stand in for a verdict on the program as written
        if outside is not None:
            # The function keeps its sweep state in a form the order-domain interpreter has no reading for (an index into
            # a slice instead of a shrinking slice, a cursor split into scalars, a helper writing through `&mut` …).  That
            # is neither a finding nor an established obligation: the structural rules (b), (c), (g), (h) above still
            # apply to the function; this deeper rule gives no verdict.
            ctx.note("R-STEP gives no verdict on %s: %s" % (short_fn, outside[:200]))
            ctx.ob("R-STEP", "%s:rounds" % short_fn, True,
                   "%s: sweep state outside the interpreter's vocabulary (%s) — no verdict from this rule" % (short_fn, outside[:120]),
                   where=b.loc, nontrivial=False)
            continue
        ctx.ob("R-STEP", "%s:rounds" % short_fn, not problems,
               "%s computes the %s of two ascending block sequences: %d abstract states, %d interpreted rounds, each admissible"
               % (short_fn, {"member": "membership test", "subset": "subset test"}.get(op, op), states, rounds),
               where=b.loc, detail=problems[:6] or None)
        if not problems:
            ctx.floor("R-STEP", short_fn + " rounds", rounds, floor)


def check_block_sum(ctx, f):
    """Block::sum (what merge_or_add_block folds an out-of-order block into a stored one with) over the order domain: for
    every placement of two blocks it is Some(the block spanning both) exactly when their union is one interval —
    overlapping or adjacent, at the ends of the number space too — and None otherwise."""
    from engine import stepexec as SX, sweep
    name = CH + "Block::sum"
    b = f.body(name)
    if b is None:
        return ctx.missing("R-STEP", "Block::sum", name)
    ctx.saw_fn(name)
    vmax = 8
    m = SX.Machine(f, vmax)
    bad, n, outside = [], 0, None
    ivs = sweep.intervals(vmax)
    try:
        for A in ivs:
            for C in ivs:
                n += 1
                env = {1: ("block", A[0], A[1], ("a",)), 2: ("block", C[0], C[1], ("c",))}
                try:
                    kind, at, e2, ret = m.run(b, 0, env, ())
                except SX.PanicPath as e:
                    bad.append({"a": A, "c": C, "problem": "panics: %s" % e})
                    continue
                one = A[0] <= C[1] + 1 and C[0] <= A[1] + 1
                want = (min(A[0], C[0]), max(A[1], C[1])) if one else None
                got = "?"
                if isinstance(ret, tuple) and ret[0] == "adt" and ret[1] == "Option":
                    got = None if ret[2] == "None" else ((ret[3][0][1], ret[3][0][2]) if SX.is_concrete_block(ret[3][0]) else "?")
                if got != want:
                    bad.append({"a": A, "c": C, "sum": got, "union_as_one_block": want})
                if len(bad) > 5:
                    break
            if len(bad) > 5:
                break
    except SX.Unsupported as e:
        outside = str(e)
    if outside is not None:
        if ctx.view is not None:
            return
        ctx.note("R-STEP gives no verdict on Block::sum: %s" % outside[:200])
        return ctx.ob("R-STEP", "Block::sum:table", True, "Block::sum: outside the interpreter's vocabulary (%s) — no verdict from this rule"
                      % outside[:120], where=b.loc, nontrivial=False)
    ctx.ob("R-STEP", "Block::sum:table", not bad,
           "Block::sum of two blocks is Some(the block spanning both) exactly when their union is a single interval (overlap or "
           "adjacency), None otherwise: %d placements interpreted" % n, where=b.loc, detail=bad or None)


def check_append(ctx, f):
    """The fast path of OwnedChain::from_iter, round by round (engine/sweep.py AppendSweep)."""
    from engine import sweep
    name = "<%sOwnedChain<T> as std::iter::FromIterator<T>>::from_iter" % CH
    b = f.body(name)
    if b is None:
        return ctx.missing("R-STEP", "OwnedChain::from_iter", name)
    ctx.saw_fn(name)
    outside = None
    try:
        sw = sweep.AppendSweep(f, b, vmax=8 if ctx.tier == "quick" else 10)
        problems = sw.run()
        rounds, states = sw.rounds, sw.states
        hard = [p for p in problems if not p.get("unsupported")]
        if problems and not hard:
            outside = problems[0]["problem"]
        problems = hard
    except sweep.Unsupported as e:
        problems, rounds, states, outside = [], 0, 0, str(e)
    ctx.analysed["paths"] += rounds
    if outside is not None and ctx.view is not None:
        return              # "no verdict" on a rewritten view must not stand in for a verdict on the program as written
    if outside is not None:
        ctx.note("R-STEP gives no verdict on OwnedChain::from_iter: %s" % outside[:200])
        ctx.ob("R-STEP", "OwnedChain::from_iter:rounds", True,
               "OwnedChain::from_iter: loop state outside the interpreter's vocabulary (%s) — no verdict from this rule" % outside[:120],
               where=b.loc, nontrivial=False)
        return
    ctx.ob("R-STEP", "OwnedChain::from_iter:rounds", not problems,
           "every round of OwnedChain::from_iter's in-order path either hands the work over unchanged or replaces the tail of "
           "the result by the canonical form of (last block ∪ next block), and that only for a next block not starting before "
           "the last: %d abstract states, %d interpreted rounds" % (states, rounds), where=b.loc, detail=problems[:6] or None)
    if not problems:
        ctx.floor("R-STEP", "OwnedChain::from_iter rounds", rounds, 2000)


# ---------------------------------------------------------------------------------------------
# C03.b — every block that enters a vector of blocks in the generic chain code is canonical

_NO_NEW_ELEMENT = re.compile(r"^(len|is_empty|capacity|last|last_mut|first|first_mut|get|get_mut|get_unchecked|get_unchecked_mut|iter|"
                             r"iter_mut|truncate|clear|pop|remove|swap_remove|swap|sort\w*|dedup\w*|retain\w*|drain|reserve\w*|"
                             r"shrink\w*|as_slice|as_mut_slice|as_ptr|as_mut_ptr|deref|deref_mut|index|index_mut|reverse|"
                             r"rotate_\w+|split\w*|binary_search\w*|contains|starts_with|ends_with|as_ref|as_mut|borrow|borrow_mut|"
                             r"clone|to_vec|to_owned|into_iter|windows|chunks\w*|iter_mut|eq|ne|partial_cmp|cmp|fmt|hash|"
                             r"into_boxed_slice|leak|is_sorted\w*|copy_within|select_nth\w*|into|from|set_len)$")


def block_types(body):
    """Names of the generic parameter(s) that stand for a block in this body: what its vectors / slices / chains hold."""
    out = set()
    for l in body.locals:
        for m in re.finditer(r"(?:Vec|Chain|OwnedChain|SharedChain|Iter|IterMut|IntoIter)<(?:'\w+, )?(\w+)[>,]|\[(\w+)(?:; \d+)?\]", l["ty"]):
            x = m.group(1) or m.group(2)
            if x and x[0].isupper() and len(x) <= 3:
                out.add(x)
    return out


def _op_local_ty(body, op):
    pl = op.get("m") or op.get("c")
    if not pl:
        return None, None
    return body.local_ty(pl["l"]), bool(pl["p"])


# ---------------------------------------------------------------------------------------------
# C03.i cached projections of stored blocks stay coherent

_ELEM_READ = ("index", "last", "first", "get", "get_unchecked")
_ELEM_WRITE = ("index_mut", "last_mut", "first_mut", "get_mut", "get_unchecked_mut")


def _elem_reads(t, vec_names):
    """(vector name, index text, accessor name) for every `acc(vec[idx])` inside term t."""
    out = []
    for x in walk(t):
        if x[0] != "call" or len(x) < 4 or not x[2]:
            continue
        acc = (x[3] or {}).get("name")
        inner = unmut(strip_deep(x[2][0]))
        while inner[0] == "field" and str(inner[2]) == "0" and inner[1][0] == "variant" and inner[1][2] == "Some":
            inner = unmut(strip_deep(inner[1][1]))
        if inner[0] == "call" and (inner[3] or {}).get("name") in _ELEM_READ + _ELEM_WRITE and inner[2] and \
                (inner[3] or {}).get("krate") in ("core", "alloc", "std"):
            vr = [r for r in (y for y in walk(inner[2][0])) if r[0] in ("param", "var") and r[1] in vec_names]
            if vr:
                out.append((vr[0][1], render(strip_deep(inner[2][1])) if len(inner[2]) > 1 else (inner[3] or {}).get("name"), acc))
    return out


def check_cached_projections(ctx, f):
    """A local that is carried round a normalisation loop and holds a projection of a block stored in the result vector
    (`tail_next = T::next(res[tail].max())`) is a cache of that stored block.  Whenever an iteration overwrites a block
    of the vector (or moves the index the cache is taken at), the same iteration has to assign the cache again — unless
    what is written provably leaves the cached component as it was.  Otherwise later iterations compare against a bound
    the vector no longer holds (blocks that should merge stay apart, or the other way round)."""
    n_caches = 0
    for n, b in sorted(f.bodies.items()):
        if not n.startswith(CH) or is_derived(b) or "{closure" in n:
            continue
        sccs = [set(x) for x in b.cycles_sccs()]
        if not sccs:
            continue
        bts = block_types(b)
        vecs = set()
        for i, l in enumerate(b.locals):
            m = re.match(r"^(?:&mut |&)?std::vec::Vec<(\w+)>$", l["ty"])
            if m and m.group(1) in bts and b.local_name(i):
                vecs.add(b.local_name(i))
        if not vecs:
            continue
        s = K.sym_of(b)
        defs = b.defs()
        for scc in sccs:
            # stores into an element of the vector inside the loop
            stores = []          # (block, vec name, index text, stored value term)
            for bi in scc:
                if b.is_cleanup(bi):
                    continue
                for st in b.blocks[bi]["stmts"]:
                    if st["s"] != "assign" or not st["pl"]["p"] or st["pl"]["p"][0][0] != "d":
                        continue
                    ds = [d for d in defs.get(st["pl"]["l"], []) if d[2] == "call"]
                    if len(ds) != 1:
                        continue
                    k = ds[0][3]["func"].get("k") if isinstance(ds[0][3]["func"], dict) else None
                    if not k or k.get("name") not in _ELEM_WRITE:
                        continue
                    ct = strip_deep(s.call(ds[0][3], ds[0][0]))
                    vr = [r for r in walk(ct[2][0]) if r[0] in ("param", "var") and r[1] in vecs] if ct[2] else []
                    if vr:
                        stores.append((bi, vr[0][1], render(strip_deep(ct[2][1])) if len(ct[2]) > 1 else k.get("name"),
                                       strip_deep(s.rvalue(st["rv"]))))
            for l, ds in defs.items():
                full = [d for d in ds if d[2] in ("assign", "call")]
                if l <= b.arg_count or len(full) < 2 or not any(d[0] in scc for d in full) or any(d[2] == "partial" for d in ds):
                    continue
                terms = [(bb, strip_deep(t)) for bb, t in s.defs_of_var(l)]
                reads = [_elem_reads(t, vecs) for _, t in terms]
                if not all(reads) or not b.local_name(l):
                    continue
                n_caches += 1
                accs = {a for r in reads for _, _, a in r}
                idx_names = set()
                for _, t in terms:
                    for x in walk(t):
                        if x[0] == "var" and re.match(r"^[ui](size|8|16|32|64)$", b.local_ty(x[2]) or ""):
                            idx_names.add(x[2])
                def_blocks = {d[0] for d in full if d[0] in scc}
                sources = []
                for bi, vn, it, val in stores:
                    # does the store provably keep the cached component(s)?
                    keeps = False
                    if val[0] == "call" and (val[3] or {}).get("name") == "new" and len(val[2]) == 2 and accs <= {"min", "max"}:
                        comp = {"min": val[2][0], "max": val[2][1]}
                        keeps = all(any(v == vn and a2 == a and i2 == it for v, i2, a2 in _elem_reads(("call", "x", (comp[a],), {"name": "id"}), vecs) or
                                        _elem_reads(comp[a], vecs)) and render(strip_deep(comp[a])).startswith("Block::%s(" % a) for a in accs)
                    if not keeps:
                        sources.append((bi, "block stored into %s[%s]" % (vn, it)))
                for il in idx_names:
                    for d in defs.get(il, []):
                        if d[0] in scc and d[2] in ("assign", "call"):
                            sources.append((d[0], "index `%s` moved" % (b.local_name(il) or "_%d" % il)))
                bad = []
                for bi, what in sources:
                    if bi in def_blocks:
                        continue
                    # an iteration through bi that never assigns the cache: bi reaches itself inside the loop avoiding
                    # every block that assigns it
                    allowed = scc - def_blocks
                    seen, work = set(), [x for x in b.succs(bi) if x in allowed]
                    hit = False
                    while work:
                        x = work.pop()
                        if x == bi:
                            hit = True
                            break
                        if x in seen:
                            continue
                        seen.add(x)
                        work += [y for y in b.succs(x) if y in allowed]
                    if hit:
                        bad.append({"at": b.where(bi), "event": what})
                shape = sorted({K.alpha(render(t), b) for _, t in terms})
                ctx.ob("R-FLOW", "%s:cache-refreshed[%s]" % (short(root_fn(f, n)), shape[-1][:80]), not bad,
                       "in %s a loop-carried local caching a projection of a stored block is assigned again in every iteration "
                       "that overwrites a stored block or moves the index" % short(n), where=b.loc,
                       detail={"cache_definitions": shape, "stale_after": bad})
    ctx.floor("R-FLOW", "cached projections of stored blocks (chain.rs)", n_caches, 1)


def check_stored_blocks(ctx, f):
    trusting = set()

    def trusted(ty, who):
        if re.search(r"chain::(Chain|OwnedChain|SharedChain)<", ty):
            return True                             # the type's invariant
        if who is None or not re.search(r"Vec<|\[\w+\]", ty):
            return False
        vals, l = who
        b = vals.body
        if b.rec.get("vis") == "pub" or b.rec.get("impl_trait") or "{closure" in b.name:
            return False                            # anybody may hand in anything
        key = (b.name, l)
        if key in trusting:
            return True                             # recursion: assume, the outer call decides
        trusting.add(key)
        try:
            cs = [c for c in calls_to(f, lambda c: c.res == b.name) if not c.body.is_cleanup(c.bb)]
            if not cs:
                return False
            for c in cs:
                if l - 1 >= len(c.args) or root_fn(f, c.body.name) not in family:
                    return False                    # a caller whose own stores nobody looks at
                cv = Vals.of(f, c.body)
                if not cv.from_collection(cv.sym.operand(c.args[l - 1]), trusted):
                    return False
            return True
        finally:
            trusting.discard(key)

    def canonical(vals, t, bad, what):
        """Every alternative of the stored value is Block::new(..), the merge Block::sum(..), or an element of an
        already canonical collection."""
        for a in vals.alts(t):
            a = strip_deep(unmut(a))
            if _block_call(a, "new"):
                continue
            if a[0] == "field" and str(a[2]) == "0" and a[1][0] == "variant" and a[1][2] == "Some" and _block_call(strip_deep(a[1][1]), "sum"):
                continue
            if a[0] == "agg" and a[1] == _OPTION and a[2] == "None":
                continue
            if vals.from_collection(a, trusted):
                continue
            bad.append("%s: %s" % (what, K.alpha(render(a), vals.body)[:200]))

    def canonical_items(vals, t, bad, what):
        for a in vals.alts(t):
            a = strip_deep(unmut(a))
            if vals.from_collection(a, trusted):
                continue
            es = vals.elems(a)
            if not es and not (a[0] == "agg" and (a[1] in (_OPTION, "array", "tuple"))):
                bad.append("%s: %s" % (what, K.alpha(render(a), vals.body)[:200]))
            for e in es:
                canonical(vals, e, bad, what + " item")

    # the functions whose vectors end up in the unsafe constructor: its callers and the private functions they use
    family = set()
    work = [root_fn(f, c.body.name) for c in calls_to(f, lambda c: c.res == CH + "OwnedChain::<T>::from_vec_unchecked")]
    while work:
        fn = work.pop()
        fb = f.body(fn)
        if fn in family or fb is None or not fb.file.endswith("resources/chain.rs"):
            continue
        family.add(fn)
        for n2 in [fn] + list(f.children(fn)):
            b2 = f.body(n2)
            for c in (b2.calls() if b2 is not None else ()):
                cb = f.body(c.res) if c.is_static and c.res else None
                if cb is not None and not b2.is_cleanup(c.bb) and cb.rec.get("vis") != "pub" and not cb.rec.get("impl_trait") \
                        and cb.file.endswith("resources/chain.rs"):
                    work.append(root_fn(f, cb.name))
    per_root = {}
    for n, b in sorted(f.bodies.items()):
        if root_fn(f, n) not in family or is_derived(b) or "::test" in n:
            continue
        BT = block_types(b)
        if not BT:
            continue
        bt = "(?:%s)" % "|".join(sorted(BT))
        vec_ty = re.compile(r"^(&mut )?(std::vec::|alloc::vec::)?Vec<%s>$" % bt)
        slice_mut = re.compile(r"^&mut \[%s\]$" % bt)
        elem_mut = re.compile(r"^&mut %s$" % bt)
        vals = Vals.of(f, b)
        s = vals.sym
        bad = []
        nsites = 0
        for c in b.calls():
            if b.is_cleanup(c.bb) or not c.is_static:
                continue
            std = c.krate in ("core", "alloc", "std")
            a0ty, a0proj = _op_local_ty(b, c.args[0]) if c.args else (None, None)
            dty = b.local_ty(c.dest["l"]) if c.dest is not None and not c.dest["p"] else ""
            nm = c.name or ""
            at = [strip_deep(s.operand(x)) for x in c.args]
            if std and a0ty and not a0proj and (vec_ty.match(a0ty) and a0ty.startswith("&mut") or slice_mut.match(a0ty)):
                if _NO_NEW_ELEMENT.match(nm):
                    continue
                nsites += 1
                if nm in ("push", "push_within_capacity") and len(at) == 2:
                    canonical(vals, at[1], bad, nm)
                elif nm == "insert" and len(at) == 3:
                    canonical(vals, at[2], bad, nm)
                elif nm in ("resize", "fill") and len(at) >= 2:
                    canonical(vals, at[-1], bad, nm)
                elif nm in ("extend", "extend_from_slice", "append", "clone_from_slice", "clone_from") and len(at) == 2:
                    canonical_items(vals, at[1], bad, nm)
                elif nm == "splice" and len(at) == 3:
                    canonical_items(vals, at[2], bad, nm)
                else:
                    bad.append("unrecognised way of putting blocks into a vector: %s" % short(c.res or nm))
                continue
            if std and a0ty and not a0proj and elem_mut.match(a0ty) and nm in ("replace", "swap", "write", "clone_from", "clone_into"):
                nsites += 1
                for x in (at[1:] if nm != "swap" else at):
                    canonical(vals, x, bad, nm)
                continue
            if std and vec_ty.match(dty) and not dty.startswith("&"):
                # a vector of blocks comes into being
                if nm in ("new", "with_capacity", "box_assume_init_into_vec_unsafe", "default"):
                    continue
                nsites += 1
                if nm in ("collect", "from_iter") and at:
                    canonical_items(vals, at[0], bad, "collected")
                elif nm == "from_elem" and at:
                    canonical(vals, at[0], bad, nm)
                elif at and nm in ("into", "from", "to_vec", "clone", "to_owned", "into_vec", "unwrap", "expect", "unwrap_or_default", "take", "replace", "concat"):
                    if not vals.from_collection(at[0], trusted):
                        canonical_items(vals, at[0], bad, "copied")
                else:
                    bad.append("unrecognised source of a vector of blocks: %s" % short(c.res or nm))
        # stores through a reference / an index into a vector or a slice
        for bi, blk in enumerate(b.blocks):
            if blk.get("cleanup"):
                continue
            for st in blk["stmts"]:
                if st["s"] != "assign" or not st["pl"]["p"]:
                    continue
                projs = st["pl"]["p"]
                if not any(p[0] in ("d", "i", "ci") for p in projs):
                    continue
                rv = st["rv"]
                vty = None
                if rv["r"] == "use":
                    vty, proj = _op_local_ty(b, rv["op"])
                    if vty is None or proj:
                        vty = None
                base_ty = b.local_ty(st["pl"]["l"])
                is_array = rv["r"] == "agg" and rv.get("ak") == "array"
                if vty is not None:
                    if not re.match(r"^%s$" % bt, vty):
                        continue
                elif is_array:
                    if not re.search(r"\[%s; \d+\]" % bt, base_ty):
                        continue
                elif not (re.search(r"&mut %s\b" % bt, base_ty) or re.search(r"Vec<%s>" % bt, base_ty) or re.search(r"\[%s[\];]" % bt, base_ty)):
                    continue
                nsites += 1
                t = strip_deep(s.rvalue(rv))
                if is_array:
                    for _, v in t[3]:
                        canonical(vals, v, bad, "array element")
                else:
                    canonical(vals, t, bad, "store")
        if nsites:
            r = per_root.setdefault(root_fn(f, n), [0, [], b if root_fn(f, n) == n else None])
            r[0] += nsites
            r[1] += bad
    total = 0
    for root, (nsites, bad, rb) in sorted(per_root.items()):
        ctx.saw_fn(root)
        total += nsites
        rb = rb or f.body(root)
        ctx.ob("R-FLOW", "%s:stored-blocks-canonical" % short(root), not bad,
               "every block %s puts into a vector of blocks is re-created with Block::new (canonical form), is the merge "
               "Block::sum, or is copied from a collection that is canonical already" % short(root),
               where=rb.loc if rb is not None else None, detail=bad or None)
    for fn in ("<%sOwnedChain<T> as std::iter::FromIterator<T>>::from_iter" % CH, CH + "Chain::<T>::trim", CH + "Chain::<T>::difference"):
        if f.body(fn) is None:
            ctx.missing("R-FLOW", short(fn), fn)
    ctx.floor("R-FLOW", "push sites in chain producers", total, 8)
    subs = [(n, b) for n, b in sorted(f.bodies.items())
            if n == CH + "Block::sum" or re.search(r" as repository::resources::chain::Block>::sum$", n)]
    for n, sb in subs:
        vals = Vals.of(f, sb)
        bad = []
        rets = vals.returned(sb)
        for t in rets:
            for a in vals.alts(t):
                a = strip_deep(a)
                if a[0] == "agg" and a[1] == _OPTION and a[2] == "None":
                    continue
                if a[0] == "agg" and a[1] == _OPTION and a[2] == "Some" and all(_block_call(strip_deep(x), "new") for x in
                                                                                   vals.alts(dict(a[3]).get("0", ("unknown", "?")))):
                    continue
                bad.append(render(a)[:200])
        ctx.ob("R-FLOW", "%s:canonical" % short(n), bool(rets) and not bad, "%s builds its result with Block::new" % short(n),
               where=sb.loc, detail=bad or [render(t)[:120] for t in rets])


# ---------------------------------------------------------------------------------------------
# Boolean tests of a function together with its closures, read in the function's own vocabulary

_OPT_PAYLOAD_COMBINATORS = {"map", "and_then", "filter", "is_some_and", "is_none_or", "map_or", "map_or_else", "take_if", "inspect",
                            "is_ok_and", "is_err_and", "xor"}
_TWO_ELEMS = {"sort_by", "sort_unstable_by", "max_by", "min_by", "is_sorted_by", "dedup_by", "partial_cmp_by", "cmp_by", "eq_by"}
_ACC_ELEM = {"fold", "try_fold", "rfold", "try_rfold", "scan"}


def closure_binding(f, cb, prefer=None):
    """(resolver of the creating body, substitution) that reads closure body `cb` where it is created: captures are the
    captured values; the parameter is what the receiving std combinator passes (its documented contract)."""
    cv = Vals.of(f, cb)
    pv, ct = cv.creator(prefer)
    if pv is None:
        return None, None
    pb = pv.body
    args = []
    for c in pb.calls():
        if pb.is_cleanup(c.bb) or not c.is_static:
            continue
        at = [strip_deep(pv.sym.operand(x)) for x in c.args]
        idx = [i for i, x in enumerate(at) if x[0] == "closure" and x[1] == cb.name]
        if not idx:
            continue
        i = idx[0]
        if i == 0 or c.krate not in ("core", "alloc", "std"):
            break
        recv = at[0]
        fn = c.fn or ""
        nm = c.name or ""
        if "option::Option" in fn or "result::Result" in fn:
            if nm in _OPT_PAYLOAD_COMBINATORS and i == len(at) - 1:
                var = "Ok" if "result::Result" in fn else "Some"
                args = [("field", ("variant", recv, var), "0", None)]
        else:
            es = pv.elems(recv)
            e = es[0] if es else None
            if e is not None:
                if nm in _TWO_ELEMS:
                    args = [e, e]
                elif nm in _ACC_ELEM:
                    args = [None, e]
                else:
                    args = [e]
        break
    _, m = pv.closure_mapping(ct, args)
    return pv, m


def lift(f, body, t, parents=None):
    """A term of `body` (a closure nested anywhere below a function) in the vocabulary of that function.
    parents: {closure def: creating body} where the caller knows it."""
    cur = body
    for _ in range(6):
        if "{closure" not in cur.name:
            break
        pv, m = closure_binding(f, cur, (parents or {}).get(cur.name))
        if pv is None:
            break
        t = strip_deep(_subst(_seal(t), m or {}))
        cur = pv.body
    return cur, t


def family_bodies(f, root):
    """The function and every closure created (transitively) in it — also closures of helpers folded into it."""
    rb = f.body(root)
    out, parents = [], {}
    work = [rb] if rb is not None else []
    seen = set()
    while work:
        b = work.pop(0)
        if b.name in seen:
            continue
        seen.add(b.name)
        out.append(b)
        for bi, l, cdef, st in b.closures_created():
            cb = f.body(cdef)
            if cb is not None and cdef not in seen:
                parents.setdefault(cdef, b)
                work.append(cb)
    for n in sorted(f.children(root)):
        cb = f.body(n)
        if cb is not None and n not in seen:
            seen.add(n)
            out.append(cb)
    return out, parents


def bool_leaves(t):
    """Comparison / predicate leaves of a boolean term (through !, &, |)."""
    from engine import orderlogic as OL
    t = strip_deep(t)
    if t[0] == "un" and t[1] == "Not":
        yield from bool_leaves(t[2])
    elif t[0] == "bin" and t[1] in ("BitAnd", "BitOr", "BitXor"):
        yield from bool_leaves(t[2])
        yield from bool_leaves(t[3])
    else:
        a = OL.atom(t)
        while a[0] == "not":
            a = a[1]
        yield a


def family_tests(f, root):
    """[(owner body, where, atom)] — every comparison the function `root` or one of its closures branches on or returns;
    a three-way comparison that is matched on reads ('cmp', 'cmp', a, b)."""
    out = []
    rb = f.body(root)
    bodies, parents = family_bodies(f, root)
    for b in bodies:
        if is_derived(b):
            continue
        s = K.sym_of(b)
        terms = []
        for bi, blk in enumerate(b.blocks):
            if blk.get("cleanup"):
                continue
            t = blk["term"]
            if t["t"] == "switch":
                d = strip_deep(s.operand(t["discr"]))
                if t.get("dty") == "bool":
                    terms.append((bi, d))
                elif d[0] == "discr":
                    inner = strip_deep(d[1])
                    if inner[0] == "call" and _info(inner).get("name") in ("cmp", "partial_cmp") and len(inner[2]) == 2:
                        terms.append((bi, ("call", inner[1], inner[2], inner[3])))
            is_bool = b.ret_ty == "bool"
            for st in blk["stmts"]:
                if is_bool and st["s"] == "assign" and st["pl"]["l"] == 0 and not st["pl"]["p"]:
                    terms.append((bi, strip_deep(s.rvalue(st["rv"]))))
            if is_bool and t["t"] == "call" and t["dest"]["l"] == 0 and not t["dest"]["p"]:
                terms.append((bi, strip_deep(s.call(t, bi))))
        for bi, t in terms:
            owner, lt = (b, t) if b is rb else lift(f, b, t, parents)
            if owner is not rb:
                owner, lt = b, t                # could not be read at the function's level: judged where it stands
            if lt[0] == "call" and _info(lt).get("name") in ("cmp", "partial_cmp") and len(lt[2]) == 2 and \
                    ((_info(lt).get("trait") or "").split("::")[-1] in ("Ord", "PartialOrd")):
                out.append((owner, b.where(bi), ("cmp", "cmp", strip_deep(lt[2][0]), strip_deep(lt[2][1]))))
                continue
            for a in bool_leaves(lt):
                out.append((owner, b.where(bi), a))
    return out


def _bound_owner(owner_body, t, want):
    """The block (α-rendered) whose lower (`want` = 'L') / upper ('U') bound the term is, or None."""
    t = strip_deep(t)
    if t[0] == "agg" and t[1] == _OPTION and t[2] == "Some":
        t = strip_deep(dict(t[3]).get("0", ("unknown", "?")))
    if t[0] == "field" and str(t[2]) == "0" and strip_deep(t[1])[0] == "variant":
        inner = strip_deep(strip_deep(t[1])[1])
        if inner[0] == "call" and _block_call(inner, "next", "previous"):
            return None
    if _block_call(t, "min" if want == "L" else "max") and t[2]:
        return K.alpha(render(t[2][0]), owner_body)
    if t[0] == "field" and str(t[2]) == ("0" if want == "L" else "1") and bound_kind(K.sym_of(owner_body), t) == want:
        base = strip_deep(t[1])
        if _block_call(base, "bounds") and base[2]:
            return K.alpha(render(base[2][0]), owner_body)
        return K.alpha(render(base), owner_body)
    return None


def check_adjacency_implies_overlap(ctx, f):
    """Contradiction rule, per test: code that asks "does B start right after A ends" (`next(A.max) == Some(B.min)` or
    `previous(B.min) == Some(A.max)`, the stepped value possibly kept in a local) believes blocks may touch — then they
    may also overlap, and the same function must compare B's lower with A's upper bound by order (or ask
    Block::intersects about the two)."""
    nadj = 0
    roots = sorted({root_fn(f, n) for n, b in f.bodies.items()
                    if b.file.endswith("resources/chain.rs") and not is_derived(b) and "::test" not in n})
    for root in roots:
        rb = f.body(root)
        if rb is None:
            continue
        adjacency, ordering = [], []
        tests = family_tests(f, root)
        for owner, where, a in tests:
            if a[0] != "cmp":
                continue
            vals = Vals.of(f, owner)
            if a[1] in ("==", "!="):
                for stepped, other in ((a[2], a[3]), (a[3], a[2])):
                    As, Bs, found = set(), set(), False
                    for alt in vals.alts(stepped):
                        for x in walk(alt):
                            if _block_call(x, "next") and x[2]:
                                found = True
                                As.add(_bound_owner(owner, x[2][0], "U"))
                            elif _block_call(x, "previous") and x[2]:
                                found = True
                                Bs.add(_bound_owner(owner, x[2][0], "L"))
                    if not found:
                        continue
                    for alt in vals.alts(other):
                        (Bs if As else As).add(_bound_owner(owner, alt, "L" if As else "U"))
                    adjacency.append((where, K.alpha(render(a[2]), owner)[:80] + " == " + K.alpha(render(a[3]), owner)[:80], As, Bs))
                    break
            else:
                ka, kb = bound_kind(vals.sym, a[2]), bound_kind(vals.sym, a[3])
                if {ka, kb} == {"L", "U"}:
                    lo, hi = (a[2], a[3]) if ka == "L" else (a[3], a[2])
                    ordering.append((where, _bound_owner(owner, lo, "L"), _bound_owner(owner, hi, "U")))
        if not adjacency:
            continue
        asked = []          # argument pairs of Block::intersects calls
        for nb in family_bodies(f, root)[0]:
            for c in nb.calls():
                if not nb.is_cleanup(c.bb) and c.name == "intersects" and (c.trait or "").endswith("chain::Block"):
                    asked.append({K.alpha(render(x), nb) for x in K.arg_terms(c)[:2]})
        nadj += 1
        seen = set()
        for where, text, As, Bs in adjacency:
            if text in seen:
                continue
            seen.add(text)
            if None in As or None in Bs or not As or not Bs:
                # whose bounds these are cannot be told: the function as a whole must compare a lower with an upper bound
                ok = bool(ordering) or bool(asked)
            else:
                ok = any(lo in Bs and hi in As for _, lo, hi in ordering) or any(q & As and q & Bs for q in asked)
            ctx.ob("R-SIB", "%s:adjacency-implies-overlap-test[%s]" % (short(root), text[:100]), ok,
                   "%s merges blocks on adjacency (next(max) == min) and also compares that lower against that upper bound by "
                   "order (or asks Block::intersects), so overlapping neighbours are merged too" % short(root), where=where,
                   detail={"after": sorted(map(str, As)), "block": sorted(map(str, Bs)),
                           "ordering_tests": [list(map(str, o)) for o in ordering], "intersects": [sorted(q) for q in asked]})
    ctx.floor("R-SIB", "functions merging on adjacency in chain.rs", nadj, 3)


_UNTRUSTED_SOURCES = {"from_str", "take_from", "parse", "from_str_radix", "take_opt_from", "from_v4_str", "from_v6_str"}
_MONOTONE = re.compile(r"^((in)?to_[ui]\d+|to_bits|as_[ui]\d+|into_inner|get)$")


def ident(t):
    """Identity of a value: its rendering plus the program points of the calls in it (two calls of one parser with the same
    arguments render alike but are different values)."""
    t = strip_deep(t)
    return (render(t), tuple(x[3].get("bb") for x in walk(t) if x[0] == "call" and isinstance(x[3], dict)))


def order_core(t):
    """The value under order-preserving conversions (`.0` of a newtype, `into_u32()`, widening casts)."""
    t = strip_deep(t)
    while True:
        if t[0] == "cast":
            t = strip_deep(t[1])
        elif t[0] == "call" and len(t[2]) == 1 and _MONOTONE.match(_info(t).get("name") or ""):
            t = strip_deep(t[2][0])
        elif t[0] == "field" and str(t[2]) == "0" and strip_deep(t[1])[0] not in ("variant", "agg") and len(t) > 3 and t[3] and \
                not str(t[3]).startswith("("):
            t = strip_deep(t[1])
        else:
            return t


def ordered_edges(body, lo, hi):
    """Edges of `body` on which `lo <= hi` is established, whatever the test is called: any of the six comparison
    operators in either operand order and either polarity, or the arms of a three-way comparison."""
    from engine import orderlogic as OL
    sym = K.sym_of(body)
    klo, khi = ident(order_core(lo)), ident(order_core(hi))
    if klo == khi:
        return set()
    # for operands (lo, hi): the operator outcomes that imply lo <= hi
    straight = {("<=", True), ("<", True), ("==", True), (">", False), (">=", False), ("!=", False)}
    flipped = {(">=", True), (">", True), ("==", True), ("<", False), ("<=", False), ("!=", False)}
    edges = set()
    for bi, blk in enumerate(body.blocks):
        t = blk["term"]
        if t["t"] != "switch" or blk.get("cleanup"):
            continue
        d = strip_deep(sym.operand(t["discr"]))
        if t.get("dty") == "bool":
            e = switch_bool_edges(body, bi)
            if e is None:
                continue
            a, truth = OL.atom(d), True
            while a[0] == "not":
                a, truth = a[1], not truth
            if a[0] != "cmp":
                continue
            kx, ky = ident(order_core(a[2])), ident(order_core(a[3]))
            table = straight if (kx, ky) == (klo, khi) else flipped if (kx, ky) == (khi, klo) else None
            if table is None:
                continue
            for val, tb in ((True, e[1]), (False, e[0])):
                if (a[1], val == truth) in table:
                    edges.add((bi, tb))
        elif d[0] == "discr":
            c = strip_deep(d[1])
            if not (c[0] == "call" and _info(c).get("name") in ("cmp", "partial_cmp") and len(c[2]) == 2):
                continue
            kx, ky = ident(order_core(c[2][0])), ident(order_core(c[2][1]))
            if (kx, ky) == (klo, khi):
                good = {"L", "E"}
            elif (kx, ky) == (khi, klo):
                good = {"G", "E"}
            else:
                continue
            name = {255: "L", -1: "L", 0: "E", 1: "G"}
            listed = {name.get(v) for v, _ in t["targets"]}
            for v, tb in body.switch_edges(bi):
                outs = {name.get(v)} if v is not None else {"L", "E", "G"} - listed
                if outs and outs <= good:
                    edges.add((bi, tb))
    return edges


def check_ranges(ctx, f):
    from engine import orderlogic as OL
    specs = [("repository::resources::ipres::AddressRange", "min", "max"), ("repository::resources::asres::AsRange", "min", "max")]
    n = 0
    for adt, lo_f, hi_f in specs:
        sites = []
        for bd, bi, si, st in aggregates_of(f, adt):
            if is_derived(bd) or bd.is_cleanup(bi):
                continue
            t = K.sym_of(bd).rvalue(st["rv"])
            flds = dict(t[3])
            sites.append((bd, bi, bd.where(bi, si), strip_deep(flds[lo_f]), strip_deep(flds[hi_f])))
        for c in calls_to(f, lambda c: c.res == adt + "::new"):
            if c.body.is_cleanup(c.bb):
                continue
            a = K.arg_terms(c)
            sites.append((c.body, c.bb, c.where(), a[0], a[1]))
        for bd, bb, where, lo, hi in sites:
            # a construction inside a closure is read where the closure is handed to its combinator
            gate = None
            if "{closure" in bd.name:
                pv, m = closure_binding(f, bd)
                owner, lo2 = lift(f, bd, lo)
                owner2, hi2 = lift(f, bd, hi)
                if pv is not None and owner is owner2 and owner is pv.body and "{closure" not in owner.name:
                    for c in owner.calls():
                        if owner.is_cleanup(c.bb) or not c.is_static:
                            continue
                        at = K.arg_terms(c)
                        if any(x[0] == "closure" and x[1] == bd.name for x in at):
                            gate = (c, at)
                    if gate is not None:
                        bd, bb, lo, hi = owner, gate[0].bb, lo2, hi2

            def srcs(t):
                return {(render(x), x[3].get("bb")) for x in walk(t) if x[0] == "call" and x[3].get("name") in _UNTRUSTED_SOURCES}
            slo, shi = srcs(lo), srcs(hi)
            if not (slo | shi):
                continue
            if slo == shi and len(slo) == 1:
                continue        # both bounds computed from one parsed value (single address / prefix)
            n += 1
            rlo, rhi = render(lo), render(hi)
            edges = ordered_edges(bd, lo, hi)
            ok = bool(edges) and bb not in bd.reachable(0, removed_edges=edges)
            if not ok and gate is not None and gate[0].name == "then" and gate[1]:
                # `(lo <= hi).then(|| Range { .. })`: the closure runs only when the receiver is true
                a, truth = OL.atom(gate[1][0]), True
                while a[0] == "not":
                    a, truth = a[1], not truth
                if a[0] == "cmp":
                    pair = (ident(order_core(a[2])), ident(order_core(a[3])))
                    klo, khi = ident(order_core(lo)), ident(order_core(hi))
                    ok = klo != khi and ((pair == (klo, khi) and (a[1], truth) in (("<=", True), ("<", True), (">", False), (">=", False))) or
                                         (pair == (khi, klo) and (a[1], truth) in ((">=", True), (">", True), ("<", False), ("<=", False))))
            ctx.ob("R-GRD", "%s:min<=max[%s]" % (short(root_fn(f, bd.name)), short(adt).split("::")[-1]), ok,
                   "%s builds a %s from parsed/decoded bounds only behind a lower ≤ upper test" % (short(root_fn(f, bd.name)), short(adt)),
                   where=where, detail={"min": rlo, "max": rhi})
    ctx.floor("R-GRD", "range constructions from untrusted input", n, 7)


def check_apply_to(ctx, f):
    fn = "ca::provisioning::RequestResourceLimit::apply_to"
    b = f.body(fn)
    if b is None:
        return ctx.missing("R-GRD", "RequestResourceLimit::apply_to", fn)
    ctx.saw_fn(fn)
    oc = outcome(b)
    s = oc.sym
    news = [c for c in b.calls() if c.res == "repository::resources::set::ResourceSet::new"]
    if len(news) != 1:
        return ctx.ob("R-FLOW", "apply_to:result", False, "exactly one ResourceSet::new expected", where=b.loc)
    args = K.arg_terms(news[0])
    fams = ["asn", "ipv4", "ipv6"]
    from engine.rules import variant_edge
    vals_of = Vals.of(f, b)
    for fam, a in zip(fams, args):
        own_rx = r"^(ResourceSet::%s\(set\)|set\.%s)$" % (fam, fam)
        lim_rx = r"^self\.%s↓Some\.0$" % fam
        alts = [render(strip_deep(x)) for x in vals_of.alts(a)]
        detail = list(alts)
        ok = any(re.match(own_rx, r) for r in alts) and any(re.match(lim_rx, r) for r in alts) and \
            all(re.match(own_rx, r) or re.match(lim_rx, r) for r in alts)
        g = pred_matcher(r"(AsBlocks|IpBlocks)::contains$", (own_rx, lim_rx))
        none_a = pred_matcher(r"Option::is_none$", (r"^self\.%s$" % fam,))
        none_b = pred_matcher(r"Option::is_some$", (r"^self\.%s$" % fam,), positive=False)
        edges = set()
        for bi, blk in enumerate(b.blocks):
            if blk["term"]["t"] != "switch" or blk.get("cleanup"):
                continue
            e = guard_edges(b, s, bi, g)
            if e:
                edges.update(e)
                fe = switch_bool_edges(b, bi)
                false_t = fe[0] if e[0][1] == fe[1] else fe[1]
                if false_t in oc.success_reach():
                    ok = False
                    detail.append("limit not contained → still succeeds")
            # no limit for this family: nothing to test on this path
            for e2 in (variant_edge(b, s, bi, r"^self\.%s$" % fam, 0), guard_edges(b, s, bi, none_a), guard_edges(b, s, bi, none_b)):
                if e2:
                    edges.update(e2)
        # the set is put together only after, for this family, the limit was found contained or found absent
        if not any(guard_edges(b, s, bi, g) for bi, blk in enumerate(b.blocks) if blk["term"]["t"] == "switch" and not blk.get("cleanup")) \
                or news[0].bb in b.reachable(0, removed_edges=edges):
            ok = False
            detail.append("limit returned without the containment test")
        ctx.ob("R-GRD", "apply_to:%s" % fam, ok,
               "apply_to returns the %s limit only if the set's %s resources contain it, else the set's own; a limit "
               "outside the set is an error" % (fam, fam), where=b.loc, detail=detail)


def check_resource_set(ctx, f):
    RS = "repository::resources::set::ResourceSet::"
    want = {
        "union": {"asn": ("union", "self.asn", "other.asn"), "ipv4": ("union", "self.ipv4", "other.ipv4"), "ipv6": ("union", "self.ipv6", "other.ipv6")},
        "intersection": {"asn": ("intersection", "self.asn", "other.asn"), "ipv4": ("intersection", "self.ipv4", "other.ipv4"),
                         "ipv6": ("intersection", "self.ipv6", "other.ipv6")},
    }
    for meth, spec in want.items():
        b = f.body(RS + meth)
        if b is None:
            ctx.missing("R-FLOW", "ResourceSet::" + meth, RS + meth)
            continue
        ctx.saw_fn(b.name)
        RSADT = "repository::resources::set::ResourceSet"
        built = []          # {field: term} for each way the result is put together here: a literal or the constructor
        for bd, bi, si, st in aggregates_of(f, RSADT):
            if bd is b and not b.is_cleanup(bi):
                built.append({k: strip_deep(v) for k, v in K.sym_of(bd).rvalue(st["rv"])[3]})
        nb = f.body(RS + "new")
        slots = None
        if nb is not None:
            for bd, bi, si, st in aggregates_of(f, RSADT):
                if bd is nb:
                    slots = {k: render(strip_deep(v)) for k, v in K.sym_of(nb).rvalue(st["rv"])[3]}
        for c in b.calls():
            if c.res == RS + "new" and not b.is_cleanup(c.bb) and slots:
                at = K.arg_terms(c)
                params = {nb.local_name(i + 1): at[i] for i in range(min(nb.arg_count, len(at)))}
                if all(v in params for v in slots.values()):
                    built.append({k: params[v] for k, v in slots.items()})
        ok = False
        detail = None

        def fam_of(t, who):
            """`who.asn` / `who.asn()` -> 'asn'"""
            r = render(strip_deep(t))
            m2 = re.match(r"^(?:ResourceSet::(\w+)\((\w+)\)|(\w+)\.(\w+))$", r)
            if not m2:
                return None
            fam, base = (m2.group(1), m2.group(2)) if m2.group(1) else (m2.group(4), m2.group(3))
            return fam if base == who else None
        for flds in built:
            detail = {k: render(v) for k, v in flds.items()}
            ok = True
            for fld, (op, a1, a2) in spec.items():
                t = flds.get(fld)
                if t is None or t[0] != "call" or _info(t).get("name") != op or len(t[2]) != 2:
                    ok = False
                    continue
                x, y = t[2]
                if not ((fam_of(x, "self") == fld and fam_of(y, "other") == fld) or (fam_of(x, "other") == fld and fam_of(y, "self") == fld)):
                    ok = False
            if not ok:
                break
        ctx.ob("R-FLOW", "ResourceSet::%s:like-fields" % meth, ok,
               "ResourceSet::%s combines asn with asn, ipv4 with ipv4, ipv6 with ipv6" % meth, where=b.loc, detail=detail)
    b = f.body(RS + "contains")
    if b is not None:
        ctx.saw_fn(b.name)
        pairs = set()
        for c in b.calls():
            if c.name == "contains" and not b.is_cleanup(c.bb):
                a = K.arg_renders(c)
                pairs.add((a[0], re.sub(r"^ResourceSet::(\w+)\((\w+)\)$", r"\2.\1", a[1])))
        ok = pairs == {("self.asn", "other.asn"), ("self.ipv4", "other.ipv4"), ("self.ipv6", "other.ipv6")}
        ctx.ob("R-FLOW", "ResourceSet::contains:like-fields", ok,
               "ResourceSet::contains tests each family of self against the same family of other", where=b.loc, detail=sorted(pairs))
        # conjunction: true only if all three hold
        for fam in ("asn", "ipv4", "ipv6"):
            g = pred_matcher(r"::contains$", (r"^self\.%s$" % fam, r"^(other\.%s|ResourceSet::%s\(other\))$" % (fam, fam)))

            def rg(t, fam=fam):
                if t[0] != "call" or t[3].get("name") != "contains":
                    return False
                a = [render(x) for x in t[2]]
                return a[0] == "self." + fam and a[1] in ("other." + fam, "ResourceSet::%s(other)" % fam)
            mp = MustPass(f, lambda c: False, guard_fn=lambda bd, s_, bb, g=g: guard_edges(bd, s_, bb, g), name=fam, ret_guard=rg)
            okf = mp.holds(b.name)
            ctx.ob("R-GRD", "ResourceSet::contains:requires-%s" % fam, okf,
                   "ResourceSet::contains is true only if the %s resources are contained" % fam, where=b.loc,
                   detail=None if okf else K.why(f, mp, b.name))


# ---------------------------------------------------------------------------------------------
# C03.g / C03.h — interval discipline in the chain algorithms

def bound_kind(sym, t, depth=0):
    """'L' (a lower bound / first item), 'U' (an upper bound / last item) or None for a compared quantity."""
    t = strip_deep(t)
    if depth > 6:
        return None
    if t[0] == "call":
        m = t[3] or {}
        nm = m.get("name")
        own = m.get("krate") == "rpki"
        if own and nm == "min":
            return "L"
        if own and nm == "max":
            return "U"
        if nm in ("unwrap", "expect") and t[2]:
            inner = strip_deep(t[2][0])
            if inner[0] == "call" and (inner[3] or {}).get("krate") == "rpki" and inner[2]:
                k = bound_kind(sym, inner[2][0], depth + 1)
                if (inner[3] or {}).get("name") == "next" and k == "U":
                    return "L"          # the first item after a block
                if (inner[3] or {}).get("name") == "previous" and k == "L":
                    return "U"          # the last item before a block
        if not own and nm in ("max", "min") and len(t[2]) == 2:
            ks = {bound_kind(sym, a, depth + 1) for a in t[2]}
            if ks == {"L"} or ks == {"U"}:
                return ks.pop()
        return None
    if t[0] == "field" and t[2] in ("0", "1"):
        base = strip_deep(t[1])
        # (min, max) pairs: Block::bounds(), RoaIpAddress::range(), Prefix::range()
        probe = base
        if probe[0] == "variant":
            probe = strip_deep(probe[1])
        txt = render(probe)
        if re.search(r"(fn:Block::bounds|::bounds\(|::range\()", txt):
            return "L" if t[2] == "0" else "U"
        if base[0] in ("var", "mvar"):
            defs = []
            for _, d0 in sym.defs_of_var(base[2]):
                for d in expand(sym, d0, 4):
                    d = strip_deep(d)
                    # Option<(min, max)>: look through Some(..)
                    while d[0] == "field" and d[2] == "0" and strip_deep(d[1])[0] == "variant" and strip_deep(strip_deep(d[1])[1])[0] == "agg":
                        inner = strip_deep(strip_deep(d[1])[1])
                        hit = [v for f_, v in inner[3] if f_ in ("0", 0)]
                        if not hit:
                            break
                        d = strip_deep(hit[0])
                    defs.append(d)
            ok = bool(defs)
            for d in defs:
                pair = None
                if d[0] == "agg" and d[1] == "tuple" and len(d[3]) == 2:
                    pair = (sym, d[3][0][1], d[3][1][1])
                else:
                    # `iter.next().map(|item| (item.min(), item.max())).unwrap()`: look into the mapping closure
                    for x in walk(d):
                        if x[0] == "closure" and sym.body.facts is not None and sym.body.facts.body(x[1]) is not None:
                            cb = sym.body.facts.body(x[1])
                            cs = K.sym_of(cb)
                            for blk in cb.blocks:
                                for st in blk["stmts"]:
                                    if st["s"] == "assign" and st["pl"]["l"] == 0 and not st["pl"]["p"]:
                                        r = strip_deep(cs.rvalue(st["rv"]))
                                        if r[0] == "agg" and r[1] == "tuple" and len(r[3]) == 2:
                                            pair = (cs, r[3][0][1], r[3][1][1])
                if pair is not None:
                    k0 = bound_kind(pair[0], pair[1], depth + 1)
                    k1 = bound_kind(pair[0], pair[2], depth + 1)
                    # the second component may be carried over from the pair itself
                    if k0 == "L" and (k1 == "U" or render(strip_deep(pair[2])).endswith(".1")):
                        continue
                ok = False
            if ok:
                return "L" if t[2] == "0" else "U"
    return None


ALLOWED_MIXED = {("U", "<", "L"), ("U", ">=", "L"), ("L", ">", "U"), ("L", "<=", "U")}


def check_interval_discipline(ctx, f):
    from engine import orderlogic as OL
    # ---- C03.g a merge only ever raises the upper bound ----------------------------------------
    n_ext = 0

    def lo_parts(b, t):
        """[(block, [spellings of that block's upper bound])] for a term that is the lower bound of one block, or the least
        of several blocks' lower bounds; None for anything else."""
        t = strip_deep(t)
        if _block_call(t, "min") and t[2]:
            e = K.alpha(render(t[2][0]), b)
            return [(e, ["Block::max(%s)" % e, "Block::bounds(%s).1" % e])]
        if t[0] == "field" and str(t[2]) == "0" and bound_kind(K.sym_of(b), t) == "L":
            base = strip_deep(t[1])
            pr = K.alpha(render(base), b)
            if _block_call(base, "bounds") and base[2]:
                e = K.alpha(render(base[2][0]), b)
                return [(e, ["Block::max(%s)" % e, pr + ".1"])]
            return [(pr, [pr + ".1"])]
        if t[0] == "call" and _is_std(t) and _info(t).get("name") == "min" and len(t[2]) == 2:
            x, y = lo_parts(b, t[2][0]), lo_parts(b, t[2][1])
            return x + y if x is not None and y is not None else None
        return None

    def hi_parts(b, t):
        """([(block, text of its upper bound)], is a maximum of several) for an upper-bound term."""
        t = strip_deep(t)
        if _block_call(t, "max") and t[2]:
            return [(K.alpha(render(t[2][0]), b), K.alpha(render(t), b))], False
        if t[0] == "field" and str(t[2]) == "1" and bound_kind(K.sym_of(b), t) == "U":
            base = strip_deep(t[1])
            own = K.alpha(render(base[2][0]), b) if _block_call(base, "bounds") and base[2] else K.alpha(render(base), b)
            return [(own, K.alpha(render(t), b))], False
        if t[0] == "call" and _is_std(t) and _info(t).get("name") == "max" and len(t[2]) == 2:
            x, y = hi_parts(b, t[2][0]), hi_parts(b, t[2][1])
            return (x[0] + y[0], True) if x is not None and y is not None else None
        return None
    for c in calls_to(f, lambda c: c.name == "new" and (c.trait or "").endswith("chain::Block")):
        b = c.body
        if b.is_cleanup(c.bb) or is_derived(b) or "::test" in b.name or not b.file.endswith("resources/chain.rs"):
            continue
        at = K.arg_terms(c)[:2]
        if len(at) < 2:
            continue
        lo, hi = lo_parts(b, at[0]), hi_parts(b, at[1])
        if lo is None or hi is None:
            continue
        a0, a1 = K.alpha(render(at[0]), b), K.alpha(render(at[1]), b)
        his, is_max = hi
        if {e for e, _ in lo} == {x for x, _ in his} and len(lo) == 1:
            continue            # a copy of one block
        n_ext += 1
        guards = K.dominating_guards(f, b, c.bb)
        need = []
        ok = False
        if is_max:
            # max(…) of upper bounds: never below any of them
            have = {txt for _, txt in his}
            ok = all(any(sp in have for sp in sps) for _, sps in lo)
            need = ["the maximum includes the upper bound of %s" % e for e, sps in lo if not any(sp in have for sp in sps)]
        elif len(lo) == 1 and len(his) == 1:
            e, sps = lo[0]
            x, xhi = his[0]
            for e_hi in sps:
                need += ["%s < %s" % (e_hi, xhi), "%s <= %s" % (e_hi, xhi)]
                for x_lo in ("Block::min(%s)" % x, "%s.0" % x, "Block::bounds(%s).0" % x):
                    need.append("%s == %s" % tuple(sorted(["Block::next(%s)" % e_hi, "option::Option::Some{0: %s}" % x_lo])))
                    need.append("%s == %s" % tuple(sorted(["Block::previous(%s)" % x_lo, "option::Option::Some{0: %s}" % e_hi])))
            ok = any(g in guards for g in need)
        ctx.ob("R-GRD", "%s:merge-raises-upper[%s]" % (short(root_fn(f, b.name)), a1[:60]), ok,
               "%s replaces a stored block by (its min, another block's max) only where that max is larger than the stored one "
               "(or the other block starts right after it) — a merge never shrinks a block" % short(root_fn(f, b.name)),
               where=c.where(), detail={"new": [a0, a1], "needs_one_of": need[:6], "guards": guards})
    ctx.floor("R-GRD", "block-extending merges in chain.rs", n_ext, 3)

    # ---- C03.h inclusive bounds: an upper and a lower bound are compared strictly for disjointness ----------
    n_mixed = 0
    roots = sorted({root_fn(f, n) for n, b in f.bodies.items()
                    if not is_derived(b) and "::test" not in n and
                    (b.file.endswith("resources/chain.rs") or b.file.endswith("resources/ipres.rs") or b.file.endswith("resources/asres.rs"))})
    for root in roots:
        seen = set()
        for owner, where, a in family_tests(f, root):
            if a[0] != "cmp" or a[1] not in ("<", "<=", ">", ">="):
                continue
            s = K.sym_of(owner)
            ka, kb = bound_kind(s, a[2]), bound_kind(s, a[3])
            if not ka or not kb or ka == kb:
                continue
            key = "%s %s %s" % (K.alpha(render(a[2]), owner)[:70], a[1], K.alpha(render(a[3]), owner)[:70])
            if key in seen:
                continue
            seen.add(key)
            n_mixed += 1
            ctx.ob("R-SIB", "%s:bounds-compared[%s]" % (short(root), key), (ka, a[1], kb) in ALLOWED_MIXED,
                   "blocks are inclusive ranges: an upper and a lower bound are compared as `upper < lower` (disjoint) or "
                   "`lower <= upper` (touching counts as overlap) — %s writes %s %s %s" % (short(root), ka, a[1], kb),
                   where=where)
    ctx.floor("R-SIB", "upper/lower bound comparisons in the resource code", n_mixed, 9)
