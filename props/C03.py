"""C03 — resource sets are exact, canonical sets (structural clauses only;
DESIGN §2 C03.a–f).  The exactness of the set algebra is NOT decided."""
import re
from engine.rules import (MustPass, guard_edges, eq_matcher, pred_matcher, outcome, aggregates_of, is_derived, root_fn,
                          calls_to, success_values, bool_atom, switch_bool_edges)
from engine.sym import Sym, strip, strip_deep, render, walk, short, unmut
from props import common as K

META = {
    "level": "other",
    "technique": "static analysis of type-checked MIR (rustc_private driver): who-may-construct enumeration, contradiction rule on merge loops, guard dominance, decision of comparison-only predicates on every weak ordering, bound-kind comparison discipline",
    "explanation": "Canonical-form discipline: the invariant-establishing unsafe constructor is called only from the reviewed "
                   "sites and the chain types' fields are private; every block stored by a chain-producing function is "
                   "re-created through Block::new (canonical form) or copied from an existing chain; every normalisation "
                   "loop that merges on adjacency also handles overlap (contradiction rule); every range built from decoded "
                   "or parsed input is dominated by a lower ≤ upper guard; issuance and resource-limit results pair like "
                   "families and return the claim only behind the containment test; end-of-number-space arithmetic uses "
                   "checked operations; the four order predicates of Block (contains, intersects, is_encompassed, is_equivalent) "
                   "are decided on every weak ordering of the bounds and equal the interval definitions; a merge replaces a "
                   "stored block only by one with a larger upper bound; an upper and a lower bound are only ever compared as "
                   "`upper < lower` / `lower <= upper` (inclusive ranges).",
    "not_decided": ["exactness of trim / difference / is_encompassed / eq / contains_item as set operations (loop invariants "
                    "over runtime sequences)", "range-to-prefix decomposition", "text / serde round-trip equality"],
    "trusted_base": ["std sort_unstable_by_key", "Block::new implementations produce the canonical form of (min, max)"],
}

CH = "repository::resources::chain::"
IP = "repository::resources::ipres::"
AS = "repository::resources::asres::"


def expand(sym, t, depth=3):
    """Possible values of a term that mentions multiply-assigned locals (bounded)."""
    t = strip_deep(t)
    if depth == 0:
        return [t]
    k = t[0]
    if k == "var":
        out = []
        for _, d in sym.defs_of_var(t[2]):
            out += expand(sym, d, depth - 1)
        return out or [t]
    if k == "mvar":
        return expand(sym, t[3], depth)
    if k in ("field", "variant"):
        outs = []
        for b in expand(sym, t[1], depth):
            if k == "field" and b[0] == "agg":
                hit = [v for f_, v in b[3] if f_ == t[2]]
                outs += [strip_deep(hit[0])] if hit else [("field", b, t[2], t[3] if len(t) > 3 else None)]
            elif k == "variant" and b[0] == "agg":
                if b[2] == t[2]:
                    outs.append(("variant", b, t[2]))
                # a different variant cannot be downcast to t[2]: drop it
            elif k == "field":
                outs.append((k, b, t[2], t[3] if len(t) > 3 else None))
            else:
                outs.append((k, b, t[2]))
        return outs
    return [t]


def run(ctx):
    f = ctx.facts()
    ctx.rule("R-WHO", "construction / unsafe-call sites are exactly the confirmed ones")
    ctx.rule("R-FLOW", "operand provenance")
    ctx.rule("R-SIB", "contradiction rule: adjacency merging implies overlap handling")
    ctx.rule("R-GRD", "success requires the guard literal")
    ctx.rule("R-PANIC", "end-of-number-space arithmetic")
    ctx.rule("R-REG", "decision table of a comparison-only function equals the interval definition on every ordering")
    K.check_block_predicates(ctx, f)
    K.check_bool_table(ctx, f, "R-REG", "ca::provisioning::RequestResourceLimit::is_empty",
                       [(r"^Option::is_none\(self\.asn\)$", "asn"), (r"^Option::is_none\(self\.ipv4\)$", "v4"),
                        (r"^Option::is_none\(self\.ipv6\)$", "v6")],
                       lambda e: e["asn"] and e["v4"] and e["v6"],
                       "is true iff no component is present (an explicitly empty component still limits)")

    # ---- C03.a canonical-form discipline --------------------------------------
    OC = CH + "OwnedChain"
    uns = calls_to(f, lambda c: c.res == CH + "OwnedChain::<T>::from_vec_unchecked")
    callers = sorted({root_fn(f, c.body.name) for c in uns})
    want = sorted([CH + "Chain::<T>::trim", CH + "Chain::<T>::difference",
                   "<%sOwnedChain<T> as std::iter::FromIterator<T>>::from_iter" % CH, CH + "from_iter_unsorted",
                   IP + "IpBlocks::all", AS + "AsBlocks::all"])
    ctx.ob("R-WHO", "OwnedChain::from_vec_unchecked-callers", callers == want,
           "the unsafe chain constructor is called only from the reviewed sites (trim, difference, the two normalising "
           "collectors, and the single-block `all()` constructors)", detail={"found": callers, "reviewed": want})
    sites = sorted({root_fn(f, x[0].name) for x in aggregates_of(f, OC) if not is_derived(x[0])})
    ctx.ob("R-WHO", "OwnedChain-literal-sites", sites == sorted([CH + "OwnedChain::<T>::from_vec_unchecked", CH + "OwnedChain::<T>::empty"]),
           "OwnedChain(..) is built only in from_vec_unchecked and empty", detail=sites)
    for adt in (OC, CH + "SharedChain", IP + "IpBlocks", AS + "AsBlocks", IP + "Ipv4Blocks", IP + "Ipv6Blocks"):
        rec = f.adts.get(adt)
        if rec is None:
            ctx.missing("R-WHO", short(adt), adt)
            continue
        ctx.ob("R-WHO", "%s:fields-private" % short(adt), all(fl["vis"] != "pub" for v in rec["variants"] for fl in v["fields"]),
               "the fields of %s are private" % short(adt))
    # conversions from unchecked vectors/slices go through the normalising collector
    for fn in ("<%sOwnedChain<T> as std::convert::From<std::vec::Vec<T>>>::from" % CH,
               "<%sOwnedChain<T> as std::convert::From<&'a [T]>>::from" % CH):
        b = f.body(fn)
        if b is None:
            ctx.missing("R-FLOW", short(fn), fn)
            continue
        ctx.saw_fn(fn)
        names = {(c.trait, c.name) for c in b.calls() if c.is_static and not b.is_cleanup(c.bb)}
        ok = ("std::iter::Iterator", "collect") in names or any(n == "from_iter" for _, n in names)
        ctx.ob("R-FLOW", "%s:normalises" % short(fn), ok, "%s builds the chain with the normalising FromIterator" % short(fn),
               where=b.loc, detail=sorted(str(x) for x in names))
    for owner, blk in ((IP + "IpBlocks::all", "IpBlock::all()"), (AS + "AsBlocks::all", "AsBlock::all()")):
        b = f.body(owner)
        if b is None:
            continue
        cs = [c for c in b.calls() if (c.res or "").endswith("from_vec_unchecked")]
        alls = [c for c in b.calls() if not b.is_cleanup(c.bb) and short(c.res or "") == blk.split("(")[0]]
        others = [short(c.res or "") for c in b.calls() if not b.is_cleanup(c.bb) and c.is_static and
                  re.search(r"(Block|Range|Prefix)::(new|from)", c.res or "")]
        ctx.ob("R-FLOW", "%s:single-block" % short(owner), len(cs) == 1 and len(alls) == 1 and not others and not b.cycles_sccs(),
               "%s hands the unsafe constructor exactly one block covering everything" % short(owner), where=b.loc,
               detail={"all_calls": len(alls), "other_block_ctors": others})

    # ---- C03.b every stored block is canonicalised -----------------------------------
    producers = ["<%sOwnedChain<T> as std::iter::FromIterator<T>>::from_iter" % CH, CH + "from_iter_unsorted",
                 CH + "merge_or_add_block", CH + "Chain::<T>::trim", CH + "Chain::<T>::difference"]
    npush = 0
    for fn in producers:
        b = f.body(fn)
        if b is None:
            ctx.missing("R-FLOW", short(fn), fn)
            continue
        ctx.saw_fn(fn)
        s = K.sym_of(b)
        bad = []
        for c in b.calls():
            if b.is_cleanup(c.bb) or c.name != "push":
                continue
            npush += 1
            a = K.arg_terms(c)
            vals = expand(s, a[1])
            for v in vals:
                r = render(v)
                vv = v
                while vv[0] in ("variant", "field") and vv[1][0] == "agg":
                    inner = dict(vv[1][3])
                    vv = strip_deep(inner.get("0", ("unknown",))) if vv[0] == "variant" else vv
                    break
                r2 = render(vv)
                if not (r2.startswith("Block::new(") or re.search(r"Some\{0: Block::new\(", r2)):
                    bad.append(r)
        # stores through a reference into the result vector
        for bi, blk in enumerate(b.blocks):
            for st in blk["stmts"]:
                if st["s"] != "assign" or not st["pl"]["p"]:
                    continue
                projs = st["pl"]["p"]
                base_ty = b.local_ty(st["pl"]["l"])
                is_elem_store = (projs[-1][0] in ("d", "i") and ("&mut T" in base_ty or "Vec<T>" in base_ty or base_ty == "&mut std::vec::Vec<T>"))
                if not is_elem_store:
                    continue
                t = strip_deep(s.rvalue(st["rv"]))
                for v in expand(s, t):
                    r = render(v)
                    if not (r.startswith("Block::new(") or re.search(r"^(Block::sum|.*Block::sum\().*Some\.0$", r) or
                            re.search(r"^Index::index\(res, ", r) or re.search(r"^res\[", r) or r.startswith("IndexMut::index_mut(res") or
                            re.search(r"Index::index\(\(\*?res\)?", r)):
                        bad.append("store: " + r)
        ctx.ob("R-FLOW", "%s:stored-blocks-canonical" % short(fn), not bad,
               "every block %s stores into its result is re-created with Block::new (canonical form), the merge Block::sum, "
               "or copied from the result itself" % short(fn), where=b.loc, detail=bad or None)
    ctx.floor("R-FLOW", "push sites in chain producers", npush, 8)
    sb = f.body(CH + "Block::sum")
    if sb is not None:
        vals = [render(t) for _, _, t in success_values(sb)]
        ok = all(v == "option::Option::None{}" or v.startswith("option::Option::Some{0: Block::new(") for v in vals) and len(vals) >= 3
        ctx.ob("R-FLOW", "Block::sum:canonical", ok, "Block::sum builds its result with Block::new", where=sb.loc, detail=vals)

    # ---- C03.c overlap handled wherever adjacency is -------------------------------------
    nadj = 0
    for n, b in f.bodies.items():
        if not b.file.endswith("resources/chain.rs") or is_derived(b):
            continue
        oc = outcome(b)
        sym = oc.sym
        adjacency = []
        ordering = []
        for bi, blk in enumerate(b.blocks):
            t = blk["term"]
            if t["t"] != "switch" or blk.get("cleanup"):
                continue
            at = bool_atom(sym.operand(t["discr"])) if t.get("dty") == "bool" else None
            if not at or at[2] is None:
                continue
            rel, x, y, pos = at
            rx, ry = render(x), render(y)
            if rel == "eq" and ("Block::next(" in rx or "Block::next(" in ry or "tail_next" in rx or "tail_next" in ry):
                adjacency.append((bi, rx, ry))
            if rel in ("lt", "le", "gt", "ge") and re.search(r"Block::min\(|\.0\b|last_max|Block::max\(", rx + ry):
                ordering.append((bi, rel, rx, ry))
        if not adjacency:
            continue
        if root_fn(f, n) == CH + "Block::sum":
            # sum() tests intersects() first
            has_overlap = any(c.name == "intersects" for c in b.calls())
        else:
            has_overlap = any(("Block::min(" in rx) != ("Block::min(" in ry) for _, _, rx, ry in ordering)
        nadj += 1
        ctx.ob("R-SIB", "%s:adjacency-implies-overlap-test" % short(root_fn(f, n)), has_overlap,
               "%s merges blocks on adjacency (next(max) == min) and also compares min against the previous max by order, "
               "so overlapping neighbours are merged too" % short(root_fn(f, n)), where=b.loc,
               detail={"adjacency_tests": adjacency, "ordering_tests": ordering})
    ctx.floor("R-SIB", "functions merging on adjacency in chain.rs", nadj, 3)

    # ---- C03.d lower <= upper at untrusted constructors -----------------------------------
    check_ranges(ctx, f)
    check_interval_discipline(ctx, f)

    # ---- C03.e issuance / limit results ------------------------------------------------------
    K.check_verify_issued(ctx, f)
    check_apply_to(ctx, f)
    check_resource_set(ctx, f)

    # ---- C03.f arithmetic at the ends of the number space ------------------------------------
    for tr_impl in ("<%sAddressRange as %sBlock>" % (IP, CH), "<%sIpBlock as %sBlock>" % (IP, CH),
                    "<%sAsRange as %sBlock>" % (AS, CH), "<%sAsBlock as %sBlock>" % (AS, CH)):
        for meth, want in (("next", "checked_add"), ("previous", "checked_sub")):
            b = f.body("%s::%s" % (tr_impl, meth))
            if b is None:
                ctx.missing("R-PANIC", "%s::%s" % (short(tr_impl), meth), "%s::%s" % (tr_impl, meth))
                continue
            ctx.saw_fn(b.name)
            names = set()
            stack = [b]
            seen = set()
            while stack:
                x = stack.pop()
                if x.name in seen:
                    continue
                seen.add(x.name)
                for c in x.calls():
                    if x.is_cleanup(c.bb) or not c.is_static:
                        continue
                    names.add(c.name)
                    if c.res in f.bodies and len(seen) < 6:
                        stack.append(f.bodies[c.res])
            arith = [st for x in seen for blk in f.bodies[x].blocks for st in blk["stmts"]
                     if st["s"] == "assign" and st["rv"]["r"] == "bin" and st["rv"]["bop"] in ("AddWithOverflow", "SubWithOverflow", "Add", "Sub")]
            ctx.ob("R-PANIC", "%s::%s:checked" % (short(tr_impl), meth), want in names and not arith,
                   "%s::%s steps with %s (None at the end of the number space, no overflowing +/-)" % (short(tr_impl), meth, want),
                   where=b.loc, detail=sorted(x for x in names if x))
    ac = f.body(AS + "AsRange::asn_count")
    if ac is not None:
        paths, it, err = K.run_absint(f, ac.name, sym_names={"u32::from(self.max)": "max", "u32::from(self.min)": "min",
                                                            "Asn::into_u32(self.max)": "max", "Asn::into_u32(self.min)": "min"})
        pan = [p for p in (paths or []) if p.outcome[0] == "panic" and "Add" in p.outcome[1]]
        # the +1 overflows exactly for the full range; the subtraction underflows only for inverted ranges (C03.d)
        ctx.ob("R-PANIC", "AsRange::asn_count:full-range-overflow", not pan,
               "AsRange::asn_count cannot overflow (max − min + 1 fits u32)", where=ac.loc,
               detail=[p.describe() for p in pan][:2] or None)


def check_ranges(ctx, f):
    specs = [("repository::resources::ipres::AddressRange", "min", "max"), ("repository::resources::asres::AsRange", "min", "max")]
    n = 0
    for adt, lo_f, hi_f in specs:
        sites = []
        for bd, bi, si, st in aggregates_of(f, adt):
            if is_derived(bd):
                continue
            t = K.sym_of(bd).rvalue(st["rv"])
            flds = dict(t[3])
            sites.append((bd, bi, bd.where(bi, si), strip_deep(flds[lo_f]), strip_deep(flds[hi_f])))
        for c in calls_to(f, lambda c: c.res == adt + "::new"):
            if c.body.is_cleanup(c.bb):
                continue
            a = K.arg_terms(c)
            sites.append((c.body, c.bb, c.where(), a[0], a[1]))
        for bd, bb, where, lo, hi in sites:
            def srcs(t):
                return {(render(x), x[3].get("bb")) for x in walk(t) if x[0] == "call" and x[3].get("name") in ("from_str", "take_from")}
            slo, shi = srcs(lo), srcs(hi)
            if not (slo | shi):
                continue
            if slo == shi and len(slo) == 1:
                continue        # both bounds computed from one parsed value (single address / prefix)
            n += 1
            rlo, rhi = render(lo), render(hi)
            sym = K.sym_of(bd)
            edges = set()
            for bi, blk in enumerate(bd.blocks):
                if blk["term"]["t"] == "switch":
                    e = K.order_literal_edges(bd, sym, bi, "^" + re.escape(rlo) + "$", "^" + re.escape(rhi) + "$")
                    if e:
                        edges.update(e)
            ok = bool(edges) and bb not in bd.reachable(0, removed_edges=edges)
            ctx.ob("R-GRD", "%s:min<=max[%s]" % (short(root_fn(f, bd.name)), short(adt).split("::")[-1]), ok,
                   "%s builds a %s from parsed/decoded bounds only behind a lower ≤ upper test" % (short(root_fn(f, bd.name)), short(adt)),
                   where=where, detail={"min": rlo, "max": rhi})
    ctx.floor("R-GRD", "range constructions from untrusted input", n, 7)


def check_apply_to(ctx, f):
    fn = "ca::provisioning::RequestResourceLimit::apply_to"
    b = f.body(fn)
    if b is None:
        return ctx.missing("R-GRD", "RequestResourceLimit::apply_to", fn)
    ctx.saw_fn(fn)
    oc = outcome(b)
    s = oc.sym
    news = [c for c in b.calls() if c.res == "repository::resources::set::ResourceSet::new"]
    if len(news) != 1:
        return ctx.ob("R-FLOW", "apply_to:result", False, "exactly one ResourceSet::new expected", where=b.loc)
    args = K.arg_terms(news[0])
    fams = ["asn", "ipv4", "ipv6"]
    for fam, a in zip(fams, args):
        vals = s.defs_of_var(a[2]) if a[0] == "var" else [(news[0].bb, a)]
        ok = len(vals) == 2
        detail = []
        g = pred_matcher(r"(AsBlocks|IpBlocks)::contains$", (r"^ResourceSet::%s\(set\)$" % fam, r"^self\.%s↓Some\.0$" % fam))
        edges = set()
        for bi, blk in enumerate(b.blocks):
            if blk["term"]["t"] == "switch":
                e = guard_edges(b, s, bi, g)
                if e:
                    edges.update(e)
                    fe = switch_bool_edges(b, bi)
                    false_t = fe[0] if e[0][1] == fe[1] else fe[1]
                    if false_t in oc.success_reach():
                        ok = False
                        detail.append("limit not contained → still succeeds")
        for bb, t in vals:
            r = render(strip_deep(t))
            detail.append(r)
            if r == "ResourceSet::%s(set)" % fam:
                continue
            if r == "self.%s↓Some.0" % fam:
                if not edges or bb in b.reachable(0, removed_edges=edges):
                    ok = False
                    detail.append("limit returned without the containment test")
                continue
            ok = False
        ctx.ob("R-GRD", "apply_to:%s" % fam, ok,
               "apply_to returns the %s limit only if the set's %s resources contain it, else the set's own; a limit "
               "outside the set is an error" % (fam, fam), where=b.loc, detail=detail)


def check_resource_set(ctx, f):
    RS = "repository::resources::set::ResourceSet::"
    want = {
        "union": {"asn": ("union", "self.asn", "other.asn"), "ipv4": ("union", "self.ipv4", "other.ipv4"), "ipv6": ("union", "self.ipv6", "other.ipv6")},
        "intersection": {"asn": ("intersection", "self.asn", "other.asn"), "ipv4": ("intersection", "self.ipv4", "other.ipv4"),
                         "ipv6": ("intersection", "self.ipv6", "other.ipv6")},
    }
    for meth, spec in want.items():
        b = f.body(RS + meth)
        if b is None:
            ctx.missing("R-FLOW", "ResourceSet::" + meth, RS + meth)
            continue
        ctx.saw_fn(b.name)
        sites = [x for x in aggregates_of(f, "repository::resources::set::ResourceSet") if x[0] is b]
        ok = False
        detail = None
        for bd, bi, si, st in sites:
            t = K.sym_of(bd).rvalue(st["rv"])
            flds = {k: render(strip_deep(v)) for k, v in t[3]}
            detail = flds
            ok = True
            for fld, (op, a1, a2) in spec.items():
                r = flds.get(fld, "")
                m = re.match(r"^(?:\w+::)?(\w+)\((.+), (.+)\)$", r)
                if not (m and m.group(1) == op and {m.group(2), m.group(3)} == {a1, a2}):
                    ok = False
        ctx.ob("R-FLOW", "ResourceSet::%s:like-fields" % meth, ok,
               "ResourceSet::%s combines asn with asn, ipv4 with ipv4, ipv6 with ipv6" % meth, where=b.loc, detail=detail)
    b = f.body(RS + "contains")
    if b is not None:
        ctx.saw_fn(b.name)
        pairs = set()
        for c in b.calls():
            if c.name == "contains" and not b.is_cleanup(c.bb):
                a = K.arg_renders(c)
                pairs.add((a[0], re.sub(r"^ResourceSet::(\w+)\((\w+)\)$", r"\2.\1", a[1])))
        ok = pairs == {("self.asn", "other.asn"), ("self.ipv4", "other.ipv4"), ("self.ipv6", "other.ipv6")}
        ctx.ob("R-FLOW", "ResourceSet::contains:like-fields", ok,
               "ResourceSet::contains tests each family of self against the same family of other", where=b.loc, detail=sorted(pairs))
        # conjunction: true only if all three hold
        for fam in ("asn", "ipv4", "ipv6"):
            g = pred_matcher(r"::contains$", (r"^self\.%s$" % fam, r"^(other\.%s|ResourceSet::%s\(other\))$" % (fam, fam)))

            def rg(t, fam=fam):
                if t[0] != "call" or t[3].get("name") != "contains":
                    return False
                a = [render(x) for x in t[2]]
                return a[0] == "self." + fam and a[1] in ("other." + fam, "ResourceSet::%s(other)" % fam)
            mp = MustPass(f, lambda c: False, guard_fn=lambda bd, s_, bb, g=g: guard_edges(bd, s_, bb, g), name=fam, ret_guard=rg)
            okf = mp.holds(b.name)
            ctx.ob("R-GRD", "ResourceSet::contains:requires-%s" % fam, okf,
                   "ResourceSet::contains is true only if the %s resources are contained" % fam, where=b.loc,
                   detail=None if okf else K.why(f, mp, b.name))


# ---------------------------------------------------------------------------------------------
# C03.g / C03.h — interval discipline in the chain algorithms

def bound_kind(sym, t, depth=0):
    """'L' (a lower bound / first item), 'U' (an upper bound / last item) or None for a compared quantity."""
    t = strip_deep(t)
    if depth > 6:
        return None
    if t[0] == "call":
        m = t[3] or {}
        nm = m.get("name")
        own = m.get("krate") == "rpki"
        if own and nm == "min":
            return "L"
        if own and nm == "max":
            return "U"
        if nm in ("unwrap", "expect") and t[2]:
            inner = strip_deep(t[2][0])
            if inner[0] == "call" and (inner[3] or {}).get("krate") == "rpki" and inner[2]:
                k = bound_kind(sym, inner[2][0], depth + 1)
                if (inner[3] or {}).get("name") == "next" and k == "U":
                    return "L"          # the first item after a block
                if (inner[3] or {}).get("name") == "previous" and k == "L":
                    return "U"          # the last item before a block
        if not own and nm in ("max", "min") and len(t[2]) == 2:
            ks = {bound_kind(sym, a, depth + 1) for a in t[2]}
            if ks == {"L"} or ks == {"U"}:
                return ks.pop()
        return None
    if t[0] == "field" and t[2] in ("0", "1"):
        base = strip_deep(t[1])
        # (min, max) pairs: Block::bounds(), RoaIpAddress::range(), Prefix::range()
        probe = base
        if probe[0] == "variant":
            probe = strip_deep(probe[1])
        txt = render(probe)
        if re.search(r"(fn:Block::bounds|::bounds\(|::range\()", txt):
            return "L" if t[2] == "0" else "U"
        if base[0] in ("var", "mvar"):
            defs = []
            for _, d0 in sym.defs_of_var(base[2]):
                for d in expand(sym, d0, 4):
                    d = strip_deep(d)
                    # Option<(min, max)>: look through Some(..)
                    while d[0] == "field" and d[2] == "0" and strip_deep(d[1])[0] == "variant" and strip_deep(strip_deep(d[1])[1])[0] == "agg":
                        inner = strip_deep(strip_deep(d[1])[1])
                        hit = [v for f_, v in inner[3] if f_ in ("0", 0)]
                        if not hit:
                            break
                        d = strip_deep(hit[0])
                    defs.append(d)
            ok = bool(defs)
            for d in defs:
                pair = None
                if d[0] == "agg" and d[1] == "tuple" and len(d[3]) == 2:
                    pair = (sym, d[3][0][1], d[3][1][1])
                else:
                    # `iter.next().map(|item| (item.min(), item.max())).unwrap()`: look into the mapping closure
                    for x in walk(d):
                        if x[0] == "closure" and sym.body.facts is not None and sym.body.facts.body(x[1]) is not None:
                            cb = sym.body.facts.body(x[1])
                            cs = K.sym_of(cb)
                            for blk in cb.blocks:
                                for st in blk["stmts"]:
                                    if st["s"] == "assign" and st["pl"]["l"] == 0 and not st["pl"]["p"]:
                                        r = strip_deep(cs.rvalue(st["rv"]))
                                        if r[0] == "agg" and r[1] == "tuple" and len(r[3]) == 2:
                                            pair = (cs, r[3][0][1], r[3][1][1])
                if pair is not None:
                    k0 = bound_kind(pair[0], pair[1], depth + 1)
                    k1 = bound_kind(pair[0], pair[2], depth + 1)
                    # the second component may be carried over from the pair itself
                    if k0 == "L" and (k1 == "U" or render(strip_deep(pair[2])).endswith(".1")):
                        continue
                ok = False
            if ok:
                return "L" if t[2] == "0" else "U"
    return None


ALLOWED_MIXED = {("U", "<", "L"), ("U", ">=", "L"), ("L", ">", "U"), ("L", "<=", "U")}


def check_interval_discipline(ctx, f):
    from engine import orderlogic as OL
    # ---- C03.g a merge only ever raises the upper bound ----------------------------------------
    n_ext = 0
    for c in calls_to(f, lambda c: c.name == "new" and (c.trait or "").endswith("chain::Block")):
        b = c.body
        if b.is_cleanup(c.bb) or is_derived(b) or "::test" in b.name or not b.file.endswith("resources/chain.rs"):
            continue
        a0, a1 = [K.alpha(render(x), b) for x in K.arg_terms(c)[:2]]
        m_lo = re.match(r"^Block::min\((.+)\)$", a0)
        m_lo2 = re.match(r"^(.+bounds\)↓Some\.0)\.0$", a0)
        m_hi = re.match(r"^Block::max\((.+)\)$", a1)
        if not m_hi or not (m_lo or m_lo2):
            continue
        E_hi = "Block::max(%s)" % m_lo.group(1) if m_lo else m_lo2.group(1) + ".1"
        X = m_hi.group(1)
        if m_lo and m_lo.group(1) == X:
            continue            # a copy of one block
        n_ext += 1
        guards = K.dominating_guards(f, b, c.bb)
        g1 = "%s < %s" % (E_hi, a1)
        lhs, rhs = sorted(["Block::next(%s)" % E_hi, "option::Option::Some{0: Block::min(%s)}" % X])
        g2 = "%s == %s" % (lhs, rhs)
        ok = g1 in guards or g2 in guards
        ctx.ob("R-GRD", "%s:merge-raises-upper[%s]" % (short(root_fn(f, b.name)), a1[:60]), ok,
               "%s replaces a stored block by (its min, another block's max) only where that max is larger than the stored one "
               "(or the other block starts right after it) — a merge never shrinks a block" % short(root_fn(f, b.name)),
               where=c.where(), detail={"new": [a0, a1], "needs_one_of": [g1, g2], "guards": guards})
    ctx.floor("R-GRD", "block-extending merges in chain.rs", n_ext, 5)

    # ---- C03.h inclusive bounds: an upper and a lower bound are compared strictly for disjointness ----------
    n_mixed = 0
    for n, b in sorted(f.bodies.items()):
        if is_derived(b) or "::test" in n:
            continue
        if not (b.file.endswith("resources/chain.rs") or b.file.endswith("resources/ipres.rs") or b.file.endswith("resources/asres.rs")):
            continue
        s = K.sym_of(b)
        seen = set()

        def scan(t, where):
            nonlocal n_mixed
            a = OL.atom(t)
            neg = False
            while a[0] == "not":
                a, neg = a[1], not neg
            if a[0] != "cmp" or a[1] not in ("<", "<=", ">", ">="):
                return
            ka, kb = bound_kind(s, a[2]), bound_kind(s, a[3])
            if not ka or not kb or ka == kb:
                return
            key = "%s %s %s" % (K.alpha(render(a[2]), b)[:70], a[1], K.alpha(render(a[3]), b)[:70])
            if key in seen:
                return
            seen.add(key)
            n_mixed += 1
            ctx.ob("R-SIB", "%s:bounds-compared[%s]" % (short(root_fn(f, n)), key), (ka, a[1], kb) in ALLOWED_MIXED,
                   "blocks are inclusive ranges: an upper and a lower bound are compared as `upper < lower` (disjoint) or "
                   "`lower <= upper` (touching counts as overlap) — %s writes %s %s %s" % (short(root_fn(f, n)), ka, a[1], kb),
                   where=where)
        for bi, blk in enumerate(b.blocks):
            if blk.get("cleanup"):
                continue
            t = blk["term"]
            if t["t"] == "switch" and t.get("dty") == "bool":
                scan(strip_deep(s.operand(t["discr"])), b.where(bi))
            for st in blk["stmts"]:
                if st["s"] == "assign" and st["pl"]["l"] == 0 and not st["pl"]["p"]:
                    scan(strip_deep(s.rvalue(st["rv"])), b.where(bi))
            if t["t"] == "call" and t["dest"]["l"] == 0 and not t["dest"]["p"]:
                scan(strip_deep(s.call(t, bi)), b.where(bi))
    ctx.floor("R-SIB", "upper/lower bound comparisons in the resource code", n_mixed, 9)
