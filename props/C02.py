"""C02 — signed objects accepted iff digest, signature, EE cert and coverage hold
(structural necessary conditions; DESIGN §2 C02.a–e)."""
import re
from engine.rules import (MustPass, guard_edges, eq_matcher, pred_matcher, outcome, aggregates_of, calls_to,
                          call_checked, loop_each_checked, variant_edge_fails, switch_bool_edges, bool_atom, success_values)
from engine.sym import Sym, strip, strip_deep, render, walk, short, roots
from props import common as K

META = {
    "level": "other",
    "technique": "static analysis of type-checked MIR (rustc_private driver): MIR must-pass-through graph cuts, guard polarity, loop-form rule on the coverage loops, provenance slicing; abstract interpretation of the SET-OF header emitter",
    "explanation": "Must-pass-through, guard-polarity, loop-form and provenance rules over the MIR of the signed-object "
                   "validation entry points (SignedObject, Roa, Aspa, Manifest): no success path avoids the sid guard, the "
                   "digest guard, signature verification over encode_verify(signed_attrs) under the embedded EE key, EE "
                   "certificate validation under the issuer, the CRL callback and the content coverage checks; every ROA "
                   "prefix is tested against the same family's resources; the DER SET-OF header emitted for the signed "
                   "attributes is computed by abstract interpretation for every length region.",
    "not_decided": ["acceptance of every conforming object produced by an independent encoder (decoder completeness)",
                    "SHA-256 / RSA themselves", "tamper sensitivity beyond the guards"],
    "trusted_base": ["aws-lc-rs verify_sig/digest", "bcder decode combinators propagate closure errors"],
}

SO = "repository::sigobj::SignedObject::"


def run(ctx):
    f = ctx.facts()
    K.check_revocation_lookup(ctx, f, "repository::crl")
    ctx.rule("R-REG", "decision table by abstract interpretation / truth table equals the spec")
    K.check_bool_table(ctx, f, "R-REG", "repository::cert::TbsCert::has_ip_resources",
                       [(r"^IpResources::is_present\(self\.v4_resources\)$", "v4"),
                        (r"^IpResources::is_present\((TbsCert::v6_resources\(self\)|self\.v6_resources)\)$", "v6")],
                       lambda e: e["v4"] or e["v6"],
                       "is true iff IPv4 or IPv6 resources are present (the ASPA profile's \"no IP resources\" test rests on it)")
    ctx.rule("R-CHK", "every success path passes a checked call to the sink (interprocedural, incl. loop form)")
    ctx.rule("R-GRD", "success requires the guard literal (graph cut on its true edges)")
    ctx.rule("R-FLOW", "operand provenance (backward slice) is the required source")
    ctx.rule("R-WHO", "call sites are exactly the confirmed ones")
    ctx.rule("R-REG", "outcome regions by abstract interpretation / truth tables equal the spec table")

    # ---- C02.a skeleton ------------------------------------------------------
    def sink_validate_ee(c):
        if c.res != "repository::cert::Cert::validate_ee_at":
            return False
        a = K.arg_renders(c)
        return a[0] == "self.cert" and a[1] == "issuer" and a[3] == "now"
    sid_guard = eq_matcher(r"^self\.sid$", r"^TbsCert::subject_key_identifier\(self\.cert\)$")
    dig_guard = eq_matcher(r"^Context::finish\(\w+⟵DigestAlgorithm::start\(self\.digest_algorithm\)\)$", r"^self\.message_digest$")
    sinks = [
        ("verify_sig", MustPass(f, K.sink_verify_sig, name="verify_sig")),
        ("Cert::validate_ee_at(self.cert, issuer, _, now)", MustPass(f, sink_validate_ee, name="Cert::validate_ee_at")),
        ("sid == cert.subject_key_identifier()",
         MustPass(f, lambda c: False, guard_fn=lambda b, s, bb: guard_edges(b, s, bb, sid_guard), name="sid guard")),
        ("digest(content) == message_digest",
         MustPass(f, lambda c: False, guard_fn=lambda b, s, bb: guard_edges(b, s, bb, dig_guard), name="digest guard")),
    ]
    entries = [SO + "validate_at", SO + "validate", SO + "process",
               "repository::roa::Roa::process", "repository::aspa::Aspa::process",
               "repository::manifest::Manifest::validate_at", "repository::manifest::Manifest::validate"]
    for e in entries:
        b = f.body(e)
        if b is None:
            ctx.missing("R-CHK", "entry:" + short(e), e)
            continue
        ctx.saw_fn(e)
        for sname, mp in sinks:
            ok = mp.holds(e)
            ctx.ob("R-CHK" if "==" not in sname else "R-GRD", "%s→%s" % (short(e), sname), ok,
                   "%s succeeds only through %s" % (short(e), sname), where=b.loc,
                   detail=None if ok else K.why(f, mp, e))
    # process(): CRL callback honoured, called with the validated certificate
    for e in (SO + "process", "repository::roa::Roa::process", "repository::aspa::Aspa::process"):
        b = f.body(e)
        if b is None:
            continue

        def sink_crl(c):
            if c.name != "call_once":
                return False
            a = K.arg_renders(c)
            return a[0] == "check_crl" and "SignedObject::validate" in a[1] and "↓Continue.0" in a[1]
        mp = MustPass(f, sink_crl, name="check_crl(validated cert)")
        ok = mp.holds(e)
        ctx.ob("R-CHK", "%s→check_crl" % short(e), ok,
               "%s calls the CRL callback with the validated EE certificate and honours its verdict" % short(e),
               where=b.loc, detail=None if ok else K.why(f, mp, e))
    for e, content_verify in (("repository::roa::Roa::process", "repository::roa::RouteOriginAttestation::verify"),
                              ("repository::aspa::Aspa::process", "repository::aspa::AsProviderAttestation::verify")):
        b = f.body(e)
        if b is None:
            continue

        def sink_cv(c, cv=content_verify):
            if c.res != cv:
                return False
            a = K.arg_renders(c)
            return a[0] == "self.content" and "SignedObject::validate" in a[1]
        mp = MustPass(f, sink_cv, name=short(content_verify))
        ok = mp.holds(e)
        ctx.ob("R-CHK", "%s→content.verify(cert)" % short(e), ok,
               "%s verifies the content against the validated EE certificate" % short(e), where=b.loc,
               detail=None if ok else K.why(f, mp, e))
        # returned certificate is the validated one
        rets = [render(t) for _, _, t in success_values(b)]
        ret = rets
        ctx.ob("R-FLOW", "%s:returns-validated-cert" % short(e),
               len(rets) == 1 and re.search(r"Ok\{0: tuple\(Try::branch\(SignedObject::validate\(self\.signed, issuer, strict\)\)↓Continue\.0, self\.content\)\}", rets[0]) is not None,
               "%s returns the validated certificate and the object's own content" % short(e), where=b.loc, detail=ret)

    # ---- C02.b which key / which bytes ---------------------------------------
    b = f.body(SO + "verify")
    if b is None:
        ctx.missing("R-FLOW", "SignedObject::verify", SO + "verify")
    else:
        ctx.saw_fn(SO + "verify")
        cs = [c for c in b.calls() if c.res == "crypto::keys::PublicKey::verify"]
        ok = False
        detail = None
        if len(cs) == 1:
            a = K.arg_renders(cs[0])
            detail = a
            ok = a[0] == "TbsCert::subject_public_key_info(self.cert)" and \
                a[1] == "SignedAttrs::encode_verify(self.signed_attrs)" and a[2] == "self.signature"
        ctx.ob("R-FLOW", "SignedObject::verify:args", ok,
               "signature is verified over encode_verify(self.signed_attrs) under the embedded certificate's key",
               where=b.loc, detail=detail)
        K.check_digest_input(ctx, f, b, "SignedObject::verify:digest-input")
    K.check_public_key_verify_format_guard(ctx, f)

    # ---- C02.c DER SET OF header for every size --------------------------------
    K.check_encode_verify(ctx, f)

    # ---- C02.d attributes ---------------------------------------------------
    K.check_signed_attrs_decoder(ctx, f)
    check_signer_info(ctx, f)

    # ---- C02.e coverage -------------------------------------------------------
    check_roa_coverage(ctx, f)
    check_aspa_coverage(ctx, f)


def check_signer_info(ctx, f):
    """In the SignerInfo closure of SignedObject::take_from: digest algorithm and content type agree."""
    bodies = [b for n, b in f.bodies.items() if n.startswith(SO + "take_from::{closure")]
    ctx.floor("R-GRD", "SignedObject::take_from closures", len(bodies), 5)
    g1 = eq_matcher(r"DigestAlgorithm::take_from\(cons\)", r"\^digest_algorithm")
    g2 = eq_matcher(r"SignedAttrs::take_from\(cons\).*\.2$", r"\^content_type")
    for name, g, what in (("digest-alg-agrees", g1, "SignerInfo digest algorithm == SignedData digest algorithm"),
                          ("content-type-agrees", g2, "content type in signed attributes == eContentType")):
        found = False
        for b in bodies:
            ok, detail = K.guard_false_edge_fails(b, g)
            if detail is None or "not found" not in str(detail):
                found = True
                ctx.ob("R-GRD", "SignedObject::take_from:" + name, ok, "decoder fails unless " + what,
                       where=b.loc, detail=detail)
        if not found:
            ctx.ob("R-GRD", "SignedObject::take_from:" + name, False, "guard not found: " + what)


def check_roa_coverage(ctx, f):
    fn = "repository::roa::RouteOriginAttestation::verify"
    b = f.body(fn)
    if b is None:
        return ctx.missing("R-CHK", "RouteOriginAttestation::verify", fn)
    ctx.saw_fn(fn)
    n = 0
    for fam in ("v4", "v6"):
        guard = pred_matcher(r"IpBlocks::contains_roa$",
                             (r"^ResourceCert::%s_resources\(cert\)$" % fam,
                              r"^Iterator::next\(iter⟵self\.%s_addrs\)↓Some\.0$" % fam))

        def nextp(c, fam=fam):
            if c.name != "next" or c.trait != "std::iter::Iterator":
                return False
            a = K.arg_renders(c)
            return a[0] == "iter⟵self.%s_addrs" % fam
        res = loop_each_checked(b, nextp, lambda bd, s, bb, guard=guard: guard_edges(bd, s, bb, guard))
        for where, ok, detail in res:
            n += 1
            ctx.ob("R-CHK", "RouteOriginAttestation::verify:each-%s-prefix-covered" % fam, ok,
                   "every %s ROA prefix is tested with contains_roa against the certificate's %s resources, "
                   "failure rejects" % (fam, fam), where=where, detail=detail)
        if not res:
            # the same ∀-check written with all / any / find
            alt = K.forall_by_combinator(
                f, b, r"^\w+⟵self\.%s_addrs$" % fam, "Iterator::next(iter⟵self.%s_addrs)↓Some.0" % fam,
                K.pred_lit(r"^IpBlocks::contains_roa\(ResourceCert::%s_resources\(cert\), Iterator::next\(iter⟵self\.%s_addrs\)↓Some\.0\)$" % (fam, fam)),
                coll_rx=r"^self\.%s_addrs$" % fam)
            for where, ok, detail in alt:
                n += 1
                ctx.ob("R-CHK", "RouteOriginAttestation::verify:each-%s-prefix-covered" % fam, ok,
                       "every %s ROA prefix is tested with contains_roa against the certificate's %s resources, "
                       "failure rejects" % (fam, fam), where=where, detail=detail)
            if not alt:
                ctx.ob("R-CHK", "RouteOriginAttestation::verify:each-%s-prefix-covered" % fam, False,
                       "no loop over self.%s_addrs found" % fam, where=b.loc)
    # contains_roa: true only if some range has min <= addr.min and max >= addr.max
    fn = "repository::resources::ipres::IpBlocks::contains_roa"
    b = f.body(fn)
    if b is None:
        return ctx.missing("R-GRD", "IpBlocks::contains_roa", fn)
    ctx.saw_fn(fn)
    for name, lo, hi in (("range.min<=addr.min", r"^IpBlock::min\(Iterator::next\(iter⟵self\)↓Some\.0\)$", r"^RoaIpAddress::range\(addr\)\.0$"),
                         ("addr.max<=range.max", r"^RoaIpAddress::range\(addr\)\.1$", r"^IpBlock::max\(Iterator::next\(iter⟵self\)↓Some\.0\)$")):
        mp = MustPass(f, lambda c: False,
                      guard_fn=lambda bd, s, bb, lo=lo, hi=hi: K.order_literal_edges(bd, s, bb, lo, hi), name=name)
        ok = mp.holds(fn)
        detail = None if ok else K.why(f, mp, fn)
        if not ok:
            alt = K.exists_by_combinator(f, b, r"^\w+⟵self$", "Iterator::next(iter⟵self)↓Some.0", K.order_lit(lo, hi))
            if alt is not None:
                ok, detail = alt
        ctx.ob("R-GRD", "IpBlocks::contains_roa:" + name, ok,
               "contains_roa returns true only if for some block %s" % name, where=b.loc, detail=detail)


def check_aspa_coverage(ctx, f):
    fn = "repository::aspa::AsProviderAttestation::verify"
    b = f.body(fn)
    if b is None:
        return ctx.missing("R-GRD", "AsProviderAttestation::verify", fn)
    ctx.saw_fn(fn)
    guards = [
        ("customer-in-as-resources", pred_matcher(r"AsBlocks::contains_asn$", (r"^ResourceCert::as_resources\(cert\)$", r"^self\.customer_as$"))),
        ("no-inherited-as", pred_matcher(r"is_inherited$", (r"as_resources\(.*cert.*\)",), positive=False)),
        # the test decided by the truth table above (the certificate's own extensions), not a namesake on another type
        ("no-ip-resources", pred_matcher(r"(^|::)cert::TbsCert::has_ip_resources$", (r"cert",), positive=False)),
    ]
    for name, g in guards:
        mp = MustPass(f, lambda c: False, guard_fn=lambda bd, s, bb, g=g: guard_edges(bd, s, bb, g), name=name)
        ok = mp.holds(fn)
        ctx.ob("R-GRD", "AsProviderAttestation::verify:" + name, ok,
               "ASPA content verification succeeds only if " + name, where=b.loc,
               detail=None if ok else K.why(f, mp, fn))
