"""C01 — certificate validation: only correctly issued certs, resources never grow.

Decides the structural necessary conditions (DESIGN §2 C01.a–f); not the
cryptography and not the set algebra.
"""
import re
from engine.rules import (MustPass, guard_edges, eq_matcher, pred_matcher, outcome, aggregates_of,
                          calls_to, call_checked, fmt_path, bool_atom, is_derived, root_fn, switch_bool_edges)
from engine.sym import Sym, strip, strip_deep, render, walk, short, roots
from engine import inline as INL
from props import common as K

META = {
    "level": "other",
    "technique": "static analysis of type-checked MIR (rustc_private driver): MIR must-pass-through graph cuts, guard polarity and provenance slicing over the validation entry points; order-table decision of Block::is_encompassed",
    "explanation": "Static must-pass-through / guard-polarity / provenance rules over the MIR of every "
                   "certificate validation entry point: no success path avoids the validity check, the "
                   "signature check under the issuer's key, the AKI==issuer-SKI and SKI==key-hash guards, "
                   "and the stored resources are exactly the result of verify_issued on the issuer's "
                   "validated resources of the same family; the per-block containment test behind it (Block::"
                   "is_encompassed) equals c ≤ a ∧ b ≤ d on every weak ordering of the bounds.",
    "not_decided": ["that aws-lc verify_sig implements RSA/ECDSA", "that contains/intersection compute "
                    "mathematical subset/intersection (C03)", "bit-level tamper sensitivity"],
    "trusted_base": ["aws-lc-rs verify_sig", "bcder capture/decode"],
}

CERT = "repository::cert::Cert::"
ENTRY_ISSUED_VERIFY = ["verify_ca_at", "verify_ee_at", "verify_router_at"]
ENTRY_TA_VERIFY = ["verify_ta_at", "verify_ta_ref_at"]
ENTRY_ISSUED_VALIDATE = ["validate_ca_at", "validate_ee_at", "validate_detached_ee_at", "validate_router_at"]
ENTRY_TA_VALIDATE = ["validate_ta_at"]
WRAPPERS = {"validate_ta": "validate_ta_at", "validate_ca": "validate_ca_at", "validate_ee": "validate_ee_at",
            "validate_detached_ee": "validate_detached_ee_at", "validate_router": "validate_router_at",
            "verify_ta": "verify_ta_at", "verify_ta_ref": "verify_ta_ref_at", "verify_ca": "verify_ca_at",
            "verify_ee": "verify_ee_at", "verify_router": "verify_router_at"}


# ---------------------------------------------------------------------------------------------------------------
# The entry view.
#
# The property is stated about the public entry points (`self` = the certificate, `issuer`, `now`).  How the work is cut
# into helpers, accessors, Deref impls, constructors and local variables in between is not part of it.  Every entry
# point is therefore also read with all crate functions *outside* the resource-set algebra folded into it
# (engine/inline.py: a graph rewrite of the compiler's MIR, with the variant of an inlined `return` threaded into the
# caller's `?`).  In that body every value is spelt in the entry's vocabulary — `self.tbs.authority_key_identifier`,
# `issuer.cert.tbs.subject_public_key_info.bits`, `issuer.v4_resources` — whether the source said
# `self.authority_key_identifier()`, `self.tbs.authority_key_identifier`, or went through three helpers with renamed
# parameters.  The rules below match on *field paths with their owning ADT*, rooted at an entry parameter *position*.

def _ev_select(callee):
    return not callee.startswith("repository::resources::") and callee != "crypto::keys::PublicKey::key_identifier"


class _EVBodies:
    def __init__(self, evf):
        self._e = evf

    def __contains__(self, n):
        return n in self._e._f.bodies

    def get(self, n, d=None):
        b = self._e.body(n)
        return b if b is not None else d

    def __getitem__(self, n):
        b = self._e.body(n)
        if b is None:
            raise KeyError(n)
        return b


class EntryFacts:
    """Facts in which the named entry points are replaced by their entry views (everything else untouched)."""

    def __init__(self, f, entries):
        self._f = f
        self._names = set(entries)
        self._ev = {}
        self.bodies = _EVBodies(self)

    def __getattr__(self, name):
        return getattr(self._f, name)

    def body(self, name):
        if name in self._names:
            return self.ev(name)
        return self._f.body(name)

    def ev(self, name):
        if name not in self._ev:
            b = self._f.body(name)
            nb = None
            if b is not None:
                try:
                    nb = INL.inlined(self._f, b, 8, _ev_select, 200)
                except Exception:
                    nb = b
            self._ev[name] = nb
        return self._ev[name]


def fpath(t):
    """(root parameter, [(field, owner ADT) …]) of a pure projection chain, else None."""
    steps = []
    t = strip(t)
    while True:
        if t[0] == "field":
            steps.append((str(t[2]), (t[3] if len(t) > 3 else None) or ""))
            t = strip(t[1])
        elif t[0] == "mvar":
            t = strip(t[3])
        else:
            break
    if t[0] == "param":
        return (t[1], steps[::-1])
    return None


def is_field(t, root, name, owner=None, exact=False):
    """`t` is <root parameter>.….<name> (field `name` of ADT `owner`), possibly followed by newtype projections (.0)."""
    p = fpath(t)
    if p is None or p[0] != root:
        return False
    for i, (nm, ow) in enumerate(p[1]):
        if nm == name and (owner is None or ow.endswith(owner)):
            rest = p[1][i + 1:]
            if exact and rest:
                return False
            return all(r[0].isdigit() for r in rest)
    return False


def param_paths(t):
    """Maximal parameter-rooted projection chains inside a term."""
    out = []

    def go(x):
        x = strip(x)
        p = fpath(x)
        if p is not None:
            out.append(p)
            return
        k = x[0]
        if k in ("field", "variant", "discr", "len", "cast"):
            go(x[1])
        elif k == "un":
            go(x[2])
        elif k == "mvar":
            go(x[3])
        elif k == "index":
            go(x[1]); go(x[2])
        elif k == "subslice":
            go(x[1])
        elif k == "call":
            for a in x[2]:
                go(a)
        elif k == "bin":
            go(x[2]); go(x[3])
        elif k == "agg":
            for _, v in x[3]:
                go(v)
        elif k == "closure":
            for a in x[2]:
                go(a)
    go(t)
    return out


def derives_from(t, root, steps):
    """Every parameter the term depends on is `root`, and it reads root.….s1.….s2 with (field, owner) steps in order."""
    ps = param_paths(t)
    if not ps or any(p[0] != root for p in ps):
        return False
    for p in ps:
        i = 0
        for nm, ow in p[1]:
            if i < len(steps) and nm == steps[i][0] and ow.endswith(steps[i][1]):
                i += 1
        if i == len(steps):
            return True
    return False


_PAYLOAD_KEEPING = {"map_err", "ok_or", "ok_or_else", "ok", "as_ref", "as_mut", "copied", "cloned", "inspect", "inspect_err",
                    "as_deref", "as_deref_mut"}


def _std_optres(t):
    return t[0] == "call" and re.match(r"^(std|core)::(option::Option|result::Result)::<", (t[3] or {}).get("fn") or "") is not None


def _fail_only_closure(f, ct):
    """The closure can only return Err / None."""
    ct = strip(ct)
    if ct[0] != "closure":
        return False
    cb = f.body(ct[1])
    if cb is None:
        return False
    oc = outcome(cb)
    return bool(oc.fail_blocks) and not oc.success_assign_blocks


def carrier(f, t):
    """Peel the combinators that keep both the variant and the success payload of an Option / Result."""
    t = strip(t)
    while _std_optres(t) and t[2]:
        nm = (t[3] or {}).get("name")
        if nm in _PAYLOAD_KEEPING:
            t = strip(t[2][0])
        elif nm == "or_else" and len(t[2]) == 2 and _fail_only_closure(f, t[2][1]):
            t = strip(t[2][0])
        else:
            break
    return t


def payload_of(f, t):
    """If `t` is the success payload of an Option / Result X (as bound by a pattern, by `?`, or by unwrap/expect — all of
    which yield nothing else on the other variant): X with payload-keeping combinators peeled.  Else None."""
    t = strip(t)
    if t[0] == "field" and str(t[2]) == "0":
        v = strip(t[1])
        if v[0] == "variant":
            inner = strip(v[1])
            if v[2] in ("Some", "Ok"):
                return carrier(f, inner)
            if v[2] == "Continue" and inner[0] == "call" and (inner[3] or {}).get("name") == "branch" and \
                    ((inner[3] or {}).get("trait") or "").endswith("ops::Try") and len(inner[2]) == 1:
                return carrier(f, inner[2][0])
    if _std_optres(t) and (t[3] or {}).get("name") in ("unwrap", "expect") and t[2]:
        return carrier(f, t[2][0])
    return None


def _drop_newtype(t):
    t = strip(t)
    while t[0] == "field" and str(t[2]).isdigit() and strip(t[1])[0] != "variant":
        t = strip(t[1])
    return t


def opt_payload_is(f, t, pred):
    """`t` is the Some-payload of an Option satisfying pred (possibly behind a newtype projection)."""
    for x in (t, _drop_newtype(t)):
        p = payload_of(f, x)
        if p is not None and pred(p):
            return True
    return False


def eq_sides_matcher(pa, pb, f=None, opt_a=None):
    """Guard matcher for `A == B` (either order, any spelling bool_atom decodes) with A, B given as predicates on terms.
    With opt_a (a predicate on an Option-valued term): also `optA == Some(B)` and `payload(optA) == B`."""
    def m(rel, a, b):
        if rel != "eq" or b is None:
            return None
        for x, y in ((a, b), (b, a)):
            if pa is not None and pa(x) and pb(y):
                return True
            if opt_a is not None:
                if opt_payload_is(f, x, opt_a) and pb(y):
                    return True
                ys = strip(y)
                if opt_a(carrier(f, x)) and ys[0] == "agg" and ys[2] == "Some" and ys[3] and pb(ys[3][0][1]):
                    return True
        return None
    return m


_ORD_IS = {"is_lt": ("<",), "is_le": ("<", "="), "is_gt": (">",), "is_ge": (">", "="), "is_eq": ("=",), "is_ne": ("<", ">")}


def order_edges(body, sym, bb, lo, hi):
    """Edges of the switch at bb on which `lo <= hi` is known, lo/hi being predicates on terms.  Understands every
    spelling of a two-way comparison (`<`, `>=`, negations, swapped operands), the three-way `cmp` match and
    `cmp(..).is_le()`-style tests."""
    t = body.term(bb)
    if t["t"] != "switch":
        return None
    d = strip_deep(sym.operand(t["discr"]))
    neg = False
    while d[0] == "un" and d[1] == "Not":
        neg, d = not neg, strip_deep(d[2])

    def cmp_call(x):
        x = strip(x)
        if x[0] == "call" and (x[3] or {}).get("name") == "cmp" and len(x[2]) == 2 and ((x[3] or {}).get("trait") or "").endswith("cmp::Ord"):
            a, b = strip_deep(x[2][0]), strip_deep(x[2][1])
            if lo(a) and hi(b):
                return {"<": True, "=": True, ">": False}
            if hi(a) and lo(b):
                return {"<": False, "=": True, ">": True}
        return None
    # three-way match
    if d[0] == "discr":
        tab = cmp_call(d[1])
        if tab is None:
            return None
        val = {255: "<", -1: "<", 0: "=", 1: ">"}
        listed = {}
        for v, tb in t["targets"]:
            listed[val.get(v)] = tb
        out = []
        for o, tb in listed.items():
            if o is not None and tab[o]:
                out.append((bb, tb))
        rest = [o for o in ("<", "=", ">") if o not in listed]
        if rest and all(tab[o] for o in rest):
            out.append((bb, t["otherwise"]))
        return out or None
    if t.get("dty") != "bool":
        return None
    e = switch_bool_edges(body, bb)
    if e is None:
        return None
    f_t, t_t = e
    if neg:
        f_t, t_t = t_t, f_t
    if d[0] == "call" and (d[3] or {}).get("name") in _ORD_IS and len(d[2]) == 1:
        tab = cmp_call(d[2][0])
        if tab is None:
            return None
        yes = _ORD_IS[d[3]["name"]]
        no = [o for o in ("<", "=", ">") if o not in yes]
        if all(tab[o] for o in yes):
            return [(bb, t_t)]
        if all(tab[o] for o in no):
            return [(bb, f_t)]
        return None
    at = bool_atom(d)
    if at is None or at[0] not in ("lt", "le", "gt", "ge"):
        return None
    rel, a, b, pos = at
    if rel == "gt":
        rel, a, b = "lt", b, a
    elif rel == "ge":
        rel, a, b = "le", b, a
    if rel == "le" and lo(a) and hi(b):
        return [(bb, t_t)] if pos else [(bb, f_t)]
    if rel == "lt" and hi(a) and lo(b):
        return [(bb, f_t)] if pos else [(bb, t_t)]
    return None


class Tee:
    """Collects the obligations of a shared rule instance so that a failing one can be re-decided on the entry view
    before it is reported (`rescue(key) -> reason or None`).  Nothing that holds is touched, nothing is dropped."""

    def __init__(self, ctx):
        self._ctx = ctx
        self.obs = []

    def __getattr__(self, n):
        return getattr(self._ctx, n)

    def ob(self, rule, key, ok, what, where=None, detail=None, nontrivial=True):
        self.obs.append([rule, key, bool(ok), what, where, detail, nontrivial])
        return bool(ok)

    def missing(self, rule, key, what):
        return self.ob(rule, key, False, "anchor missing: " + what)

    def floor(self, rule, name, count, minimum):
        return self.ob(rule, "floor:" + name, count >= minimum,
                       "%s: matched %d instance(s), floor %d" % (name, count, minimum), nontrivial=False)

    def flush(self, rescue):
        for rule, key, ok, what, where, detail, nontrivial in self.obs:
            if not ok:
                why = rescue(rule, key)
                if why:
                    ok = True
                    what += "  [as written the pattern is not matched; established on the entry views: %s]" % why
            self._ctx.ob(rule, key, ok, what, where=where, detail=detail, nontrivial=nontrivial)
        self.obs = []




def run(ctx):
    f = ctx.facts()
    ctx.rule("R-CHK", "every success path passes a checked call to the sink (interprocedural)")
    ctx.rule("R-GRD", "success requires the guard literal (graph cut on its true edges)")
    ctx.rule("R-FLOW", "operand provenance (backward slice) is the required source")
    ctx.rule("R-WHO", "construction sites of a type are exactly the confirmed ones")
    ctx.rule("R-REG", "the per-block containment / overlap tests behind verify_issued equal the interval definition on every ordering")
    K.check_block_predicates(ctx, f)

    all_entries = ENTRY_ISSUED_VERIFY + ENTRY_TA_VERIFY + ENTRY_ISSUED_VALIDATE + ENTRY_TA_VALIDATE
    issued = ENTRY_ISSUED_VERIFY + ENTRY_ISSUED_VALIDATE
    for e in all_entries:
        if f.body(CERT + e) is None:
            ctx.missing("R-CHK", "entry:" + e, "public entry point %s%s" % (CERT, e))
    entries = [e for e in all_entries if f.body(CERT + e)]

    # ---- C01.a skeleton ----------------------------------------------------
    mp_validity = MustPass(f, K.sink_validity_verify_at, name="Validity::verify_at")
    mp_sig = MustPass(f, K.sink_verify_sig, name="aws_lc_rs verify_sig")
    mp_issued = MustPass(f, lambda c: K.res_matches(c, r"resources::(ipres::IpBlocks|asres::AsBlocks)::verify_issued$"),
                         name="verify_issued")
    for e in entries:
        fn = CERT + e
        ctx.saw_fn(fn)
        ok = mp_validity.holds(fn)
        ctx.ob("R-CHK", "%s→Validity::verify_at" % e, ok,
               "every success path of Cert::%s checks the validity window" % e,
               where=f.body(fn).loc, detail=None if ok else K.why(f, mp_validity, fn))
        ok = mp_sig.holds(fn)
        ctx.ob("R-CHK", "%s→verify_sig" % e, ok,
               "every success path of Cert::%s verifies a signature" % e,
               where=f.body(fn).loc, detail=None if ok else K.why(f, mp_sig, fn))
    for e in issued:
        fn = CERT + e
        if not f.body(fn):
            continue
        ok = mp_issued.holds(fn)
        ctx.ob("R-CHK", "%s→verify_issued" % e, ok,
               "every success path of Cert::%s runs the resource issuance check" % e,
               where=f.body(fn).loc, detail=None if ok else K.why(f, mp_issued, fn))
    # convenience wrappers (now = Time::now()) delegate to the *_at twin
    for w, tgt in WRAPPERS.items():
        fn = CERT + w
        b = f.body(fn)
        if b is None:
            continue
        mp = MustPass(f, lambda c, tgt=tgt: c.res == CERT + tgt, name=tgt)
        ok = mp.holds(fn)
        ctx.ob("R-CHK", "%s→%s" % (w, tgt), ok, "Cert::%s only succeeds through Cert::%s" % (w, tgt),
               where=b.loc, detail=None if ok else K.why(f, mp, fn))

    # ---- C01.b issuer claim ------------------------------------------------
    aki_guard = eq_matcher(r"authority_key_identifier\(self\)", r"subject_key_identifier\(issuer(\.cert)?\)")
    mp_aki = MustPass(f, lambda c: False, guard_fn=lambda b, s, bb: guard_edges(b, s, bb, aki_guard),
                      name="AKI == issuer SKI")
    for e in issued:
        fn = CERT + e
        if not f.body(fn):
            continue
        ok = mp_aki.holds(fn)
        ctx.ob("R-GRD", "%s:aki==issuer.ski" % e, ok,
               "Cert::%s succeeds only if authority_key_identifier(self) == subject_key_identifier(issuer)" % e,
               where=f.body(fn).loc, detail=None if ok else K.why(f, mp_aki, fn))
    # TA: if AKI present it must equal own SKI
    ta_guard = eq_matcher(r"self\.authority_key_identifier|authority_key_identifier\(self\)",
                          r"subject_key_identifier\(self\)|self\.subject_key_identifier")
    b = f.body(CERT + "inspect_ta")
    if b is None:
        ctx.missing("R-GRD", "inspect_ta", "Cert::inspect_ta")
    else:
        ok, detail = K.guard_false_edge_fails(b, ta_guard)
        ctx.ob("R-GRD", "inspect_ta:aki==ski", ok,
               "Cert::inspect_ta fails when an authority key identifier is present and differs from the SKI",
               where=b.loc, detail=detail)

    # ---- C01.c SKI is the key hash ------------------------------------------
    ski_guard = eq_matcher(r"^TbsCert::subject_key_identifier\(self\)$",
                           r"key_identifier\(TbsCert::subject_public_key_info\(self\)\)")
    mp_ski = MustPass(f, lambda c: False, guard_fn=lambda b, s, bb: guard_edges(b, s, bb, ski_guard),
                      name="SKI == key_identifier(SPKI)")
    for e in ENTRY_ISSUED_VALIDATE + ENTRY_TA_VALIDATE:
        fn = CERT + e
        if not f.body(fn):
            continue
        ok = mp_ski.holds(fn)
        ctx.ob("R-GRD", "%s:ski==hash(key)" % e, ok,
               "Cert::%s succeeds only if subject_key_identifier(self) == key_identifier(subject_public_key_info(self))" % e,
               where=f.body(fn).loc, detail=None if ok else K.why(f, mp_ski, fn))
    K.check_key_identifier_is_sha1_of_bits(ctx, f)

    # ---- C01.d which key, which bytes ---------------------------------------
    K.check_signed_data_flow(ctx, f)
    for e in ENTRY_ISSUED_VERIFY:
        b = f.body(CERT + e)
        if b is None:
            continue
        K.check_sig_key_provenance(ctx, f, b, e, want="issuer", forbid="self")
    for e in ENTRY_TA_VERIFY:
        b = f.body(CERT + e)
        if b is None:
            continue
        K.check_sig_key_provenance(ctx, f, b, e, want="self", forbid=None)
    K.check_public_key_verify_format_guard(ctx, f)

    # ---- C01.e resources never grow — dataflow part --------------------------
    check_resource_cert_sites(ctx, f)
    K.check_verify_issued(ctx, f)
    check_from_resources(ctx, f)
    check_overclaim_writers(ctx, f)

    # ---- C01.f validity window ------------------------------------------------
    K.check_validity_window(ctx, f)


def check_resource_cert_sites(ctx, f):
    RC = "repository::cert::ResourceCert"
    sites = [x for x in aggregates_of(f, RC) if not is_derived(x[0])]
    fns = sorted({b.name for b, _, _, _ in sites})
    ctx.ob("R-WHO", "ResourceCert-literal-sites", set(fns) == {CERT + "verify_ta_at", CERT + "verify_resources"},
           "ResourceCert {..} is built only in verify_ta_at and verify_resources", detail={"sites": fns})
    adt = f.adts.get(RC)
    if adt:
        priv = all(fl["vis"] != "pub" for v in adt["variants"] for fl in v["fields"])
        ctx.ob("R-WHO", "ResourceCert-fields-private", priv,
               "all fields of ResourceCert are private (no construction outside the crate)")
    else:
        ctx.missing("R-WHO", "ResourceCert-adt", RC)
    pairs = {"v4_resources": ("v4_resources", r"v4_resources"), "v6_resources": ("v6_resources", r"v6_resources"),
             "as_resources": ("as_resources", r"as_resources")}
    for b, bi, si, s in sites:
        sym = Sym(b)
        t = sym.rvalue(s["rv"])
        fields = dict(t[3])
        ctx.saw_fn(b.name)
        if b.name.endswith("verify_resources"):
            for fld, (ifld, claim_rx) in pairs.items():
                v = strip_deep(fields.get(fld, ("unknown", "missing")))
                r = render(v)
                # Try::branch(map_err(verify_issued(issuer.<fld>, <claim>(self), overclaim), _))↓Continue.0
                calls = [x for x in walk(v) if x[0] == "call" and x[3].get("name") == "verify_issued"]
                ok = False
                why = "no verify_issued call in provenance: " + r
                if len(calls) == 1:
                    c = calls[0]
                    a = [render(strip_deep(x)) for x in c[2]]
                    recv_ok = re.match(r"^issuer\.%s$" % ifld, a[0]) is not None
                    claim_ok = re.search(r"\b%s\b" % claim_rx, a[1]) is not None and re.search(r"\(self\)|^self\.", a[1]) is not None
                    over_ok = re.search(r"overclaim", a[2]) is not None and re.search(r"self", a[2]) is not None
                    # the payload must be the Continue value of the checked result (not e.g. unwrap_or(claim))
                    shape_ok = re.match(r"^Try::branch\((Result::map_err\()?(IpBlocks|AsBlocks)::verify_issued\(.*\)\)↓Continue\.0$", r) is not None
                    ok = recv_ok and claim_ok and over_ok and shape_ok
                    why = {"term": r, "receiver_is_issuer_same_family": recv_ok, "claim_is_self_same_family": claim_ok,
                           "policy_is_self_overclaim": over_ok, "value_is_checked_success_payload": shape_ok}
                ctx.ob("R-FLOW", "verify_resources.%s" % fld, ok,
                       "ResourceCert.%s = Ok-payload of issuer.%s.verify_issued(self.%s(), self.overclaim)" % (fld, ifld, fld),
                       where=b.where(bi, si), detail=why)
            cert = render(strip_deep(fields.get("cert", ("unknown",))))
            ctx.ob("R-FLOW", "verify_resources.cert", cert == "self",
                   "ResourceCert.cert is the certificate being verified", where=b.where(bi, si), detail=cert)
        elif b.name.endswith("verify_ta_at"):
            for fld in pairs:
                v = strip_deep(fields.get(fld, ("unknown", "missing")))
                r = render(v)
                calls = [x for x in walk(v) if x[0] == "call" and x[3].get("name") == "from_resources"]
                ok = len(calls) == 1 and re.search(r"self\.%s\b" % fld, render(calls[0][2][0])) is not None \
                    and r.startswith("Try::branch(") and r.endswith("↓Continue.0")
                ctx.ob("R-FLOW", "verify_ta_at.%s" % fld, ok,
                       "TA ResourceCert.%s = checked from_resources(self.%s)" % (fld, fld),
                       where=b.where(bi, si), detail=r)


def check_from_resources(ctx, f):
    """from_resources: the Inherit arm is an error (TA must not inherit)."""
    for owner in ("repository::resources::ipres::IpBlocks", "repository::resources::asres::AsBlocks"):
        fn = owner + "::from_resources"
        b = f.body(fn)
        if b is None:
            ctx.missing("R-GRD", "from_resources:" + short(owner), fn)
            continue
        ctx.saw_fn(fn)
        oc = outcome(b)
        sym = oc.sym
        ok = False
        detail = "no switch on the resource choice"
        for bi, blk in enumerate(b.blocks):
            t = blk["term"]
            if t["t"] != "switch":
                continue
            d = strip(sym.operand(t["discr"]))
            if d[0] == "discr" and roots(d[1]) and all(x[0] == "param" for x in roots(d[1])):
                reach = oc.success_reach()
                # variant 0 = Inherit must not reach success
                adt = f.adts.get("repository::resources::choice::ResourcesChoice")
                names = [v["name"] for v in adt["variants"]] if adt else ["Inherit", "Blocks"]
                inh = names.index("Inherit") if "Inherit" in names else 0
                edges = dict((v, tb) for v, tb in b.switch_edges(bi) if v is not None)
                other = t["otherwise"]
                tgt = edges.get(inh, other)
                ok = tgt not in reach
                detail = "Inherit edge → bb%d, success-reachable=%s" % (tgt, tgt in reach)
        ctx.ob("R-GRD", "from_resources:%s:inherit-fails" % short(owner), ok,
               "%s::from_resources returns Err for inherited resources" % short(owner), where=b.loc, detail=detail)


def check_overclaim_writers(ctx, f):
    """TbsCert.overclaim is written only by the decoder (policy OID) and builder setters."""
    TBS = "repository::cert::TbsCert"
    writers = set()
    for b in f.bodies.values():
        for bi, blk in enumerate(b.blocks):
            for s in blk["stmts"]:
                if s["s"] != "assign":
                    continue
                for p in s["pl"]["p"]:
                    if p[0] == "f" and p[1] == "overclaim" and p[2] == TBS:
                        writers.add(b.name)
                rv = s["rv"]
                if rv["r"] == "agg" and rv.get("ak") == "adt" and rv["adt"] == TBS:
                    writers.add(b.name)
    expected = {"repository::cert::TbsCert::from_constructed", "repository::cert::TbsCert::new",
                "repository::cert::TbsCert::set_overclaim"}
    writers = {root_fn(f, w) for w in writers if not is_derived(f.body(w))}
    extra = {w for w in writers if w not in expected}
    ctx.ob("R-WHO", "TbsCert.overclaim-writers", not extra and len(writers) >= 2,
           "TbsCert.overclaim is set only by the decoder, the builder constructor and set_overclaim",
           detail={"writers": sorted(writers)})
