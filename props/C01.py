"""C01 — certificate validation: only correctly issued certs, resources never grow.

Decides the structural necessary conditions (DESIGN §2 C01.a–f); not the
cryptography and not the set algebra.
"""
import os
import re
from engine.rules import (MustPass, guard_edges, eq_matcher, pred_matcher, outcome, aggregates_of,
                          calls_to, call_checked, fmt_path, bool_atom, is_derived, root_fn, switch_bool_edges)
from engine.sym import Sym, strip, strip_deep, render, walk, short, roots
from engine import inline as INL
from props import common as K

META = {
    "level": "other",
    "technique": "static analysis of type-checked MIR (rustc_private driver): MIR must-pass-through graph cuts, guard polarity and provenance slicing over the validation entry points; order-table decision of Block::is_encompassed",
    "explanation": "Static must-pass-through / guard-polarity / provenance rules over the MIR of every "
                   "certificate validation entry point: no success path avoids the validity check, the "
                   "signature check under the issuer's key, the AKI==issuer-SKI and SKI==key-hash guards, "
                   "and the stored resources are exactly the result of verify_issued on the issuer's "
                   "validated resources of the same family; the per-block containment test behind it (Block::"
                   "is_encompassed) equals c ≤ a ∧ b ≤ d on every weak ordering of the bounds.",
    "not_decided": ["that aws-lc verify_sig implements RSA/ECDSA", "that contains/intersection compute "
                    "mathematical subset/intersection (C03)", "bit-level tamper sensitivity"],
    "trusted_base": ["aws-lc-rs verify_sig", "bcder capture/decode"],
}

# debugging aids for testing the two generations of rules separately (never set in a normal run)
_EV_ONLY = bool(os.environ.get("VERIF_C01_EV_ONLY"))      # ignore the as-written pattern rules where an entry-view rule exists
_OLD_ONLY = bool(os.environ.get("VERIF_C01_OLD_ONLY"))    # ignore the entry-view rules

CERT = "repository::cert::Cert::"
ENTRY_ISSUED_VERIFY = ["verify_ca_at", "verify_ee_at", "verify_router_at"]
ENTRY_TA_VERIFY = ["verify_ta_at", "verify_ta_ref_at"]
ENTRY_ISSUED_VALIDATE = ["validate_ca_at", "validate_ee_at", "validate_detached_ee_at", "validate_router_at"]
ENTRY_TA_VALIDATE = ["validate_ta_at"]
WRAPPERS = {"validate_ta": "validate_ta_at", "validate_ca": "validate_ca_at", "validate_ee": "validate_ee_at",
            "validate_detached_ee": "validate_detached_ee_at", "validate_router": "validate_router_at",
            "verify_ta": "verify_ta_at", "verify_ta_ref": "verify_ta_ref_at", "verify_ca": "verify_ca_at",
            "verify_ee": "verify_ee_at", "verify_router": "verify_router_at"}


# ---------------------------------------------------------------------------------------------------------------
# The entry view.
#
# The property is stated about the public entry points (`self` = the certificate, `issuer`, `now`).  How the work is cut
# into helpers, accessors, Deref impls, constructors and local variables in between is not part of it.  Every entry
# point is therefore also read with all crate functions *outside* the resource-set algebra folded into it
# (engine/inline.py: a graph rewrite of the compiler's MIR, with the variant of an inlined `return` threaded into the
# caller's `?`).  In that body every value is spelt in the entry's vocabulary — `self.tbs.authority_key_identifier`,
# `issuer.cert.tbs.subject_public_key_info.bits`, `issuer.v4_resources` — whether the source said
# `self.authority_key_identifier()`, `self.tbs.authority_key_identifier`, or went through three helpers with renamed
# parameters.  The rules below match on *field paths with their owning ADT*, rooted at an entry parameter *position*.

def _ev_select(callee):
    # kept as calls: the resource-set algebra (its entry points are the sinks of the rules), the key hash, and impls of
    # std's value traits (Clone, comparison, Hash, Debug, Default) — what they mean is known from the trait
    return not callee.startswith("repository::resources::") and callee != "crypto::keys::PublicKey::key_identifier" and \
        re.search(r" as (std|core)::(clone|cmp|hash|fmt|default)::", callee) is None


class _EVBodies:
    def __init__(self, evf):
        self._e = evf

    def __contains__(self, n):
        return n in self._e._f.bodies

    def get(self, n, d=None):
        b = self._e.body(n)
        return b if b is not None else d

    def __getitem__(self, n):
        b = self._e.body(n)
        if b is None:
            raise KeyError(n)
        return b


class EntryFacts:
    """Facts in which the named entry points are replaced by their entry views (everything else untouched)."""

    def __init__(self, f, entries):
        self._f = f
        self._names = set(entries)
        self._ev = {}
        self.bodies = _EVBodies(self)

    def __getattr__(self, name):
        return getattr(self._f, name)

    def body(self, name):
        if name in self._names:
            return self.ev(name)
        return self._f.body(name)

    def ev(self, name):
        if name not in self._ev:
            b = self._f.body(name)
            nb = None
            if b is not None:
                try:
                    nb = INL.inlined(self._f, b, 8, _ev_select, 200)
                except Exception:
                    nb = b
            self._ev[name] = nb
        return self._ev[name]


def fpath(t):
    """(root parameter, [(field, owner ADT) …]) of a pure projection chain, else None."""
    steps = []
    t = strip(t)
    while True:
        if t[0] == "field":
            steps.append((str(t[2]), (t[3] if len(t) > 3 else None) or ""))
            t = strip(t[1])
        elif t[0] == "mvar":
            t = strip(t[3])
        else:
            break
    if t[0] == "param":
        return (t[1], steps[::-1])
    return None


def is_field(t, root, name, owner=None, exact=False):
    """`t` is <root parameter>.….<name> (field `name` of ADT `owner`), possibly followed by newtype projections (.0)."""
    p = fpath(t)
    if p is None or p[0] != root:
        return False
    for i, (nm, ow) in enumerate(p[1]):
        if nm == name and (owner is None or ow.endswith(owner)):
            rest = p[1][i + 1:]
            if exact and rest:
                return False
            return all(r[0].isdigit() for r in rest)
    return False


def param_paths(t):
    """Maximal parameter-rooted projection chains inside a term."""
    out = []

    def go(x):
        x = strip(x)
        p = fpath(x)
        if p is not None:
            out.append(p)
            return
        k = x[0]
        if k in ("field", "variant", "discr", "len", "cast"):
            go(x[1])
        elif k == "un":
            go(x[2])
        elif k == "mvar":
            go(x[3])
        elif k == "index":
            go(x[1]); go(x[2])
        elif k == "subslice":
            go(x[1])
        elif k == "call":
            for a in x[2]:
                go(a)
        elif k == "bin":
            go(x[2]); go(x[3])
        elif k == "agg":
            for _, v in x[3]:
                go(v)
        elif k == "closure":
            for a in x[2]:
                go(a)
    go(t)
    return out


def derives_from(t, root, steps):
    """Every parameter the term depends on is `root`, and it reads root.….s1.….s2 with (field, owner) steps in order."""
    ps = param_paths(t)
    if not ps or any(p[0] != root for p in ps):
        return False
    for p in ps:
        i = 0
        for nm, ow in p[1]:
            if i < len(steps) and nm == steps[i][0] and ow.endswith(steps[i][1]):
                i += 1
        if i == len(steps):
            return True
    return False


_PAYLOAD_KEEPING = {"map_err", "ok_or", "ok_or_else", "ok", "as_ref", "as_mut", "copied", "cloned", "inspect", "inspect_err",
                    "as_deref", "as_deref_mut"}


def _std_optres(t):
    return t[0] == "call" and re.match(r"^(std|core)::(option::Option|result::Result)::<", (t[3] or {}).get("fn") or "") is not None


def _fail_only_closure(f, ct):
    """The closure can only return Err / None."""
    ct = strip(ct)
    if ct[0] != "closure":
        return False
    cb = f.body(ct[1])
    if cb is None:
        return False
    oc = outcome(cb)
    return bool(oc.fail_blocks) and not oc.success_assign_blocks


def carrier(f, t):
    """Peel the combinators that keep both the variant and the success payload of an Option / Result."""
    t = strip(t)
    while _std_optres(t) and t[2]:
        nm = (t[3] or {}).get("name")
        if nm in _PAYLOAD_KEEPING:
            t = strip(t[2][0])
        elif nm == "or_else" and len(t[2]) == 2 and _fail_only_closure(f, t[2][1]):
            t = strip(t[2][0])
        else:
            break
    return t


def carrier_kind(f, t, base_kind="result"):
    """(peeled base, 'result' | 'option' of the outermost value) — `ok()` turns a Result into an Option, `ok_or` back."""
    chain = []
    t = strip(t)
    while _std_optres(t) and t[2]:
        nm = (t[3] or {}).get("name")
        if nm in _PAYLOAD_KEEPING or (nm == "or_else" and len(t[2]) == 2 and _fail_only_closure(f, t[2][1])):
            chain.append(nm)
            t = strip(t[2][0])
        else:
            break
    kind = base_kind
    for nm in reversed(chain):
        if nm == "ok":
            kind = "option"
        elif nm in ("ok_or", "ok_or_else"):
            kind = "result"
    return t, kind


def ok_edges(f, body, sym, bb, pred):
    """Edges of the switch at bb on which a Result satisfying `pred` (after peeling payload-keeping combinators and `?`)
    is known to be Ok: `match x { Ok(..) .. }`, `x?`, `let Ok(..) = x else`, `if x.is_ok()`, `if x.is_err() { return }`."""
    t = body.term(bb)
    if t["t"] != "switch":
        return None
    d = strip_deep(sym.operand(t["discr"]))
    neg = False
    while d[0] == "un" and d[1] == "Not":
        neg, d = not neg, strip_deep(d[2])
    if d[0] == "discr":
        x = strip(d[1])
        if x[0] == "call" and (x[3] or {}).get("name") == "branch" and ((x[3] or {}).get("trait") or "").endswith("ops::Try") and len(x[2]) == 1:
            base, kind = carrier_kind(f, x[2][0])
            idx = 0
        else:
            base, kind = carrier_kind(f, x)
            idx = 0 if kind == "result" else 1
        if not pred(base):
            return None
        listed = [v for v, _ in t["targets"]]
        out = [(bb, tb) for v, tb in t["targets"] if v == idx]
        if idx not in listed and set(listed) == {1 - idx}:
            out.append((bb, t["otherwise"]))
        return out or None
    if t.get("dty") == "bool" and d[0] == "call" and _std_optres(d) and (d[3] or {}).get("name") in ("is_ok", "is_some", "is_err", "is_none") and d[2]:
        base, kind = carrier_kind(f, d[2][0])
        if not pred(base):
            return None
        e = switch_bool_edges(body, bb)
        if e is None:
            return None
        good = (d[3]["name"] in ("is_ok", "is_some")) != neg
        return [(bb, e[1] if good else e[0])]
    return None


def payload_of(f, t):
    """If `t` is the success payload of an Option / Result X (as bound by a pattern, by `?`, or by unwrap/expect — all of
    which yield nothing else on the other variant): X with payload-keeping combinators peeled.  Else None."""
    t = strip(t)
    if t[0] == "field" and str(t[2]) == "0":
        v = strip(t[1])
        if v[0] == "variant":
            inner = strip(v[1])
            if v[2] in ("Some", "Ok"):
                return carrier(f, inner)
            if v[2] == "Continue" and inner[0] == "call" and (inner[3] or {}).get("name") == "branch" and \
                    ((inner[3] or {}).get("trait") or "").endswith("ops::Try") and len(inner[2]) == 1:
                return carrier(f, inner[2][0])
    if _std_optres(t) and (t[3] or {}).get("name") in ("unwrap", "expect") and t[2]:
        return carrier(f, t[2][0])
    return None


def _drop_newtype(t):
    t = strip(t)
    while t[0] == "field" and str(t[2]).isdigit() and strip(t[1])[0] != "variant":
        t = strip(t[1])
    return t


def opt_payload_is(f, t, pred):
    """`t` is the Some-payload of an Option satisfying pred (possibly behind a newtype projection)."""
    for x in (t, _drop_newtype(t)):
        p = payload_of(f, x)
        if p is not None and pred(p):
            return True
    return False


def eq_sides_matcher(pa, pb, f=None, opt_a=None):
    """Guard matcher for `A == B` (either order, any spelling bool_atom decodes) with A, B given as predicates on terms.
    With opt_a (a predicate on an Option-valued term): also `optA == Some(B)` and `payload(optA) == B`."""
    def m(rel, a, b):
        if rel != "eq" or b is None:
            return None
        for x, y in ((a, b), (b, a)):
            if pa is not None and pa(x) and pb(y):
                return True
            if opt_a is not None:
                if opt_payload_is(f, x, opt_a) and pb(y):
                    return True
                ys = strip(y)
                if opt_a(carrier(f, x)) and ys[0] == "agg" and ys[2] == "Some" and ys[3] and pb(ys[3][0][1]):
                    return True
        return None
    return m


_ORD_IS = {"is_lt": ("<",), "is_le": ("<", "="), "is_gt": (">",), "is_ge": (">", "="), "is_eq": ("=",), "is_ne": ("<", ">")}


def order_edges(body, sym, bb, lo, hi):
    """Edges of the switch at bb on which `lo <= hi` is known, lo/hi being predicates on terms.  Understands every
    spelling of a two-way comparison (`<`, `>=`, negations, swapped operands), the three-way `cmp` match and
    `cmp(..).is_le()`-style tests."""
    t = body.term(bb)
    if t["t"] != "switch":
        return None
    d = strip_deep(sym.operand(t["discr"]))
    neg = False
    while d[0] == "un" and d[1] == "Not":
        neg, d = not neg, strip_deep(d[2])

    def cmp_call(x):
        x = strip(x)
        if x[0] == "call" and (x[3] or {}).get("name") == "cmp" and len(x[2]) == 2 and ((x[3] or {}).get("trait") or "").endswith("cmp::Ord"):
            a, b = strip_deep(x[2][0]), strip_deep(x[2][1])
            if lo(a) and hi(b):
                return {"<": True, "=": True, ">": False}
            if hi(a) and lo(b):
                return {"<": False, "=": True, ">": True}
        return None
    # three-way match
    if d[0] == "discr":
        tab = cmp_call(d[1])
        if tab is None:
            return None
        val = {255: "<", -1: "<", 0: "=", 1: ">"}
        listed = {}
        for v, tb in t["targets"]:
            listed[val.get(v)] = tb
        out = []
        for o, tb in listed.items():
            if o is not None and tab[o]:
                out.append((bb, tb))
        rest = [o for o in ("<", "=", ">") if o not in listed]
        if rest and all(tab[o] for o in rest):
            out.append((bb, t["otherwise"]))
        return out or None
    if t.get("dty") != "bool":
        return None
    e = switch_bool_edges(body, bb)
    if e is None:
        return None
    f_t, t_t = e
    if neg:
        f_t, t_t = t_t, f_t
    if d[0] == "call" and (d[3] or {}).get("name") in _ORD_IS and len(d[2]) == 1:
        tab = cmp_call(d[2][0])
        if tab is None:
            return None
        yes = _ORD_IS[d[3]["name"]]
        no = [o for o in ("<", "=", ">") if o not in yes]
        if all(tab[o] for o in yes):
            return [(bb, t_t)]
        if all(tab[o] for o in no):
            return [(bb, f_t)]
        return None
    at = bool_atom(d)
    if at is None or at[0] not in ("lt", "le", "gt", "ge"):
        return None
    rel, a, b, pos = at
    if rel == "gt":
        rel, a, b = "lt", b, a
    elif rel == "ge":
        rel, a, b = "le", b, a
    if rel == "le" and lo(a) and hi(b):
        return [(bb, t_t)] if pos else [(bb, f_t)]
    if rel == "lt" and hi(a) and lo(b):
        return [(bb, f_t)] if pos else [(bb, t_t)]
    return None


# ---------------------------------------------------------------------------------------------------------------
# Path specialisation: a loop-free function read one acyclic path at a time.
#
# The provenance terms are flow-insensitive: a local assigned on two paths (`let covered = a || b;`, `let v = match …`)
# is opaque to them.  On ONE path every local is assigned at most once, so the path — copied out as a straight-line body
# — has exact terms for every branch condition taken and for the value returned.  Paths whose conditions contradict
# each other (a constant tested against the other edge, the same discriminant taken two ways) are infeasible and dropped.

def spec_paths(body, max_paths=600):
    """[(conds, ret, blocks)] or None if the body has a loop / too many paths.  conds = [(term, allowed, excluded, dty)]
    with allowed = {v} for a listed edge, excluded = {listed…} for the otherwise edge; ret = term of _0 at the return."""
    import copy
    from engine.facts import Body
    raw = []
    stack = [(0, (), ())]
    while stack:
        bb, path, choices = stack.pop()
        if bb in path:
            return None
        path = path + (bb,)
        t = body.term(bb)
        k = t["t"]
        if k == "return":
            raw.append((path, choices))
            if len(raw) > max_paths:
                return None
        elif k == "switch":
            listed = [v for v, _ in t["targets"]]
            for v, tb in t["targets"]:
                stack.append((tb, path, choices + ((len(path) - 1, frozenset([v]), None),)))
            stack.append((t["otherwise"], path, choices + ((len(path) - 1, None, frozenset(listed)),)))
        elif k in ("goto", "drop", "assert", "call", "falseedge", "falseunwind"):
            tgt = t.get("target", t.get("real_target"))
            if tgt is not None:
                stack.append((tgt, path, choices))
    out = []
    for path, choices in raw:
        blocks = []
        for i, bb in enumerate(path):
            blk = body.blocks[bb]
            t = blk["term"]
            nt = {"t": "goto", "target": i + 1, "sp": t.get("sp")}
            if t["t"] == "return":
                nt = dict(t)
            elif t["t"] == "call":
                nt = {k_: v_ for k_, v_ in t.items() if k_ not in ("unwind", "cleanup_target")}
                nt["target"] = i + 1
            blocks.append({"stmts": blk["stmts"], "term": nt})
        rec = {k_: v_ for k_, v_ in body.rec.items() if k_ != "blocks"}
        rec["locals"] = [dict(l) for l in body.rec["locals"]]
        rec["blocks"] = copy.deepcopy(blocks)
        pb = Body(rec, body.facts)
        sy = Sym(pb)
        conds = []
        feasible = True
        seen = {}
        for i, allowed, excluded in choices:
            t = body.term(path[i])
            d = strip_deep(sy.operand(t["discr"]))
            if d[0] == "const" and isinstance(d[1], (int, bool)):
                v = int(d[1])
                if (allowed is not None and v not in allowed) or (excluded is not None and v in excluded):
                    feasible = False
                continue
            key = render(d)
            a0, e0 = seen.get(key, (None, frozenset()))
            if allowed is not None:
                a0 = allowed if a0 is None else (a0 & allowed)
            else:
                e0 = e0 | excluded
            if a0 is not None and not (a0 - e0):
                feasible = False
            seen[key] = (a0, e0)
            conds.append((d, allowed, excluded, t.get("dty")))
        if feasible:
            out.append((conds, strip_deep(sy.local(0)), path))
    return out


def decide_order_paths(body, names, spec, assume):
    """engine.orderlogic.decide on the specialised paths (handles `!(a || b)`, early returns through bool temporaries)."""
    import itertools
    from engine import orderlogic as OL
    sp = spec_paths(body)
    if sp is None:
        return False, "not loop-free"
    ps = []
    for conds, ret, _ in sp:
        cs = []
        for d, allowed, excluded, dty in conds:
            if dty != "bool":
                return False, "branches on a non-boolean"
            truth = (allowed is None) if True else None
            if allowed is not None:
                truth = 0 not in allowed
            cs.append((OL.atom(d), truth))
        ps.append((cs, ret))
    qs = OL.leaves(ps)
    nm = {q: names[K.alpha(q, body)] for q in qs if K.alpha(q, body) in names}
    if [q for q in qs if q not in nm] or not nm:
        return False, "compares quantities outside the specification: %s" % [q for q in qs if q not in nm]
    # every quantity of the specification is varied, also one the function never looks at (it must then not matter)
    snames = sorted(set(nm.values()) | set(getattr(spec, "quantities", ())))
    k = max(len(snames), 2)
    n = 0
    for vals in itertools.product(range(k), repeat=len(snames)):
        senv = dict(zip(snames, vals))
        if assume and not assume(senv):
            continue
        n += 1
        env = {q: senv[nm[q]] for q in nm}
        got = OL.evaluate(ps, env)
        if got is None or got != spec(senv):
            return False, {"ordering": senv, "function": got, "specification": spec(senv)}
    return n > 0, {"orderings": n, "paths": len(ps)}


def check_block_predicates(ctx, f):
    """K.check_block_predicates; a predicate its flow-insensitive reading cannot follow is decided path by path."""
    tee = Tee(ctx)
    K.check_block_predicates(tee, f)
    CH = "repository::resources::chain::Block::"
    M = {"Block::min(self)": "a", "Block::max(self)": "b", "Block::min(%2)": "c", "Block::max(%2)": "d", "%2": "x"}

    def sp(fn, q):
        fn.quantities = q
        return fn
    specs = {
        "is_encompassed": sp(lambda e: e["c"] <= e["a"] and e["b"] <= e["d"], ("a", "b", "c", "d")),
        "intersects": sp(lambda e: e["a"] <= e["d"] and e["c"] <= e["b"], ("a", "b", "c", "d")),
        "contains": sp(lambda e: e["a"] <= e["x"] <= e["b"], ("a", "b", "x")),
        "is_equivalent": sp(lambda e: e["a"] == e["c"] and e["b"] == e["d"], ("a", "b", "c", "d")),
    }

    def rescue(rule, key):
        m = re.match(r"^Block::(\w+):order-table$", key)
        if not m or m.group(1) not in specs:
            return None
        meth = m.group(1)
        b = f.body(CH + meth)
        if b is None or any(re.search(r" as repository::resources::chain::Block>::%s$" % meth, n2) for n2 in f.bodies):
            return None
        ok, det = decide_order_paths(b, M, specs[meth], lambda e: e.get("a", 0) <= e.get("b", 0) and e.get("c", 0) <= e.get("d", 0))
        return "decided path by path: %s" % (det,) if ok else None
    tee.flush(rescue)


class Tee:
    """Collects the obligations of a shared rule instance so that a failing one can be re-decided on the entry view
    before it is reported (`rescue(key) -> reason or None`).  Nothing that holds is touched, nothing is dropped."""

    def __init__(self, ctx):
        self._ctx = ctx
        self.obs = []

    def __getattr__(self, n):
        return getattr(self._ctx, n)

    def ob(self, rule, key, ok, what, where=None, detail=None, nontrivial=True):
        self.obs.append([rule, key, bool(ok) and not _EV_ONLY, what, where, detail, nontrivial])
        return bool(ok)

    def missing(self, rule, key, what):
        return self.ob(rule, key, False, "anchor missing: " + what)

    def floor(self, rule, name, count, minimum):
        return self.ob(rule, "floor:" + name, count >= minimum,
                       "%s: matched %d instance(s), floor %d" % (name, count, minimum), nontrivial=False)

    def flush(self, rescue):
        for rule, key, ok, what, where, detail, nontrivial in self.obs:
            if not ok:
                why = None if _OLD_ONLY else rescue(rule, key)
                if why:
                    ok = True
                    what += "  [as written the pattern is not matched; established on the entry views: %s]" % why
            self._ctx.ob(rule, key, ok, what, where=where, detail=detail, nontrivial=nontrivial)
        self.obs = []




def _roles(ev):
    """Entry parameters by position / type: (self, issuer-or-None, now-or-None)."""
    names = [ev.local_name(i) or "_%d" % i for i in range(1, ev.arg_count + 1)]
    tys = [ev.local_ty(i) for i in range(1, ev.arg_count + 1)]
    me = names[0] if names else None
    issuer = None
    now = None
    for n, t in zip(names[1:], tys[1:]):
        if issuer is None and t.replace("&", "").strip().endswith("cert::ResourceCert"):
            issuer = n
        if now is None and t.endswith("x509::Time"):
            now = n
    return me, issuer, now


def _is_param(t, name):
    p = fpath(t)
    return p is not None and p[0] == name and all(s_[0].isdigit() for s_ in p[1])


def _mp(evf, name, sink=None, guard=None):
    return MustPass(evf, sink or (lambda c: False),
                    guard_fn=(lambda b, s, bb: guard(b, s, bb)) if guard else None, name=name)


def run(ctx):
    f = ctx.facts()
    ctx.rule("R-CHK", "every success path passes a checked call to the sink (interprocedural)")
    ctx.rule("R-GRD", "success requires the guard literal (graph cut on its true edges)")
    ctx.rule("R-FLOW", "operand provenance (backward slice) is the required source")
    ctx.rule("R-WHO", "construction sites of a type are exactly the confirmed ones")
    ctx.rule("R-REG", "the per-block containment / overlap tests behind verify_issued equal the interval definition on every ordering")
    check_block_predicates(ctx, f)

    all_entries = ENTRY_ISSUED_VERIFY + ENTRY_TA_VERIFY + ENTRY_ISSUED_VALIDATE + ENTRY_TA_VALIDATE
    issued = ENTRY_ISSUED_VERIFY + ENTRY_ISSUED_VALIDATE
    for e in all_entries:
        if f.body(CERT + e) is None:
            ctx.missing("R-CHK", "entry:" + e, "public entry point %s%s" % (CERT, e))
    entries = [e for e in all_entries if f.body(CERT + e)]
    evf = EntryFacts(f, [CERT + e for e in entries])

    VIA = {"validate_ca_at": "verify_ca_at", "validate_ee_at": "verify_ee_at", "validate_detached_ee_at": "verify_ee_at",
           "validate_router_at": "verify_router_at", "validate_ta_at": "verify_ta_at"}
    _memo = {}

    def on_ev(e, make, tag=None):
        """Decide a must-pass rule on the entry view of `e`; make(ev, self, issuer, now) -> MustPass.  With a tag, a
        validate_* entry is judged by composition: every success path passes a checked call to its verify_* twin, for
        which the rule holds on the twin's entry view (the inspection half cannot establish a verification fact)."""
        if _OLD_ONLY:
            return False
        if tag is not None and (tag, e) in _memo:
            return _memo[(tag, e)]
        r = False
        try:
            if tag is not None and e in VIA:
                if f.body(CERT + VIA[e]) is not None and on_ev(VIA[e], make, tag):
                    r = bool(MustPass(f, lambda c: c.res == CERT + VIA[e], name=VIA[e]).holds(CERT + e))
            else:
                ev = evf.ev(CERT + e)
                if ev is not None:
                    mp = make(ev, *_roles(ev))
                    if isinstance(mp, tuple):
                        r = all(m.holds(CERT + e) for m in mp)
                    elif mp is not None:
                        r = bool(mp.holds(CERT + e))
        except Exception:
            r = False
        if tag is not None:
            _memo[(tag, e)] = r
        return r

    # ---- C01.a skeleton ----------------------------------------------------
    mp_validity = MustPass(f, K.sink_validity_verify_at, name="Validity::verify_at")
    mp_sig = MustPass(f, K.sink_verify_sig, name="aws_lc_rs verify_sig")
    is_vi = lambda c: K.res_matches(c, r"resources::(ipres::IpBlocks|asres::AsBlocks)::verify_issued$")
    mp_issued = MustPass(f, is_vi, name="verify_issued")
    is_vi_term = lambda t: strip(t)[0] == "call" and re.search(r"resources::(ipres::IpBlocks|asres::AsBlocks)::verify_issued$", strip(t)[1] or "") is not None

    def window_mps(ev, me, issuer, now):
        """On the entry view: not_before <= now and now <= not_after of the certificate's own validity."""
        if now is None:
            return None
        nb = lambda t: is_field(t, me, "not_before", "x509::Validity")
        na = lambda t: is_field(t, me, "not_after", "x509::Validity")
        nw = lambda t: _is_param(t, now)
        return (_mp(evf, "not_before <= now", guard=lambda b, s, bb: order_edges(b, s, bb, nb, nw)),
                _mp(evf, "now <= not_after", guard=lambda b, s, bb: order_edges(b, s, bb, nw, na)))

    def window_ok(e):
        return on_ev(e, window_mps, "window")

    def sig_args_ok(ev, me, issuer, c, ta):
        a = [strip_deep(x) for x in (K.sym_of(ev).operand(x) for x in c.args)]
        if len(a) < 4:
            return False
        signer = me if ta else issuer
        if signer is None:
            return False
        return derives_from(a[1], signer, [("subject_public_key_info", "cert::TbsCert"), ("bits", "keys::PublicKey")]) and \
            derives_from(a[2], me, [("signed_data", "cert::Cert"), ("data", "x509::SignedData")]) and \
            derives_from(a[3], me, [("signed_data", "cert::Cert"), ("signature", "x509::SignedData"), ("value", "Signature")])

    def sig_ok(e):
        if _OLD_ONLY:
            return False
        if ("sig", e) not in _memo:
            if e in VIA:
                r = f.body(CERT + VIA[e]) is not None and sig_ok(VIA[e]) and \
                    bool(MustPass(f, lambda c: c.res == CERT + VIA[e], name=VIA[e]).holds(CERT + e))
            else:
                r = _sig_ok(e)
            _memo[("sig", e)] = r
        return _memo[("sig", e)]

    def _sig_ok(e):
        """Every success path of the entry view passes a checked verify_sig(<signer's key bits>, <own signed bytes>, <own
        signature value>), no verify_sig call there has other operands, and the key format agrees with the signature
        algorithm on every success path."""
        ev = evf.ev(CERT + e)
        if ev is None:
            return False
        me, issuer, now = _roles(ev)
        ta = e in ENTRY_TA_VERIFY + ENTRY_TA_VALIDATE
        try:
            sinks = [c for c in ev.calls() if c.is_static and not ev.is_cleanup(c.bb) and K.sink_verify_sig(c)]
            if not sinks or not all(sig_args_ok(ev, me, issuer, c, ta) for c in sinks):
                return False
            good = lambda c: c.body is ev and K.sink_verify_sig(c) and sig_args_ok(ev, me, issuer, c, ta)
            if not _mp(evf, "verify_sig", sink=good).holds(CERT + e):
                return False
            signer = me if ta else issuer
            fmt = eq_sides_matcher(
                lambda t: strip(t)[0] == "call" and (strip(t)[3] or {}).get("name") == "public_key_format" and
                derives_from(t, me, [("signed_data", "cert::Cert"), ("signature", "x509::SignedData"), ("algorithm", "Signature")]),
                lambda t: is_field(t, signer, "algorithm", "keys::PublicKey") and is_field(t, signer, "subject_public_key_info", None) is False and
                derives_from(t, signer, [("subject_public_key_info", "cert::TbsCert"), ("algorithm", "keys::PublicKey")]))
            return bool(_mp(evf, "format", guard=lambda b, s, bb: guard_edges(b, s, bb, fmt)).holds(CERT + e))
        except Exception:
            return False

    for e in entries:
        fn = CERT + e
        ctx.saw_fn(fn)
        ok = mp_validity.holds(fn) and not _EV_ONLY
        how = None
        if not ok and window_ok(e):
            ok, how = True, "  [entry view: success requires not_before <= now <= not_after of self.validity]"
        ctx.ob("R-CHK", "%s→Validity::verify_at" % e, ok,
               "every success path of Cert::%s checks the validity window%s" % (e, how or ""),
               where=f.body(fn).loc, detail=None if ok else K.why(f, mp_validity, fn))
        ok = (mp_sig.holds(fn) and not _EV_ONLY) or sig_ok(e)
        ctx.ob("R-CHK", "%s→verify_sig" % e, ok,
               "every success path of Cert::%s verifies a signature" % e,
               where=f.body(fn).loc, detail=None if ok else K.why(f, mp_sig, fn))
    fams = {"v4_resources": "ipres::IpBlocks::verify_issued", "v6_resources": "ipres::IpBlocks::verify_issued",
            "as_resources": "asres::AsBlocks::verify_issued"}

    def vi_call_ok(f_, t, fam, me, issuer):
        """t = <issuer's validated fam>.verify_issued(<self's claimed fam>, <self's overclaim policy>)"""
        t = strip(t)
        if t[0] != "call" or not (t[1] or "").endswith(fams[fam]) or len(t[2]) != 3:
            return False
        a = [strip_deep(x) for x in t[2]]
        return issuer is not None and is_field(a[0], issuer, fam, "cert::ResourceCert", exact=True) and \
            is_field(a[1], me, fam, "cert::TbsCert", exact=True) and is_field(a[2], me, "overclaim", "cert::TbsCert", exact=True)

    for e in issued:
        fn = CERT + e
        if not f.body(fn):
            continue
        ok = (mp_issued.holds(fn) and not _EV_ONLY) or on_ev(e, lambda ev, me, issuer, now: _mp(
            evf, "verify_issued", sink=is_vi, guard=lambda b, s_, bb: ok_edges(f, b, s_, bb, is_vi_term)), "vi")
        ctx.ob("R-CHK", "%s→verify_issued" % e, ok,
               "every success path of Cert::%s runs the resource issuance check" % e,
               where=f.body(fn).loc, detail=None if ok else K.why(f, mp_issued, fn))
        # … on the issuer's validated resources of each family the certificate kind carries
        need = ["as_resources"] if "router" in e else ["v4_resources", "v6_resources", "as_resources"]
        for fam in need:
            def make(ev, me, issuer, now, fam=fam):
                sy = K.sym_of(ev)
                good = lambda t: vi_call_ok(f, t, fam, me, issuer)
                return _mp(evf, "verify_issued[%s]" % fam,
                           sink=lambda c: c.body is ev and is_vi(c) and good(sy.call(c.t, c.bb)),
                           guard=lambda b, s_, bb: ok_edges(f, b, s_, bb, good) if b is ev else None)
            ok = on_ev(e, make, "vi:" + fam)
            ctx.ob("R-CHK", "%s→verify_issued[%s]" % (e, fam), ok,
                   "every success path of Cert::%s passes issuer.%s.verify_issued(self.%s, self.overclaim), checked" % (e, fam, fam),
                   where=f.body(fn).loc)
    # convenience wrappers (now = Time::now()) delegate to the *_at twin
    for w, tgt in WRAPPERS.items():
        fn = CERT + w
        b = f.body(fn)
        if b is None:
            continue
        mp = MustPass(f, lambda c, tgt=tgt: c.res == CERT + tgt, name=tgt)
        ok = mp.holds(fn)
        ctx.ob("R-CHK", "%s→%s" % (w, tgt), ok, "Cert::%s only succeeds through Cert::%s" % (w, tgt),
               where=b.loc, detail=None if ok else K.why(f, mp, fn))

    # ---- C01.b issuer claim ------------------------------------------------
    aki_guard = eq_matcher(r"authority_key_identifier\(self\)", r"subject_key_identifier\(issuer(\.cert)?\)")
    mp_aki = MustPass(f, lambda c: False, guard_fn=lambda b, s, bb: guard_edges(b, s, bb, aki_guard),
                      name="AKI == issuer SKI")

    def aki_make(ev, me, issuer, now):
        if issuer is None:
            return None
        m = eq_sides_matcher(None, lambda t: is_field(t, issuer, "subject_key_identifier", "cert::TbsCert"), f=f,
                             opt_a=lambda t: is_field(t, me, "authority_key_identifier", "cert::TbsCert", exact=True))
        return _mp(evf, "AKI == issuer SKI", guard=lambda b, s, bb: guard_edges(b, s, bb, m))

    for e in issued:
        fn = CERT + e
        if not f.body(fn):
            continue
        ok = on_ev(e, aki_make, "aki") or (mp_aki.holds(fn) and not _EV_ONLY)
        ctx.ob("R-GRD", "%s:aki==issuer.ski" % e, ok,
               "Cert::%s succeeds only if authority_key_identifier(self) == subject_key_identifier(issuer)" % e,
               where=f.body(fn).loc, detail=None if ok else K.why(f, mp_aki, fn))
    # TA: if AKI present it must equal own SKI
    check_ta_aki(ctx, f, evf)

    # ---- C01.c SKI is the key hash ------------------------------------------
    ski_guard = eq_matcher(r"^TbsCert::subject_key_identifier\(self\)$",
                           r"key_identifier\(TbsCert::subject_public_key_info\(self\)\)")
    mp_ski = MustPass(f, lambda c: False, guard_fn=lambda b, s, bb: guard_edges(b, s, bb, ski_guard),
                      name="SKI == key_identifier(SPKI)")

    def ski_make(ev, me, issuer, now):
        def keyhash(t):
            t = strip(t)
            return t[0] == "call" and t[1] == "crypto::keys::PublicKey::key_identifier" and len(t[2]) == 1 and \
                is_field(strip_deep(t[2][0]), me, "subject_public_key_info", "cert::TbsCert", exact=True)
        m = eq_sides_matcher(lambda t: is_field(t, me, "subject_key_identifier", "cert::TbsCert"), keyhash)
        return _mp(evf, "SKI == key_identifier(SPKI)", guard=lambda b, s, bb: guard_edges(b, s, bb, m))

    for e in ENTRY_ISSUED_VALIDATE + ENTRY_TA_VALIDATE:
        fn = CERT + e
        if not f.body(fn):
            continue
        ok = on_ev(e, ski_make) or (mp_ski.holds(fn) and not _EV_ONLY)
        ctx.ob("R-GRD", "%s:ski==hash(key)" % e, ok,
               "Cert::%s succeeds only if subject_key_identifier(self) == key_identifier(subject_public_key_info(self))" % e,
               where=f.body(fn).loc, detail=None if ok else K.why(f, mp_ski, fn))
    check_key_identifier(ctx, f)

    # ---- C01.d which key, which bytes ---------------------------------------
    verify_entries = [e for e in ENTRY_ISSUED_VERIFY + ENTRY_TA_VERIFY if f.body(CERT + e)]
    _sig = {}

    def sig_cached(e):
        if e not in _sig:
            _sig[e] = sig_ok(e)
        return _sig[e]

    tee = Tee(ctx)
    K.check_signed_data_flow(tee, f)
    for e in ENTRY_ISSUED_VERIFY:
        b = f.body(CERT + e)
        if b is None:
            continue
        K.check_sig_key_provenance(tee, f, b, e, want="issuer", forbid="self")
    for e in ENTRY_TA_VERIFY:
        b = f.body(CERT + e)
        if b is None:
            continue
        K.check_sig_key_provenance(tee, f, b, e, want="self", forbid=None)
    K.check_public_key_verify_format_guard(tee, f)

    def rescue_sig(rule, key):
        # per-entry operand obligations: that entry's view; obligations about the shared plumbing (SignedData::
        # verify_signature, PublicKey::verify, PublicKeyFormat::verify): every certificate entry point's view
        m = re.match(r"^(?:floor:)?(\w+):(?:key|message|signature|verify_sig chains)", key)
        if m and m.group(1) in verify_entries:
            return "verify_sig operands of Cert::%s" % m.group(1) if sig_cached(m.group(1)) else None
        if key.startswith(("SignedData::verify_signature-args", "PublicKey::verify:", "PublicKeyFormat::verify", "floor:verify_sig call sites")):
            if verify_entries and all(sig_cached(e) for e in verify_entries):
                return "verify_sig operands and key-format agreement in all %d verify entry points" % len(verify_entries)
        return None
    tee.flush(rescue_sig)

    # ---- C01.e resources never grow — dataflow part --------------------------
    check_resource_cert_sites(ctx, f, evf, vi_call_ok)
    check_verify_issued(ctx, f)
    check_from_resources(ctx, f)
    check_overclaim_writers(ctx, f)

    # ---- C01.f validity window ------------------------------------------------
    tee = Tee(ctx)
    K.check_validity_window(tee, f)
    _win = {}

    def rescue_window(rule, key):
        # Time::verify_not_before / verify_not_after / Validity::verify_at are plumbing; what the property needs is
        # that every entry point succeeds only inside the window and can succeed inside it
        for e in entries:
            if e not in _win:
                _win[e] = window_ok(e) and window_open(evf, e)
        if entries and all(_win.values()):
            return "not_before <= now <= not_after is required, and accepted, in all %d entry points" % len(entries)
        return None
    tee.flush(rescue_window)


def window_open(evf, e):
    """The window test does not reject everything: both literal-true edges lie on a success path of the entry view."""
    ev = evf.ev(CERT + e)
    if ev is None:
        return False
    me, issuer, now = _roles(ev)
    if now is None:
        return False
    oc = outcome(ev)
    reach = oc.success_reach()
    nb = lambda t: is_field(t, me, "not_before", "x509::Validity")
    na = lambda t: is_field(t, me, "not_after", "x509::Validity")
    nw = lambda t: _is_param(t, now)
    seen = [False, False]
    for bi, blk in enumerate(ev.blocks):
        if blk["term"]["t"] != "switch" or blk.get("cleanup"):
            continue
        for k, (lo, hi) in enumerate(((nb, nw), (nw, na))):
            ed = order_edges(ev, oc.sym, bi, lo, hi)
            if ed and any(tb in reach for _, tb in ed):
                seen[k] = True
    return all(seen)


def check_ta_aki(ctx, f, evf):
    """A trust anchor whose authority key identifier is present and differs from its subject key identifier is
    rejected: on the entry view of validate_ta_at no success path leaves a test of the two on its 'differs' edge."""
    ta_guard = eq_matcher(r"self\.authority_key_identifier|authority_key_identifier\(self\)",
                          r"subject_key_identifier\(self\)|self\.subject_key_identifier")
    b = f.body(CERT + "inspect_ta")
    ok, detail = (False, "Cert::inspect_ta is gone")
    if b is not None:
        ok, detail = K.guard_false_edge_fails(b, ta_guard)
    if _EV_ONLY:
        ok = False
    if not ok:
        e = "validate_ta_at"
        ev = evf.ev(CERT + e) if f.body(CERT + e) else None
        if ev is not None:
            me = _roles(ev)[0]
            m = eq_sides_matcher(None, lambda t: is_field(t, me, "subject_key_identifier", "cert::TbsCert"), f=f,
                                 opt_a=lambda t: is_field(t, me, "authority_key_identifier", "cert::TbsCert", exact=True))
            ok2, detail2 = K.guard_false_edge_fails(ev, m)
            if ok2:
                ok, detail = True, None
            else:
                detail = {"as_written": detail, "entry_view": detail2}
    where = b.loc if b is not None else None
    ctx.ob("R-GRD", "inspect_ta:aki==ski", ok,
           "a trust anchor is rejected when an authority key identifier is present and differs from the SKI",
           where=where, detail=detail)


def check_key_identifier(ctx, f):
    """PublicKey::key_identifier = SHA-1 over the key's bit string: the digest call's operands by what they are (the
    algorithm constant, a value derived from self.bits only), and the result built from that digest."""
    tee = Tee(ctx)
    K.check_key_identifier_is_sha1_of_bits(tee, f)

    def rescue(rule, key):
        fn = "crypto::keys::PublicKey::key_identifier"
        b = f.body(fn)
        if b is None:
            return None
        try:
            nb = INL.inlined(f, b, 4, _ev_select, 120)
        except Exception:
            nb = b
        s = K.sym_of(nb)
        me = nb.local_name(1) or "_1"
        digs = [c for c in nb.calls() if c.is_static and not nb.is_cleanup(c.bb) and c.name == "digest" and (c.krate or "").startswith("aws_lc")]
        if len(digs) != 1:
            return None
        c = digs[0]
        a = [strip_deep(s.operand(x)) for x in c.args]
        alg_ok = any(x[0] == "cdef" and x[1].endswith("SHA1_FOR_LEGACY_USE_ONLY") for x in walk(a[0])) or "SHA1_FOR_LEGACY_USE_ONLY" in render(a[0])
        src_ok = derives_from(a[1], me, [("bits", "keys::PublicKey")])
        ret = strip_deep(s.local(0))
        ret_ok = any(x[0] == "call" and (x[3] or {}).get("bb") == c.bb and (x[3] or {}).get("name") == "digest" for x in walk(ret))
        if key.startswith("key_identifier=sha1") and alg_ok and src_ok:
            return "digest(SHA1, value derived from self.bits only)"
        if key.startswith("key_identifier-returns") and ret_ok:
            return "returned value is built from the digest"
        return None
    tee.flush(rescue)


def _covered(f, fn, roots_, seen=None):
    """Every execution of `fn` happens inside one of `roots_`: it is one of them, or it is private, never used as a
    value, and all its callers are covered."""
    seen = seen or set()
    if fn in roots_:
        return True
    if fn in seen:
        return True
    seen = seen | {fn}
    r = f.fns.get(fn)
    if r is None or r.get("exported") or r.get("impl_trait"):
        return False
    callers = set()
    for b in f.bodies.values():
        for c in b.calls():
            if c.is_static and c.res == fn:
                callers.add(root_fn(f, b.name))
        for blk in b.blocks:
            t = blk["term"]
            if t["t"] == "call":
                for a in t["args"]:
                    k = a.get("k") if isinstance(a, dict) else None
                    if k and "fn" in k and (k.get("res") or k["fn"]) == fn:
                        return False
    return all(_covered(f, c, roots_, seen) for c in callers)


def check_resource_cert_sites(ctx, f, evf, vi_call_ok):
    RC = "repository::cert::ResourceCert"
    sites = [x for x in aggregates_of(f, RC) if not is_derived(x[0])]
    fns = sorted({root_fn(f, b.name) for b, _, _, _ in sites})
    judged = {"issued": ["verify_ca_at", "verify_ee_at"], "ta": ["verify_ta_at"]}
    roots_ = {CERT + e for v in judged.values() for e in v if f.body(CERT + e)}
    stray = [x for x in fns if not _covered(f, x, roots_)]
    ctx.ob("R-WHO", "ResourceCert-literal-sites", bool(fns) and not stray,
           "ResourceCert {..} is built only inside verify_ca_at / verify_ee_at / verify_ta_at (directly or in private code "
           "reachable only from them), where every such value is judged below",
           detail={"sites": fns, "not_confined_to_the_judged_entry_points": stray})
    adt = f.adts.get(RC)
    if adt:
        priv = all(fl["vis"] != "pub" for v in adt["variants"] for fl in v["fields"])
        ctx.ob("R-WHO", "ResourceCert-fields-private", priv,
               "all fields of ResourceCert are private (no construction outside the crate)")
    else:
        ctx.missing("R-WHO", "ResourceCert-adt", RC)
    fams = ("v4_resources", "v6_resources", "as_resources")

    def every_def(sym, v, pred, depth=0):
        """pred on the value, or — for a local assigned on several paths — on each of its definitions."""
        v = strip_deep(v)
        if v[0] == "var" and depth < 3:
            ds = sym.defs_of_var(v[2])
            return bool(ds) and all(every_def(sym, d, pred, depth + 1) for _, d in ds)
        return pred(v)

    for kind, es in judged.items():
        for e in es:
            if f.body(CERT + e) is None:
                continue
            ev = evf.ev(CERT + e)
            if ev is None:
                ctx.missing("R-FLOW", "%s:ResourceCert" % e, "entry view of " + e)
                continue
            ctx.saw_fn(CERT + e)
            me, issuer, now = _roles(ev)
            sym = K.sym_of(ev)
            esites = []
            for bi, blk in enumerate(ev.blocks):
                if blk.get("cleanup"):
                    continue
                for si, st in enumerate(blk["stmts"]):
                    if st["s"] == "assign" and st["rv"]["r"] == "agg" and st["rv"].get("ak") == "adt" and st["rv"]["adt"] == RC:
                        esites.append((bi, si, st))
            ctx.floor("R-FLOW", "%s: ResourceCert values built" % e, len(esites), 1)
            for bi, si, st in esites:
                fields = dict(sym.rvalue(st["rv"])[3])
                for fam in fams:
                    v = fields.get(fam, ("unknown", "missing"))
                    if kind == "issued":
                        def pred(x, fam=fam):
                            p = payload_of(f, x)
                            return p is not None and vi_call_ok(f, p, fam, me, issuer)
                        what = "ResourceCert.%s = Ok-payload of issuer.%s.verify_issued(self.%s, self.overclaim)" % (fam, fam, fam)
                    else:
                        def pred(x, fam=fam):
                            p = payload_of(f, x)
                            if p is None:
                                return False
                            p = strip(p)
                            owner = "ipres::IpBlocks::from_resources" if fam != "as_resources" else "asres::AsBlocks::from_resources"
                            return p[0] == "call" and (p[1] or "").endswith(owner) and len(p[2]) == 1 and \
                                is_field(strip_deep(p[2][0]), me, fam, "cert::TbsCert", exact=True)
                        what = "TA ResourceCert.%s = Ok-payload of from_resources(self.%s)" % (fam, fam)
                    ok = every_def(sym, v, pred)
                    ctx.ob("R-FLOW", "%s:ResourceCert.%s" % (e, fam), ok, what, where=ev.where(bi, si),
                           detail=None if ok else render(strip_deep(v))[:400])
                cert = strip_deep(fields.get("cert", ("unknown",)))
                ctx.ob("R-FLOW", "%s:ResourceCert.cert" % e, _is_param(cert, me) and fpath(cert)[1] == [],
                       "ResourceCert.cert is the certificate being verified", where=ev.where(bi, si), detail=render(cert)[:200])


def _variant_index(f, adt, name, default):
    a = f.adts.get(adt)
    if a:
        names = [v["name"] for v in a["variants"]]
        if name in names:
            return names.index(name)
    return default


def _possible(conds, is_subject, idx):
    """Can the discriminant of the subject be `idx` on this path?  (unconstrained = yes)"""
    for d, allowed, excluded, dty in conds:
        if d[0] == "discr" and is_subject(strip_deep(d[1])):
            if allowed is not None and idx not in allowed:
                return False
            if excluded is not None and idx in excluded:
                return False
    return True


def _is_ok_value(ret):
    r = strip(ret)
    if r[0] == "agg" and r[2] in ("Err", "None"):
        return None
    if r[0] == "call" and (r[3] or {}).get("name") == "from_residual":
        return None
    if r[0] == "agg" and r[2] in ("Ok", "Some") and r[3]:
        return strip_deep(r[3][0][1])
    return ("unknown", "opaque success value")


def from_resources_by_paths(f, b):
    """No feasible path of from_resources on which the choice may be Inherit returns Ok."""
    sp = spec_paths(b)
    if sp is None:
        return False, "not loop-free"
    res = b.local_name(1) or "_1"
    inh = _variant_index(f, "repository::resources::choice::ResourcesChoice", "Inherit", 0)
    subj = lambda t: (fpath(t) or (None,))[0] == res
    n_ok = 0
    for conds, ret, path in sp:
        if _is_ok_value(ret) is None:
            continue
        n_ok += 1
        if _possible(conds, subj, inh):
            return False, "a path returning Ok admits Inherit: blocks %s" % (list(path),)
    return n_ok > 0, "%d Ok paths, none admits Inherit" % n_ok


def verify_issued_by_paths(f, b):
    """IpBlocks/AsBlocks::verify_issued decided path by path (parameters by position: self = issuer's blocks, 2 = the
    claimed resources, 3 = the overclaim policy):
      Ok(empty())                      — anywhere;
      Ok(issuer's own blocks)          — only where the claim can only be Inherit;
      Ok(claimed blocks)               — only after the containment test of (issuer, claimed) came out true, or trim said Ok;
      Ok(intersection / trim result)   — of exactly (claimed, issuer);
      and no Ok at all on a path where the containment test came out false and the policy may be Refuse."""
    sp = spec_paths(b)
    if sp is None:
        return False, "not loop-free"
    me, res, mode = (b.local_name(i) or "_%d" % i for i in (1, 2, 3))
    RCH = "repository::resources::choice::ResourcesChoice"
    inh = _variant_index(f, RCH, "Inherit", 1)
    nvar = len((f.adts.get(RCH) or {}).get("variants", [])) or 3
    refuse = _variant_index(f, "repository::cert::Overclaim", "Refuse", 0)
    is_res = lambda t: (fpath(t) or (None,))[0] == res
    is_mode = lambda t: _is_param(t, mode)

    def claimed(t, inner=False):
        t = strip(t)
        if t[0] == "field" and str(t[2]) == "0":
            v = strip(t[1])
            if v[0] == "variant" and v[2] == "Blocks" and is_res(strip(v[1])):
                return True
            if inner:
                return claimed(v)
        return False

    def issuer(t, inner=False):
        p = fpath(t)
        return p is not None and p[0] == me and (p[1] == [] or (inner and len(p[1]) == 1 and p[1][0][0] == "0"))

    def cover(d):
        """containment test of exactly (issuer ⊇ claimed): contains(issuer, claimed) / is_encompassed(claimed, issuer)"""
        at = bool_atom(d)
        if at is None or not (isinstance(at[0], tuple) and at[0][0] == "pred"):
            return None
        nm, args, pos = at[0][2], at[1], at[3]
        if nm == "contains" and len(args) == 2 and issuer(args[0], True) and claimed(args[1], True):
            return pos
        if nm == "is_encompassed" and len(args) == 2 and claimed(args[0], True) and issuer(args[1], True):
            return pos
        return None

    def trim_call(t):
        t = strip(t)
        return t[0] == "call" and (t[3] or {}).get("name") == "trim" and len(t[2]) == 2 and claimed(t[2][0], True) and issuer(t[2][1], True)

    kinds = {}
    for conds, ret, path in sp:
        v = _is_ok_value(ret)
        if v is None:
            continue
        cov = None
        trim_ok = False
        for d, allowed, excluded, dty in conds:
            if dty == "bool":
                c = cover(d)
                if c is not None:
                    truth = (0 not in allowed) if allowed is not None else True
                    cov = (c == truth) if cov is None else (cov and (c == truth))
            elif d[0] == "discr" and trim_call(d[1]) and allowed == frozenset([0]):
                trim_ok = True
        if cov is False and _possible(conds, is_mode, refuse):
            return False, "Ok although the containment test failed and the policy may be Refuse: blocks %s" % (list(path),)
        params = {p_[0] for p_ in param_paths(v)}
        vs = strip(v)
        if vs[0] == "call" and (vs[3] or {}).get("name") == "empty" and not params:
            k = "empty"
        elif issuer(v):
            k = "issuer's own"
            if any(_possible(conds, is_res, i) for i in range(nvar) if i != inh):
                return False, "Ok(issuer's blocks) where the claim need not be Inherit: blocks %s" % (list(path),)
        elif claimed(v):
            k = "claimed"
            if not (cov is True or trim_ok):
                return False, "Ok(claimed blocks) without a successful containment test: blocks %s" % (list(path),)
        elif vs[0] == "call" and (vs[3] or {}).get("name") in ("intersection", "intersection_assign") and len(vs[2]) == 2 and \
                ((claimed(vs[2][0]) and issuer(vs[2][1])) or (issuer(vs[2][0]) and claimed(vs[2][1]))):
            k = "intersection"
        elif params <= {me, res} and any(x[0] == "variant" and x[2] == "Err" and trim_call(x[1]) for x in walk(v)):
            k = "trimmed"
        else:
            return False, "unrecognised success value %s on blocks %s" % (render(v)[:160], list(path))
        kinds[k] = kinds.get(k, 0) + 1
    need = {"empty", "issuer's own", "claimed"}
    if not need <= set(kinds) or not ({"intersection", "trimmed"} & set(kinds)):
        return False, "success values seen: %s" % kinds
    return True, "success values by path: %s" % kinds


def check_verify_issued(ctx, f):
    tee = Tee(ctx)
    K.check_verify_issued(tee, f)
    memo = {}

    def rescue(rule, key):
        for own, fn in (("IpBlocks::verify_issued", "repository::resources::ipres::IpBlocks::verify_issued"),
                        ("AsBlocks::verify_issued", "repository::resources::asres::AsBlocks::verify_issued")):
            if own in key:
                if fn not in memo:
                    b = f.body(fn)
                    try:
                        memo[fn] = verify_issued_by_paths(f, b) if b is not None else (False, "gone")
                    except Exception as e:
                        memo[fn] = (False, "error %s" % e)
                return memo[fn][1] if memo[fn][0] else None
        return None
    tee.flush(rescue)


def check_from_resources(ctx, f):
    """from_resources: the Inherit arm is an error (TA must not inherit)."""
    for owner in ("repository::resources::ipres::IpBlocks", "repository::resources::asres::AsBlocks"):
        fn = owner + "::from_resources"
        b = f.body(fn)
        if b is None:
            ctx.missing("R-GRD", "from_resources:" + short(owner), fn)
            continue
        ctx.saw_fn(fn)
        oc = outcome(b)
        sym = oc.sym
        ok = False
        detail = "no switch on the resource choice"
        for bi, blk in enumerate(b.blocks):
            t = blk["term"]
            if t["t"] != "switch":
                continue
            d = strip(sym.operand(t["discr"]))
            if d[0] == "discr" and roots(d[1]) and all(x[0] == "param" for x in roots(d[1])):
                reach = oc.success_reach()
                # variant 0 = Inherit must not reach success
                adt = f.adts.get("repository::resources::choice::ResourcesChoice")
                names = [v["name"] for v in adt["variants"]] if adt else ["Inherit", "Blocks"]
                inh = names.index("Inherit") if "Inherit" in names else 0
                edges = dict((v, tb) for v, tb in b.switch_edges(bi) if v is not None)
                other = t["otherwise"]
                tgt = edges.get(inh, other)
                ok = tgt not in reach
                detail = "Inherit edge → bb%d, success-reachable=%s" % (tgt, tgt in reach)
        if _EV_ONLY:
            ok = False
        if not ok and not _OLD_ONLY:
            try:
                ok2, d2 = from_resources_by_paths(f, b)
            except Exception as e_:
                ok2, d2 = False, "error %s" % e_
            if ok2:
                ok, detail = True, d2
            else:
                detail = {"as_written": detail, "by_paths": d2}
        ctx.ob("R-GRD", "from_resources:%s:inherit-fails" % short(owner), ok,
               "%s::from_resources returns Err for inherited resources" % short(owner), where=b.loc, detail=detail)


def check_overclaim_writers(ctx, f):
    """TbsCert.overclaim is written only by the decoder (policy OID) and builder setters."""
    TBS = "repository::cert::TbsCert"
    writers = set()
    for b in f.bodies.values():
        for bi, blk in enumerate(b.blocks):
            for s in blk["stmts"]:
                if s["s"] != "assign":
                    continue
                for p in s["pl"]["p"]:
                    if p[0] == "f" and p[1] == "overclaim" and p[2] == TBS:
                        writers.add(b.name)
                rv = s["rv"]
                if rv["r"] == "agg" and rv.get("ak") == "adt" and rv["adt"] == TBS:
                    writers.add(b.name)
    expected = {"repository::cert::TbsCert::from_constructed", "repository::cert::TbsCert::new",
                "repository::cert::TbsCert::set_overclaim"}
    writers = {root_fn(f, w) for w in writers if not is_derived(f.body(w))}
    extra = {w for w in writers if w not in expected}
    ok = not extra and len(writers) >= 2 and not _EV_ONLY
    detail = {"writers": sorted(writers)}
    if not ok and not _OLD_ONLY:
        # What the property needs: the policy a certificate is validated under is the one the decoder read from its
        # policy OID (or the one a builder was told) — nothing on the way from a validation entry point writes it.
        starts = [n for n in f.bodies if re.match(r"^repository::cert::Cert::(validate_|verify_|inspect_)\w+$", n)]
        seen = set(starts)
        work = list(starts)
        while work:
            n = work.pop()
            b = f.body(n)
            if b is None:
                continue
            nxt = [c.res for c in b.calls() if c.is_static and c.res in f.bodies] + list(f.children(n))
            for blk in b.blocks:
                t = blk["term"]
                if t["t"] == "call":
                    for a in t["args"]:
                        k = a.get("k") if isinstance(a, dict) else None
                        if k and "fn" in k:
                            nxt.append(k.get("res") or k["fn"])
            for m in nxt:
                if m not in seen and m in f.bodies:
                    seen.add(m)
                    work.append(m)
        hit = sorted(w for w in writers if w in seen)
        detail["writers_reachable_from_validation"] = hit
        ok = not hit and len(writers) >= 2 and "repository::cert::TbsCert::from_constructed" in writers and len(starts) >= 10
    ctx.ob("R-WHO", "TbsCert.overclaim-writers", ok,
           "TbsCert.overclaim is set only by the decoder and by builder code (constructor, setters); no function reachable "
           "from a validation entry point writes it", detail=detail)
