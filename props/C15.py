"""C15 — SLURM: a payload is dropped exactly when a filter of its kind matches
(decision tables, field coverage, assertion provenance; DESIGN §2 C15)."""
import re
from engine import absint
from engine.absint import outcome_str
from engine.rules import outcome, success_values, switch_bool_edges, bool_atom
from engine.sym import strip, strip_deep, render, walk, short
from props import common as K

META = {
    "level": "other",
    "technique": "static analysis of type-checked MIR (rustc_private driver): abstract interpretation of the filter decision functions into complete case tables; provenance of payload and serializer fields; list-coverage rule; symbolic bit-vector evaluation of the covering test (shared with C13); byte-equality delegation of the SKI comparison",
    "explanation": "The decision functions of the three filter kinds are abstractly interpreted — private helpers, accessors and "
                   "std's Option combinators read through, only the tests the specification is written in left opaque — and the "
                   "resulting case table must denote the specified decision function on every combination of present/absent "
                   "criteria, payload variant and test outcome (filter covers origin, argument order included); the container's "
                   "drop_payload is decided by constant propagation: every filter list whose element type has a drop_payload is "
                   "scanned whole, a match makes every return answer true, no match anywhere makes every return answer false; every "
                   "assertion's payload, constructor layers looked through, consists of exactly its own fields and iter_payload "
                   "chains all three whole lists; hand-written serializers write each field from the value's own data and omit "
                   "it only when that data is None; the covering test the prefix filter is written in (Prefix::covers) equals "
                   "range inclusion for every pair of lengths of either family (bit-vector evaluation over GF(2), shared with C13).",
    "not_decided": ["JSON round-trip equality (serde-derived; value equality)"],
    "trusted_base": ["Prefix's constructors clear the host bits (C13 R-WHO / host-bits guards)", "derived PartialEq of Asn and of KeyIdentifier (its hand-written PartialEq<T> is decided: byte equality)", "core slice equality"],
}

SL = "slurm::"


def _split_args(s):
    """Top-level comma-separated parts of an argument list text."""
    parts, depth, cur = [], 0, ""
    for ch in s:
        if ch in "([{":
            depth += 1
        elif ch in ")]}":
            depth -= 1
        if ch == "," and depth == 0:
            parts.append(cur.strip())
            cur = ""
        else:
            cur += ch
    if cur.strip():
        parts.append(cur.strip())
    return parts


def _call_span(s, start):
    """s[start] is just behind an opening parenthesis: index just behind its closing one."""
    depth, j = 1, start
    while j < len(s) and depth:
        depth += s[j] in "([{"
        depth -= s[j] in ")]}"
        j += 1
    return j


def canon_eq(s):
    """`T::eq(a, b)` (PartialEq::eq of two values of one type) is symmetric and its meaning does not depend on which
    impl path the compiler resolved it through: it reads `eq(a, b)` with the operands in sorted order, so that `a == b`
    and `b == a` read the same; `ne` reads `!eq`.  Nothing else is reordered — `covers(a, b)` keeps its argument order."""
    out = ""
    i = 0
    while True:
        m = re.search(r"(?<![\w:])((?:[\w]+::)+)(eq|ne)\(", s[i:])
        if not m:
            return out + s[i:]
        start = i + m.end()
        j = _call_span(s, start)
        args = [canon_eq(a) for a in _split_args(s[start:j - 1])]
        if len(args) == 2:
            args.sort()
        out += s[i:i + m.start()] + "%seq(%s)" % ("!" if m.group(2) == "ne" else "", ", ".join(args))
        i = j


# ---------------------------------------------------------------------------------------------
# The decision functions are read by the abstract interpreter, extended here by the documented contracts of a few more
# std combinators, and private / accessor functions of the crate are interpreted through (what a helper is called and
# where its body lives is not part of the decision).  The only things left opaque are the tests the specification
# itself is written in (Prefix::covers, equality of AS numbers and key identifiers, the per-kind decision functions).

from engine.absint import V, Lin, mk_const, mk_obj, show as _show


def _opt_variant(v):
    return v is not None and v.k == "variant" and v.vname in ("Some", "None")


class _Interp(absint.Interp):
    def inline_call(self, st, callee, args):
        # as absint.Interp.inline_call, the sub-interpreter being of this class
        sub = type(self)(self.facts, self.assume, self.inline, self.max_paths, self.max_visits, sym_names=self.sym_names)
        sub._fresh = self._fresh + 1000
        s0 = st.copy()
        s0.locals = {}
        for i, a in enumerate(args):
            s0.locals[i + 1] = a
        s0.visits = {}
        sub.explore(callee, s0, 0)
        out = []
        for p in sub.paths:
            s2 = st.copy()
            s2.zone = p.zone
            s2.effects = p.effects
            s2.conds = p.conds
            if p.outcome[0] == "return":
                out.append((s2, p.outcome[1]))
            else:
                s2.trace.append(("inlined %s %s" % (callee.name, p.outcome[0]), p.outcome[1]))
                out.append((s2, ("panic", p.outcome)))
        self.imprecise.extend(sub.imprecise)
        self._fresh = sub._fresh
        return out

    def _variant_names(self, objv, pl, body):
        names = super()._variant_names(objv, pl, body)
        if not names:
            # the abstract value lost its type (a field of a partly refined object): the place still has it
            nonderef = [p for p in pl["p"] if p[0] != "d"]
            ty = None
            if not nonderef:
                ty = body.local_ty(pl["l"])
            elif nonderef[-1][0] == "f" and len(nonderef[-1]) > 3:
                ty = nonderef[-1][3]
            if ty:
                names = super()._variant_names(V("obj", path=objv.path, ty=ty), pl, body)
        return names

    def _split_option(self, st, body, op, v):
        """[(state, Some/None variant value)] for an Option-typed abstract value."""
        if _opt_variant(v):
            return [(st, v)]
        if v is None or v.k != "obj":
            return None
        out = []
        for vidx, vname in ((0, "None"), (1, "Some")):
            s2 = st.copy()
            s2.conds.append(("%s is %s" % (v.path, vname), True))
            if op is not None:
                self._refine_obj(s2, body, op, v, vidx, vname)
            out.append((s2, V("variant", adt="std::option::Option", vidx=vidx, vname=vname, fields={}, path=v.path)))
        return out

    @staticmethod
    def _payload(v):
        p = (v.fields or {}).get(0)
        if p is None and v.path:
            p = mk_obj("%s↓Some.0" % v.path)
        return p

    def _bool_fork(self, st, r):
        """[(state, truth)] of an abstract bool."""
        ib = self.as_int(st, r, "bool")
        if ib is None or ib.lin is None:
            return None
        return list(self.fork_cmp(st, "eq", ib.lin, Lin.const(1)))

    def binop(self, st, body, rv, dest_ty):
        # `a & b`, `a | b`, `a ^ b` on bools: the value tables of the connectives (both operands are already evaluated)
        if rv.get("bop") in ("BitAnd", "BitOr", "BitXor") and rv.get("oty") == "bool":
            fn = {"BitAnd": lambda x, y: x and y, "BitOr": lambda x, y: x or y, "BitXor": lambda x, y: x != y}[rv["bop"]]
            fa = self._bool_fork(st, self.operand(st, body, rv["a"]))
            if fa is not None:
                out = []
                for s2, ta in fa:
                    fb = self._bool_fork(s2, self.operand(s2, body, rv["b"]))
                    if fb is None:
                        return super().binop(st, body, rv, dest_ty)
                    for s3, tb in fb:
                        out.append((s3, mk_const(1 if fn(ta, tb) else 0, "bool")))
                return out
        return super().binop(st, body, rv, dest_ty)

    def summary(self, st, body, k, res, name, trait, args, t, bb):
        krate = k.get("res_krate") or k.get("krate")
        std = krate in ("core", "alloc", "std")
        owner = res.rsplit("::", 1)[0]
        is_opt = owner.startswith("std::option::Option") or owner.startswith("core::option::Option")
        ops = (t or {}).get("args") or [None] * len(args)
        if std and is_opt and name in ("is_some", "is_none", "unwrap_or", "unwrap_or_default") and args and args[0] is not None \
                and args[0].k == "ref":
            # `(&opt).is_some()`: the method reads the value behind the reference
            tgt = self.read_target(st, args[0].target, body)
            if tgt is not None and tgt.k in ("variant", "obj"):
                return super().summary(st, body, k, res, name, trait, [tgt] + list(args[1:]), dict(t or {}, args=[{}] + list(ops[1:])), bb)
        if trait == "std::ops::Try" and name == "branch" and "option::Option<" in res and len(args) == 1 and args[0] is not None \
                and args[0].k == "obj":
            # `opt?`: Some(x) continues with x, None leaves with None
            out = []
            for s2, v in self._split_option(st, body, ops[0], args[0]):
                if v.vname == "Some":
                    v = V("variant", adt="std::option::Option", vidx=1, vname="Some", fields={0: self._payload(v)}, path=v.path)
                out.extend(super().summary(s2, body, k, res, name, trait, [v], t, bb))
            return out
        if std and is_opt and name in ("or", "xor", "and", "zip") and len(args) == 2:
            ca = self._split_option(st, body, ops[0], args[0])
            out = []
            none_v = V("variant", adt="std::option::Option", vidx=0, vname="None", fields={})
            for s2, va in ca or []:
                cb = self._split_option(s2, body, ops[1], args[1])
                if cb is None:
                    out = None
                    break
                for s3, vb in cb:
                    sa, sb = va.vname == "Some", vb.vname == "Some"
                    full = lambda v: V("variant", adt="std::option::Option", vidx=1, vname="Some", fields={0: self._payload(v)})
                    if name == "or":
                        r = full(va) if sa else (full(vb) if sb else none_v)
                    elif name == "and":
                        r = (full(vb) if sb else none_v) if sa else none_v
                    elif name == "xor":
                        r = full(va) if sa and not sb else (full(vb) if sb and not sa else none_v)
                    else:
                        r = V("variant", adt="std::option::Option", vidx=1, vname="Some",
                              fields={0: V("tuple", fields=[self._payload(va), self._payload(vb)])}) if sa and sb else none_v
                    out.append((s3, r))
            if out:
                return out
        if std and is_opt and name == "is_none_or" and len(args) == 2:
            # None => true, Some(x) => f(x)
            return super().summary(st, body, k, res, "map_or", trait, [args[0], mk_const(1, "bool"), args[1]], t, bb)
        if std and is_opt and name == "filter" and len(args) == 2 and args[0].k in ("variant", "obj"):
            # None => None, Some(x) => if p(&x) { Some(x) } else { None }
            cases = self._split_option(st, body, ops[0], args[0])
            if cases is not None:
                none_v = V("variant", adt="std::option::Option", vidx=0, vname="None", fields={})
                out = []
                for s2, v in cases:
                    if v.vname == "None":
                        out.append((s2, none_v))
                        continue
                    pay = self._payload(v)
                    for s3, r in self.apply_fn(s2, args[1], [pay]):
                        if isinstance(r, tuple):
                            out.append((s3, r))
                            continue
                        fk = self._bool_fork(s3, r)
                        if fk is None:
                            return None
                        for s4, truth in fk:
                            out.append((s4, V("variant", adt="std::option::Option", vidx=1, vname="Some", fields={0: pay}) if truth else none_v))
                return out
        if std and trait == "std::cmp::PartialEq" and name in ("eq", "ne") and len(args) == 2 and "option::Option<" in res:
            # derived equality of Option: equal variants with equal contents
            vals = [self.read_target(st, a.target, body) if a is not None and a.k == "ref" else a for a in args]
            if any(_opt_variant(v) for v in vals) and all(v is not None and v.k in ("variant", "obj") for v in vals):
                out = []
                ca = self._split_option(st, body, None, vals[0])
                for s2, va in ca or []:
                    for s3, vb in self._split_option(s2, body, None, vals[1]) or []:
                        if va.vname != vb.vname:
                            out.append((s3, mk_const(0 if name == "eq" else 1, "bool")))
                        elif va.vname == "None":
                            out.append((s3, mk_const(1 if name == "eq" else 0, "bool")))
                        else:
                            pa, pb = self._payload(va), self._payload(vb)
                            if pa is None or pb is None:
                                return None
                            ia, ib = self.as_int(s3, pa), self.as_int(s3, pb)
                            if pa.k == "int" and pb.k == "int" and ia is not None and ib is not None and ia.lin is not None and ib.lin is not None:
                                for s4, truth in self.fork_cmp(s3, name, ia.lin, ib.lin):
                                    out.append((s4, mk_const(1 if truth else 0, "bool")))
                            else:
                                out.append((s3, mk_obj("PartialEq::%s(%s, %s)" % (name, _show(pa), _show(pb)), "bool")))
                if out:
                    return out
        return super().summary(st, body, k, res, name, trait, args, t, bb)


def _atom_names(want):
    """Functions the specification rows mention by name: they stay opaque."""
    names = set()
    for conds, zone, oc_ in want:
        for txt in (zone, oc_):
            names.update(re.findall(r"((?:\w+::)+\w+)\(", txt))
    return names


def interpret(f, fn, want):
    """Paths of `fn` with every crate function interpreted through except the tests `want` is written in and
    (in)equality impls."""
    keep = _atom_names(want)

    def inline(name):
        if name == fn or name not in f.bodies:
            return False
        if re.search(r"::(eq|ne)$", name) or "PartialEq" in name:
            return False
        sh = short(name)
        return not any(sh == k or name.endswith("::" + k) for k in keep)
    it = _Interp(f, inline=inline)
    try:
        return it.run(fname=fn), it, None
    except absint.Unsupported as e:
        return None, it, str(e)
    except RecursionError:
        return None, it, "recursion while interpreting"


def table_of(paths, body=None):
    """The case table of a decision function: parameter names do not matter (α-normalised when the body is given) and
    equality tests are read as unordered."""
    nm = (lambda x: canon_eq(K.alpha(x, body))) if body is not None else canon_eq
    out = set()
    for p in paths:
        conds = tuple(sorted(nm(c[0]) for c in p.conds))
        out.add((conds, nm(p.zone.describe()), nm(outcome_str(p.outcome))))
    return out


def _parse_zone(z):
    """'A∈[lo,hi], B∈[lo,hi]' -> [(A, lo, hi), …] (None if it does not parse)."""
    out = []
    rest = z
    while rest:
        m = re.match(r"^(.*?)∈\[(-?\d+),(-?\d+)\](?:, |$)", rest)
        if not m:
            return None
        out.append((m.group(1), int(m.group(2)), int(m.group(3))))
        rest = rest[m.end():]
    return out


def _lit(text):
    """'!!x' -> (x, negated?)"""
    neg = False
    while text.startswith("!"):
        text, neg = text[1:], not neg
    return text, neg


_OTHER = "«any other variant»"


def rows_of_paths(paths, body):
    """Rows [(conds, zone, result)] of interpreter paths, in the vocabulary of the specification tables; conds keep
    the order in which the function looked.  `X is another variant` (the otherwise edge of a match) becomes
    `X not in {variants the same match lists}`: the sibling paths — same decisions up to that match — name them."""
    nm = lambda x: canon_eq(K.alpha(x, body))
    raw = []
    for p in paths:
        conds = []
        for c in p.conds:
            m = re.match(r"^(.*) is (\w+(?: \w+)*)$", nm(c[0]))
            if not m or c[1] is not True:
                return None
            conds.append((m.group(1), m.group(2)))
        zs = _parse_zone(nm(p.zone.describe()))
        if zs is None:
            return None
        raw.append((conds, zs, nm(outcome_str(p.outcome))))
    rows = []
    for conds, zs, oc_ in raw:
        cs = []
        for j, (x, v) in enumerate(conds):
            if v == "another variant":
                listed = {q[0][j][1] for q in raw if len(q[0]) > j and q[0][:j] == conds[:j] and q[0][j][0] == x
                          and q[0][j][1] != "another variant"}
                cs.append((x, ("not", frozenset(listed))))
            else:
                cs.append((x, ("is", v)))
        rows.append((cs, zs, oc_))
    return rows


def rows_of_spec(want):
    listed = {}
    parsed = []
    for conds, zone, oc_ in want:
        cs = []
        for c in conds:
            m = re.match(r"^(.*) is (\w+(?: \w+)*)$", canon_eq(c))
            cs.append((m.group(1), m.group(2)))
            if m.group(2) != "another variant":
                listed.setdefault(m.group(1), set()).add(m.group(2))
        parsed.append((cs, _parse_zone(canon_eq(zone)), canon_eq(oc_)))
    return [([(x, ("not", frozenset(listed.get(x, ()))) if v == "another variant" else ("is", v)) for x, v in cs], zs, oc_)
            for cs, zs, oc_ in parsed]


def _universe(f, body, subject, mentioned):
    """The variants a case distinction on `subject` ranges over."""
    if mentioned <= {"Some", "None"}:
        return ["None", "Some"]
    m = re.match(r"^%(\d+)$", subject)
    if m and body is not None and int(m.group(1)) <= body.arg_count:
        ty = (body.local_ty(int(m.group(1))) or "").lstrip("&").replace("mut ", "").strip()
        adt = f.adts.get(re.sub(r"<.*$", "", ty))
        if adt and adt.get("kind") == "Enum":
            return [v["name"] for v in adt["variants"]]
    return sorted(mentioned) + [_OTHER]


def same_decision(f, body, got, want):
    """Two row sets denote the same decision function: on every combination of the case distinctions (`x is Some` /
    `x is None`, the payload's variant) and of truth values of the opaque tests, both give one and the same answer.
    The order in which a function looks at independent, effect-free tests does not matter, nor whether it looks twice;
    what it answers does.  A test the specification does not mention makes the tables disagree.  -> (ok, why)"""
    import itertools

    def atoms(rows):
        out = set()
        for _, zs, r in rows:
            for a, lo, hi in zs:
                out.add(_lit(a)[0])
            if r.startswith("return ") and r[7:] not in ("0", "1"):
                out.add(_lit(r[7:])[0])
        return out
    for _, zs, _ in got + want:
        for a, lo, hi in zs:
            if not (0 <= lo <= hi <= 1):
                return False, "a non-boolean constraint %s∈[%s,%s]" % (a, lo, hi)
    extra = atoms(got) - atoms(want)
    if extra:
        return False, "decides by something the specification does not mention: %s" % sorted(extra)[:3]
    mentioned = {}
    for cs, _, _ in got + want:
        for x, (kind, v) in cs:
            mentioned.setdefault(x, set()).update([v] if kind == "is" else v)
    spec_subjects = {x for cs, _, _ in want for x, _ in cs}
    if set(mentioned) - spec_subjects:
        return False, "distinguishes cases of %s, which the specification does not" % sorted(set(mentioned) - spec_subjects)[:3]
    names = sorted(mentioned)
    ats = sorted(atoms(want))
    unis = [_universe(f, body, n, mentioned[n]) for n in names]
    n_cases = 2 ** len(ats)
    for u in unis:
        n_cases *= len(u)
    if n_cases > 20000:
        return False, "too many cases"

    def answer(rows, case, truth):
        res = set()
        for cs, zs, r in rows:
            if any((case[x] != v) if kind == "is" else (case[x] in v) for x, (kind, v) in cs):
                continue
            ok = True
            for a, lo, hi in zs:
                a, neg = _lit(a)
                val = truth[a] ^ neg
                if not (lo <= val <= hi):
                    ok = False
                    break
            if not ok:
                continue
            if not r.startswith("return "):
                res.add(r)
            elif r[7:] in ("0", "1"):
                res.add(int(r[7:]))
            else:
                a, neg = _lit(r[7:])
                res.add(truth[a] ^ neg)
        return res
    for vals in itertools.product(*unis):
        case = dict(zip(names, vals))
        for bits in itertools.product((0, 1), repeat=len(ats)):
            truth = dict(zip(ats, bits))
            a, w = answer(got, case, truth), answer(want, case, truth)
            if len(w) != 1 or a != w:
                return False, {"case": case, "tests": truth, "answers": sorted(map(str, a)), "specified": sorted(map(str, w))}
    return True, None


def spec_table(rows):
    return {(tuple(sorted(canon_eq(c) for c in conds)), canon_eq(z), canon_eq(o)) for conds, z, o in rows}


# %2 is the function's second parameter (the origin / router key / ASPA / payload item), whatever it is called
_COV = "Prefix::covers(self.prefix↓Some.0, MaxLenPrefix::prefix(%2.prefix))"
_AEQ = "Asn::eq(self.asn↓Some.0, %2.asn)"
_KEQ = "KeyIdentifier::eq(self.ski↓Some.0, %2.key_identifier)"
SPECS = {
    SL + "PrefixFilter::drop_origin": {
        (("self.asn is Some", "self.prefix is Some"), _COV + "∈[1,1]", "return " + _AEQ),
        (("self.asn is Some", "self.prefix is Some"), _COV + "∈[0,0]", "return 0"),
        (("self.asn is None", "self.prefix is Some"), "", "return " + _COV),
        (("self.asn is Some", "self.prefix is None"), "", "return " + _AEQ),
        (("self.asn is None", "self.prefix is None"), "", "return 0"),
    },
    SL + "BgpsecFilter::drop_router_key": {
        (("self.asn is Some", "self.ski is Some"), _KEQ + "∈[1,1]", "return " + _AEQ),
        (("self.asn is Some", "self.ski is Some"), _KEQ + "∈[0,0]", "return 0"),
        (("self.asn is None", "self.ski is Some"), "", "return " + _KEQ),
        (("self.asn is Some", "self.ski is None"), "", "return " + _AEQ),
        (("self.asn is None", "self.ski is None"), "", "return 0"),
    },
    SL + "AspaFilter::drop_aspa": {
        (("self.customer_asid is Some",), "", "return Asn::eq(self.customer_asid↓Some.0, %2.customer)"),
        (("self.customer_asid is None",), "", "return 0"),
    },
    SL + "PrefixFilter::drop_payload": {
        (("%2 is Origin",), "", "return PrefixFilter::drop_origin(self, %2↓Origin.0)"),
        (("%2 is another variant",), "", "return 0"),
    },
    SL + "BgpsecFilter::drop_payload": {
        (("%2 is RouterKey",), "", "return BgpsecFilter::drop_router_key(self, %2↓RouterKey.0)"),
        (("%2 is another variant",), "", "return 0"),
    },
    SL + "AspaFilter::drop_payload": {
        (("%2 is Aspa",), "", "return AspaFilter::drop_aspa(self, %2↓Aspa.0)"),
        (("%2 is another variant",), "", "return 0"),
    },
}


def table_verdict(f, fn, want):
    """(ok, detail): the function `fn` computes the decision function given by the rows `want`."""
    b = f.body(fn)
    paths, it, err = interpret(f, fn, want)
    if paths is None:
        return False, {"analysable": False, "error": err}
    got = table_of(paths, b)
    wtab = spec_table(want)
    if got == wtab and not it.imprecise:
        return True, {"rows": len(got)}
    rows = rows_of_paths(paths, b)
    if rows is None:
        ok, why_not = False, "rows outside the table vocabulary"
    else:
        ok, why_not = same_decision(f, b, rows, rows_of_spec(want))
    ok = ok and not it.imprecise
    return ok, {"rows": len(got), "same_decision_as_specified": ok, "differs": why_not,
                "unexpected_rows": sorted(map(list, got - wtab))[:12], "missing_rows": sorted(map(list, wtab - got)),
                "imprecision": it.imprecise}


# what each assertion's payload consists of, constructor layers looked through (construct_nf)
TO_PAYLOAD = {
    SL + "PrefixAssertion::to_payload":
        "payload::Payload::Origin{0: payload::RouteOrigin::RouteOrigin{prefix: self.prefix, asn: self.asn}}",
    SL + "BgpsecAssertion::to_payload":
        "payload::Payload::RouterKey{0: payload::RouterKey::RouterKey{key_identifier: self.ski, asn: self.asn, "
        "key_info: self.router_public_key.0}}",
    SL + "AspaAssertion::to_payload":
        "payload::Payload::Aspa{0: payload::Aspa::Aspa{customer: self.customer_asn, providers: self.provider_asns}}",
}


def run(ctx):
    f = ctx.facts()

    # the serialisers are written in terms of MaxLenPrefix's accessors: those hand out the stored fields as they are
    for acc in ("max_len", "prefix"):
        K.check_returns_kept(ctx, f, "R-FLOW", "resources::addr::MaxLenPrefix::" + acc,
                             "MaxLenPrefix::%s() returns the stored field unchanged (what the SLURM serialiser writes)" % acc,
                             r"^self\.%s$" % acc, key="MaxLenPrefix::%s:returns-field" % acc)
    ctx.rule("R-REG", "complete decision table by abstract interpretation equals the spec table")
    ctx.rule("R-SIB", "every filter list of the container is consulted")
    ctx.rule("R-FLOW", "operand provenance")
    check_handwritten_serializers(ctx, f)
    K.check_base64_engines(ctx, f)
    ctx.rule("R-WHO", "a limit is tested only where the value is built")
    K.check_limit_owners(ctx, f, "rtr::pdu::ProviderAsns::MAX_COUNT",
                         ["repository::aspa::ProviderAsSet::take_from", "rtr::pdu::ProviderAsns::try_from_iter"])
    # "a BGPsec filter matches a router key iff its SKI equals the key's": the equality the filter is written in
    K.check_bytes_eq_delegates(ctx, f, "R-SIB", "crypto::keys::KeyIdentifier", "the SKI criterion of the BGPsec filter is this comparison")
    from props.C13 import check_covers_family, check_covers_inclusion
    ctx.rule("R-GRD", "success requires the guard")
    check_covers_family(ctx, f)
    # "a prefix filter matches an origin iff its prefix covers the origin's": the covering test itself, bit by bit
    check_covers_inclusion(ctx, f)

    # ---- C15.b decision tables ---------------------------------------------------
    for fn, want in SPECS.items():
        b = f.body(fn)
        if b is None:
            ctx.missing("R-REG", short(fn), fn)
            continue
        ctx.saw_fn(fn)
        ok, detail = table_verdict(f, fn, want)
        if detail.get("analysable") is False:
            ctx.ob("R-REG", short(fn) + ":analysable", False, "cannot establish: " + detail["error"], where=b.loc)
            continue
        ctx.ob("R-REG", short(fn) + ":table", ok,
               "%s has exactly the specified case table (%d rows)" % (short(fn), len(want)), where=b.loc, detail=detail)
    # the payload's variant order: "another variant" must not hide a second listed kind
    # (each drop_payload matches exactly one Payload variant: checked by the tables above)

    # ---- C15.a every filter list consulted -------------------------------------------
    VOF = SL + "ValidationOutputFilters"
    check_container_drop(ctx, f)
    sb = f.body(SL + "SlurmFile::drop_payload")
    if sb is not None:
        ctx.saw_fn(sb.name)
        vals = [K.alpha(render(construct_nf(f, t)), sb) for _, _, t in raw_success_values(sb)]
        straight = not any(bl["term"]["t"] == "switch" for bl in sb.blocks if not bl.get("cleanup"))
        ok = straight and vals == ["ValidationOutputFilters::drop_payload(self.filters, %2)"]
        ctx.ob("R-FLOW", "SlurmFile::drop_payload:delegates", ok,
               "SlurmFile::drop_payload is the filters' verdict on the same payload", where=sb.loc,
               detail={"returns": vals, "unconditional": straight})

    # ---- C15.c assertions carry their fields ---------------------------------------------
    want = TO_PAYLOAD
    for fn, nf in want.items():
        b = f.body(fn)
        if b is None:
            ctx.missing("R-FLOW", short(fn), fn)
            continue
        ctx.saw_fn(fn)
        vals = [render(construct_nf(f, t)) for _, _, t in raw_success_values(b)]
        ok = bool(vals) and all(v == nf for v in vals)
        ctx.ob("R-FLOW", short(fn), ok, "%s builds the payload from exactly its own fields: %s" % (short(fn), nf),
               where=b.loc, detail=vals)
    # Payload constructors store their arguments
    for ctor, nf in (("rtr::payload::Payload::origin",
                      "payload::Payload::Origin{0: payload::RouteOrigin::RouteOrigin{prefix: %1, asn: %2}}"),
                     ("rtr::payload::Payload::router_key",
                      "payload::Payload::RouterKey{0: payload::RouterKey::RouterKey{key_identifier: %1, asn: %2, key_info: %3}}"),
                     ("rtr::payload::Payload::aspa",
                      "payload::Payload::Aspa{0: payload::Aspa::Aspa{customer: %1, providers: %2}}")):
        b = f.body(ctor)
        if b is None:
            ctx.missing("R-FLOW", short(ctor), ctor)
            continue
        vals = [K.alpha(render(construct_nf(f, t)), b) for _, _, t in raw_success_values(b)]
        ok = bool(vals) and all(v == nf for v in vals)
        ctx.ob("R-FLOW", short(ctor), ok, "%s wraps its arguments unchanged" % short(ctor), where=b.loc, detail=vals)
    check_iter_payload(ctx, f, want)


def check_handwritten_serializers(ctx, f):
    """A hand-written Serialize impl in slurm.rs writes every field from the value's own data and leaves a field out only
    when that data is None — it does not decide by comparing values (a file must parse back to an equal value)."""
    PLAIN = r"(self\.\w+|[\w:]+\(self\.\w+\))"
    n = 0
    for name, b in sorted(f.bodies.items()):
        if not b.file.endswith("src/slurm.rs") or K.is_derived_body(b) or not name.endswith("Serialize>::serialize"):
            continue
        for c in b.calls():
            if c.name != "serialize_field" or b.is_cleanup(c.bb):
                continue
            a = [K.alpha(x, b) for x in K.arg_renders(c)]
            fld, val = a[1], a[2]
            n += 1
            guards = [g for g in K.dominating_guards(f, b, c.bb) if not g.startswith("discr(Try::branch(")]
            m = re.match(r"^%s↓Some\.0$" % PLAIN, val) or re.match(r"^Option::(?:unwrap|expect|unwrap_unchecked)\((%s)(?:, [^()]*)?\)$" % PLAIN, val)
            if m:
                src = val[:-len("↓Some.0")] if val.endswith("↓Some.0") else m.group(1)
                # "src is Some", however it is asked
                is_some = {"discr(%s) in {1}" % src, "Option::is_some(%s)" % src, "!Option::is_none(%s)" % src}
                ok = bool(guards) and all(g in is_some for g in guards)
                what = "is written exactly when %s is Some, with that value" % src
            else:
                ok = not guards and re.search(r"self\.\w+", val) is not None and "filter" not in val
                what = "is always written, from the value's own data"
            ctx.ob("R-FLOW", "%s:field[%s]" % (short(K.root_fn_name(f, name)), fld.strip("b'")), ok,
                   "%s: field %s %s" % (short(K.root_fn_name(f, name)), fld, what), where=c.where(),
                   detail={"value": val, "conditions": guards})
    ctx.floor("R-FLOW", "fields written by hand-written serializers in slurm.rs", n, 6)


# ---------------------------------------------------------------------------------------------
# C15.a — the container's verdict is "some filter of some list matches"

def _unmut(t):
    t = strip_deep(t)
    while t[0] == "mvar":
        t = strip_deep(t[3])
    return t


def _is_empty_seq(t):
    t = _unmut(t)
    if t[0] == "agg" and t[1] in ("array", "tuple") and not t[3]:
        return True
    if t[0] == "call" and (t[3] or {}).get("name") == "default" and not t[2]:
        return True
    if t[0] == "call" and (t[3] or {}).get("name") == "index" and len(t[2]) == 2 and _is_empty_seq(t[2][0]):
        return True         # any sub-slice of an empty sequence
    return False


def _closure_returns(f, fn_term, pred):
    """Every value the closure returns satisfies `pred` (its element parameter reads `<element>`)."""
    from engine import sym as symmod
    t = strip(fn_term)
    if t[0] != "closure":
        return False
    cb, m = K.closure_env(f, t, "<element>")
    if cb is None:
        return False
    with symmod.substituting(m):
        vals = [v for _, _, v in success_values(cb)]
        return bool(vals) and all(pred(v) for v in vals)


def _mentions(sy, t, rx, depth=0):
    """Some value the term may stand for is rooted in a place matching rx (locals with several definitions followed)."""
    if re.search(rx, render(strip_deep(t))):
        return True
    if depth > 4:
        return False
    for x in walk(strip_deep(t)):
        if x[0] == "var":
            for _, dt in sy.defs_of_var(x[2]):
                if _mentions(sy, dt, rx, depth + 1):
                    return True
    return False


def whole_list(f, b, sy, coll, fname):
    """Does iterating `coll` visit every element of the filter list `self.<fname>`?  Accepted: the list itself; an
    optional list flattened (`self.x.iter().flatten()`); the payload of the optional list (`self.x↓Some.0`, reached
    only when there is one); a local that is that payload when the list is present and an empty sequence exactly when
    it is absent."""
    t = _unmut(coll)
    # adaptors that still visit every element
    while t[0] == "call" and (t[3] or {}).get("name") in ("enumerate", "rev", "peekable", "copied", "cloned", "fuse") \
            and (t[3] or {}).get("trait") == "std::iter::Iterator" and len(t[2]) == 1:
        t = _unmut(t[2][0])
    fld = r"^self\.%s$" % re.escape(fname)
    r = render(t)
    if re.match(fld, r):
        return True
    if t[0] == "call" and (t[3] or {}).get("name") == "flatten" and (t[3] or {}).get("trait") == "std::iter::Iterator" \
            and len(t[2]) == 1 and re.match(fld, render(_unmut(t[2][0]))):
        return True
    some = r"^self\.%s↓Some\.0$" % re.escape(fname)
    if re.match(some, r):
        return True
    info = (t[3] or {}) if t[0] == "call" else {}
    is_fld = lambda x: re.match(fld, render(_unmut(x))) is not None
    if info and re.match(r"^(std|core)::option::Option", info.get("fn") or "") and t[2] and is_fld(t[2][0]):
        # the optional list or, when there is none, an empty sequence
        nm = info.get("name")
        if nm == "unwrap_or_default" and len(t[2]) == 1:
            return True
        if nm == "unwrap_or" and len(t[2]) == 2 and _is_empty_seq(t[2][1]):
            return True
        if nm == "unwrap_or_else" and len(t[2]) == 2 and _closure_returns(f, t[2][1], _is_empty_seq):
            return True
        if nm == "map_or" and len(t[2]) == 3 and _is_empty_seq(t[2][1]) and \
                _closure_returns(f, t[2][2], lambda v: render(_unmut(v)) == "<element>"):
            return True
    if info.get("name") == "flat_map" and info.get("trait") == "std::iter::Iterator" and len(t[2]) == 2 and is_fld(t[2][0]) \
            and _closure_returns(f, t[2][1], lambda v: render(_unmut(v)) == "<element>"):
        return True         # `opt.iter().flat_map(|list| list.iter())` is `opt.iter().flatten()`
    if t[0] == "var":
        defs = sy.defs_of_var(t[2])
        n_some = 0
        for dbb, dt in defs:
            if re.match(some, render(_unmut(dt))):
                n_some += 1
            elif _is_empty_seq(dt) and ("discr(self.%s) in {0}" % fname) in K.dominating_guards(f, b, dbb):
                pass
            else:
                return False
        return n_some >= 1
    return False


def _element_of(t):
    """`next(it)↓Some.0` (the element a `for` loop / `while let` is looking at) -> the term iterated, else None."""
    t = strip_deep(t)
    while t[0] == "field" and strip_deep(t[1])[0] == "field":       # `(i, x)` of an enumerate()
        t = strip_deep(t[1])
    if t[0] == "field" and str(t[2]) == "0":
        v = strip_deep(t[1])
        if v[0] == "variant" and v[2] == "Some":
            c = strip_deep(v[1])
            if c[0] == "call" and (c[3] or {}).get("name") == "next" and (c[3] or {}).get("trait") == "std::iter::Iterator" and c[2]:
                return c[2][0]
    return None


def _kind_decision(ety):
    """What `<ety>::drop_payload(filter, payload)` is specified to be (and R-REG decides that it is):
    `payload is V  and  G(filter, payload↓V.0)` -> (V, def path of G); None if the specification has another form."""
    rows = SPECS.get(ety + "::drop_payload")
    if not rows:
        return None
    hit = None
    for conds, zone, oc_ in rows:
        if zone or len(conds) != 1:
            return None
        if conds[0] == "%2 is another variant" and oc_ == "return 0":
            continue
        m = re.match(r"^%2 is (\w+)$", conds[0])
        g = re.match(r"^return ((?:\w+::)*(\w+))\(self, %2↓(\w+)\.0\)$", oc_)
        if not m or not g or g.group(3) != m.group(1) or hit is not None or g.group(1) != short("%s::%s" % (ety, g.group(2))):
            return None
        hit = (m.group(1), "%s::%s" % (ety, g.group(2)))
    return hit


def _closure_pred(f, ct, accept):
    """A closure `|x| D(x, arg)` (or its negation) for one decision function D of `accept` {def path of D: rendering of
    the second argument it must be given}: (D, polarity) — polarity +1 iff its result is true exactly when that call is,
    -1 iff exactly when it is not (both directions decided over the closure's paths), 0 otherwise."""
    from engine import orderlogic as OL
    from engine import sym as symmod
    from engine.sym import Sym
    cb, m = K.closure_env(f, ct, "<element>")
    if cb is None:
        return None, 0
    keys = sorted({c.res for c in cb.calls() if c.is_static and c.res in accept and not cb.is_cleanup(c.bb)})
    if len(keys) != 1:
        return None, 0
    rx = r"^%s\(<element>, %s\)$" % (re.escape(short(keys[0])), re.escape(accept[keys[0]]))
    with symmod.substituting(m):
        for pol, (wt, wf) in ((1, (True, False)), (-1, (False, True))):
            ok_t, _ = OL.implies(cb, Sym(cb), True, K.pred_lit(rx, wt))
            ok_f, _ = OL.implies(cb, Sym(cb), False, K.pred_lit(rx, wf))
            if ok_t and ok_f:
                return keys[0], pol
    return keys[0], 0


# -- a small constant propagation over the CFG: which of true / false / Some / None a local holds ----------------------
# Used to read "what does the function answer once this test came out that way" off the code whatever its shape: early
# `return true`, a flag that is set and returned at the end, `||` chains, `find(..).is_some()`, …

_T, _F, _SOME, _NONE = "true", "false", "Some", "None"
# further values: ("ref", local) — a reference to that local; ("int", n) — a discriminant read; ("enum", i) — (a reference
# to) a value of an enum that is of variant number i (an assumption the caller of const_prop makes about a parameter)


def _cp_operand(op, st):
    if "k" in op:
        k = op["k"]
        if "v" in k and k.get("ty", "bool") == "bool" and k["v"] in (0, 1, True, False):
            return _T if k["v"] else _F
        return None
    pl = op.get("c") or op.get("m")
    if pl is None:
        return None
    v = st.get(pl["l"])
    if isinstance(v, tuple) and v[0] == "ref" and pl["p"] and all(p[0] == "d" for p in pl["p"]):
        return st.get(v[1])
    if pl["p"]:
        return None
    return v


def _cp_rvalue(rv, st):
    r = rv["r"]
    if r == "use":
        return _cp_operand(rv["op"], st)
    if r in ("ref", "rawptr"):
        pl = rv["pl"]
        if not pl["p"]:
            return ("ref", pl["l"])
        v = st.get(pl["l"])
        if isinstance(v, tuple) and v[0] in ("ref", "enum") and all(p[0] == "d" for p in pl["p"]):
            return v        # a reborrow: a reference to the same thing
        return None
    if r == "un" and rv.get("uop") == "Not":
        v = _cp_operand(rv["a"], st)
        return {_T: _F, _F: _T}.get(v)
    if r == "bin":
        x, y = _cp_operand(rv["a"], st), _cp_operand(rv["b"], st)
        op = rv.get("bop")
        if op == "BitOr":
            return _T if _T in (x, y) else (_F if x == _F and y == _F else None)
        if op == "BitAnd":
            return _F if _F in (x, y) else (_T if x == _T and y == _T else None)
        if op in ("BitXor", "Ne", "Eq") and x in (_T, _F) and y in (_T, _F):
            return _T if ((x != y) == (op != "Eq")) else _F
        return None
    if r == "discr":
        pl = rv["pl"]
        v = st.get(pl["l"])
        if isinstance(v, tuple) and v[0] == "enum" and all(p[0] == "d" for p in pl["p"]):
            return ("int", v[1])        # (a reference to) an enum value assumed to be of that variant
        if isinstance(v, tuple) and v[0] == "ref" and pl["p"] and all(p[0] == "d" for p in pl["p"]):
            v = st.get(v[1])
        elif pl["p"]:
            v = None
        return {_SOME: ("int", 1), _NONE: ("int", 0)}.get(v)
    if r == "agg" and rv.get("ak") == "adt" and str(rv.get("adt", "")).startswith("std::option::Option"):
        return _SOME if rv.get("variant") == "Some" else _NONE
    return None


def const_prop(b, start, init, assumed, barrier=()):
    """Forward constant propagation from block `start` with `init` {local: value}; `assumed` {call block: value} fixes the
    result of those calls.  Blocks in `barrier` are not entered.  -> (values of the return place at the returns reached,
    set of blocks reached)."""
    mutb = K.sym_of(b)._mutb
    # the start block is run once with the assumption, as a node of its own: when a loop comes back to it, what it then
    # knows is joined with the other ways of getting there, not with the assumption
    ENTRY = -1
    states = {ENTRY: dict(init)}
    work = [ENTRY]
    rets = []
    seen_ret = {}

    def flow(tb, st):
        if tb in barrier:
            return
        old = states.get(tb)
        if old is None:
            states[tb] = dict(st)
            work.append(tb)
            return
        new = {l: v for l, v in old.items() if st.get(l) == v}
        if new != old:
            states[tb] = new
            work.append(tb)
    n = 0
    while work:
        n += 1
        if n > 20000:
            return [None], set(states) - {ENTRY}
        bb = work.pop()
        st = dict(states[bb])
        if bb == ENTRY:
            bb = start
        blk = b.blocks[bb]
        for s_ in blk["stmts"]:
            if s_["s"] == "assign":
                pl = s_["pl"]
                if pl["p"]:
                    st.pop(pl["l"], None)
                    continue
                v = _cp_rvalue(s_["rv"], st)
                if v is None or (pl["l"] in mutb and not (isinstance(v, tuple) and v[0] == "ref")):
                    st.pop(pl["l"], None)
                else:
                    st[pl["l"]] = v
            elif s_["s"] == "setdiscr":
                st.pop(s_["pl"]["l"], None)
        t = blk["term"]
        k = t["t"]
        if k == "return":
            seen_ret[bb] = st.get(0)
        elif k in ("goto", "drop", "assert"):
            flow(t["target"], st)
        elif k == "call":
            d = t["dest"]
            v = None
            if bb in assumed:
                v = assumed[bb]
            else:
                fk = t["func"].get("k") if isinstance(t["func"], dict) else None
                nm = (fk or {}).get("name")
                kr = (fk or {}).get("res_krate") or (fk or {}).get("krate")
                if nm in ("is_some", "is_none") and kr in ("core", "std", "alloc") and len(t["args"]) == 1:
                    x = _cp_operand(t["args"][0], st)
                    if isinstance(x, tuple) and x[0] == "ref":
                        x = st.get(x[1])
                    if x in (_SOME, _NONE):
                        v = _T if (x == _SOME) == (nm == "is_some") else _F
            if d["p"] or v is None:
                st.pop(d["l"], None)
            else:
                st[d["l"]] = v
            if t.get("target") is not None:
                flow(t["target"], st)
        elif k == "switch":
            dv = _cp_operand(t["discr"], st)
            if dv in (_T, _F):
                dv = ("int", 1 if dv == _T else 0)
            if isinstance(dv, tuple) and dv[0] == "int":
                tgt = t["otherwise"]
                for v, tb in t["targets"]:
                    if int(v) == dv[1]:
                        tgt = tb
                flow(tgt, st)
            else:
                for v, tb in t["targets"]:
                    flow(tb, st)
                flow(t["otherwise"], st)
    return [seen_ret[r] for r in sorted(seen_ret)], set(states) - {ENTRY}


def check_container_drop(ctx, f, fn=None, label=None):
    """`drop_payload` of the container answers "some filter of some list matches the payload".  Whatever its shape, the
    places where it learns about a match are (loop form) a call `Filter::drop_payload(<element of an iteration over a
    collection>, payload)` and (combinator form) `any` / `all` / `find` / `position` over a collection with a closure that
    is that call or its negation.  Decided, by constant propagation over the CFG:
      if       for every filter list there is such a place over the whole list from which, once it reports a match, every
               return reached answers true — and, loop form, a non-matching element sends control back to the next one;
      only if  with every such place reporting "no match", every return answers false."""
    VOF = SL + "ValidationOutputFilters"
    fn = fn or VOF + "::drop_payload"
    label = label or short(fn)
    adt = f.adts.get(VOF)
    b = f.body(fn)
    if adt is None or b is None:
        return ctx.missing("R-SIB", label, fn)
    ctx.saw_fn(b.name)
    oc = outcome(b)
    sy = oc.sym
    fields = []
    for fl in adt["variants"][0]["fields"]:
        m = re.search(r"std::vec::Vec<([\w:]+)>", fl["ty"])
        if m and f.body(m.group(1) + "::drop_payload") is not None:
            fields.append((fl["name"], m.group(1)))
    ctx.floor("R-SIB", "filter lists with a drop_payload element method", len(fields), 3)
    payload = b.local_name(2) or "_2"
    own = r"\bself\.(%s)\b" % "|".join(re.escape(n) for n, _ in fields) if fields else r"$^"
    elem_keys = {ety + "::drop_payload" for _, ety in fields}
    # The payload's kinds.  A filter's verdict `F::drop_payload(filter, payload)` is `payload is V and G(filter, payload↓V.0)`
    # for the one kind V of F (R-REG): where the payload is known to be a V, `G(filter, payload↓V.0)` *is* that verdict,
    # and where it is known to be of another kind the verdict is false whatever the filter.  So the places below may ask
    # either question, and "is this list scanned" is only demanded for payloads of the list's kind.
    pty = re.sub(r"<.*$", "", (b.local_ty(2) or "").lstrip("&").replace("mut ", "").strip())
    padt = f.adts.get(pty)
    # (without a primitive representation the discriminant of a variant is its position)
    variants = [v["name"] for v in padt["variants"]] if padt and padt.get("kind") == "Enum" and "int: None" in padt.get("repr", "") else []
    kind_of = {}        # F::drop_payload -> index of V among the payload's variants
    accept = {k: payload for k in elem_keys}        # decision function -> the second argument it must be given
    verdict_of = {k: k for k in elem_keys}          # decision function -> the F::drop_payload it stands for
    for _, ety in fields:
        kd = _kind_decision(ety)
        if kd is not None and kd[0] in variants and f.body(kd[1]) is not None:
            kind_of[ety + "::drop_payload"] = variants.index(kd[0])
            accept[kd[1]] = "%s↓%s.0" % (payload, kd[0])
            verdict_of[kd[1]] = ety + "::drop_payload"

    def assuming(key, more=None):
        """Initial knowledge "the payload is of the kind of the filters F" for const_prop (none if F has no single kind)."""
        init = {2: ("enum", kind_of[key])} if key in kind_of else {}
        init.update(more or {})
        return init

    sources = []    # dicts: key (callee), coll (term iterated), bb, match / nomatch (value of the call's result), form, next_bb
    for c in b.calls():
        if b.is_cleanup(c.bb) or not c.is_static or c.res not in accept:
            continue
        a = K.arg_terms(c)
        coll = _element_of(a[0]) if a else None
        nxt = None
        if coll is not None:
            e = strip_deep(a[0])
            while e[0] == "field":
                e = strip_deep(e[1])
            if e[0] == "variant":
                nxt = (strip_deep(e[1])[3] or {}).get("bb")
        sources.append({"key": verdict_of[c.res], "coll": coll, "bb": c.bb,
                        "payload_ok": len(a) == 2 and accept[c.res] in (render(a[1]), render(strip_deep(a[1]))),
                        "match": _T, "nomatch": _F, "form": "loop", "next_bb": nxt, "text": [render(x) for x in a],
                        "dest": c.dest, "target": c.target})
    for c in b.calls():
        # a predicate closure applied to an element by hand (`matches(filter)` in a loop of a higher-order helper)
        if b.is_cleanup(c.bb) or not c.is_static or c.name not in ("call", "call_mut", "call_once") or \
                c.trait not in ("std::ops::Fn", "std::ops::FnMut", "std::ops::FnOnce") or len(c.args) != 2:
            continue
        a = K.arg_terms(c)
        ct, tup = strip(a[0]), strip_deep(a[1])
        if ct[0] != "closure" or tup[0] != "agg" or tup[1] != "tuple" or len(tup[3]) != 1:
            continue
        key, pol = _closure_pred(f, ct, accept)
        if key is None:
            continue
        key = verdict_of[key]
        elem = tup[3][0][1]
        coll = _element_of(elem)
        nxt = None
        if coll is not None:
            e = strip_deep(elem)
            while e[0] == "field":
                e = strip_deep(e[1])
            if e[0] == "variant":
                nxt = (strip_deep(e[1])[3] or {}).get("bb")
        vals = {1: (_T, _F), -1: (_F, _T)}.get(pol)
        sources.append({"key": key, "coll": coll, "bb": c.bb, "payload_ok": vals is not None,
                        "match": vals[0] if vals else None, "nomatch": vals[1] if vals else None, "form": "loop",
                        "next_bb": nxt, "text": [render(x) for x in a], "dest": c.dest, "target": c.target})
    for c, name, ct in K.combinator_calls(f, b, r".", names=("any", "all", "find", "position")):
        key, pol = _closure_pred(f, ct, accept)
        if key is None:
            continue
        key = verdict_of[key]
        a = K.arg_terms(c)
        vals = {("any", 1): (_T, _F), ("all", -1): (_F, _T), ("find", 1): (_SOME, _NONE), ("position", 1): (_SOME, _NONE)}.get((name, pol))
        sources.append({"key": key, "coll": a[0], "bb": c.bb, "payload_ok": vals is not None,
                        "match": vals[0] if vals else None, "nomatch": vals[1] if vals else None, "form": name,
                        "next_bb": None, "text": [render(x) for x in a], "dest": c.dest, "target": c.target})

    def drops(s_):
        """Once this place reports a match the function answers true; a non-matching element does not end the scan."""
        if s_["match"] is None or s_["dest"] is None or s_["dest"]["p"] or s_["target"] is None:
            return False, "result not kept"
        rets, _ = const_prop(b, s_["target"], assuming(s_["key"], {s_["dest"]["l"]: s_["match"]}), {})
        if not rets or any(r != _T for r in rets):
            return False, "after a match the function may answer %s" % sorted({str(r) for r in rets})
        if s_["form"] == "loop":
            if s_["next_bb"] is None:
                return False, "not an element of an iteration"
            rets, _ = const_prop(b, s_["target"], assuming(s_["key"], {s_["dest"]["l"]: s_["nomatch"]}), {},
                                 barrier={s_["next_bb"]})
            if rets:
                return False, "a non-matching element ends the scan"
        return True, None

    nomatch_all = {s_["bb"]: s_["nomatch"] for s_ in sources if s_["nomatch"] is not None and s_["payload_ok"]}

    def reached(s_):
        """With no filter matching anywhere, no return is reached — for a payload of the kind these filters decide on —
        without coming to this place (the scan of a list is not skipped on some other condition).  An optional list bound
        by `if let Some(list)` is legitimately skipped when absent."""
        if "↓Some.0" in render(strip_deep(s_["coll"])) or _unmut(s_["coll"])[0] == "var":
            return True
        gate = s_["next_bb"] if s_["form"] == "loop" else s_["bb"]
        if gate is None:
            return False
        rets, _ = const_prop(b, 0, assuming(s_["key"]), nomatch_all, barrier={gate})
        through, _ = const_prop(b, 0, assuming(s_["key"]), nomatch_all)
        return not rets and bool(through)      # (and such a payload does get an answer: the first statement is not vacuous)

    for fname, ety in fields:
        key = ety + "::drop_payload"
        mine = [s_ for s_ in sources if s_["key"] == key]
        ok = False
        det = []
        for s_ in mine:
            whole = s_["coll"] is not None and whole_list(f, b, sy, s_["coll"], fname)
            d_ok, why_not = drops(s_) if whole and s_["payload_ok"] else (False, None)
            if d_ok and not reached(s_):
                d_ok, why_not = False, "the scan of this list can be skipped"
            det.append({"form": s_["form"], "applies": s_["text"], "whole_list": whole, "payload_ok": s_["payload_ok"],
                        "drops": d_ok if why_not is None else why_not})
            ok = ok or (whole and s_["payload_ok"] and d_ok)
        ctx.ob("R-SIB", "%s:consults-%s" % (label, fname), ok,
               "drop_payload applies every %s filter (self.%s) to the payload and drops on a match" % (short(ety), fname),
               where=b.loc, detail=det or "no call to %s" % key)
    # only-if: with no filter of the container matching, the answer is false
    assumed = {}
    for s_ in sources:
        from_own = s_["coll"] is not None and _mentions(sy, s_["coll"], own)
        if from_own and s_["payload_ok"] and s_["nomatch"] is not None:
            assumed[s_["bb"]] = s_["nomatch"]
    # … whatever the payload's kind: decided kind by kind when every filter type decides on one kind (a function that
    # looks at the kind first answers false on each of them), else once without knowing the kind
    by_kind = bool(variants) and bool(fields) and all(k in kind_of for k in elem_keys)
    rets = []
    for init in ([{2: ("enum", i)} for i in range(len(variants))] if by_kind else [{}]):
        r1, _ = const_prop(b, 0, init, assumed)
        rets.extend(r1 or [None])
    ok = bool(assumed) and bool(rets) and all(r == _F for r in rets)
    ctx.ob("R-SIB", "%s:true-only-on-match" % label, ok,
           "drop_payload returns true only when some filter's drop_payload does", where=b.loc,
           detail=None if ok else {"answers_without_any_match": sorted({str(r) for r in rets}), "places": len(assumed)})


# ---------------------------------------------------------------------------------------------
# C15.c — iter_payload is the concatenation of the three assertion lists, each mapped through to_payload

def raw_success_values(body):
    """As engine.rules.success_values, the terms left as written (conversions not yet looked through)."""
    oc = outcome(body)
    out = []
    for bi in sorted(oc.success_assign_blocks):
        blk = body.blocks[bi]
        for si, st in enumerate(blk["stmts"]):
            if st["s"] == "assign" and not st["pl"]["p"] and st["pl"]["l"] in oc.carriers:
                t = oc.sym.rvalue(st["rv"])
                if not oc._is_fail_term(t) and not (strip_deep(t)[0] == "var" and strip_deep(t)[2] in oc.carriers):
                    out.append((bi, si, t))
        t = blk["term"]
        if t["t"] == "call" and not t["dest"]["p"] and t["dest"]["l"] in oc.carriers:
            out.append((bi, "term", oc.sym.call(t, bi)))
    return out


def construct_nf(f, t, depth=0):
    """Normal form of a value that is put together from parts: constructor functions of the crate (`Payload::origin`,
    `RouteOrigin::new`, `From` impls, …) are replaced by what they return — with their parameters replaced by the
    arguments — down to struct / enum literals.  How many constructor layers a value goes through, and what they are
    called, is not part of what it consists of."""
    from engine.sym import is_transparent_call

    def conv(t):
        # a conversion implemented by the crate: `From::from` resolved to an impl here, or `x.into()` — by std's blanket
        # impl the `From` impl of the target type
        info = t[3] or {}
        if info.get("name") == "from" and t[1] in f.bodies:
            return t[1]
        ga = info.get("ga") or ()
        if info.get("name") == "into" and info.get("trait") == "std::convert::Into" and len(ga) == 2:
            n = "<%s as std::convert::From<%s>>::from" % (ga[1], ga[0])
            if n in f.bodies:
                return n
        return None
    while is_transparent_call(t) and conv(t) is None:
        t = t[2][0]
    k = t[0]
    if k == "call":
        args = tuple(construct_nf(f, a, depth) for a in t[2])
        cb = f.body(conv(t) or t[1]) if depth < 6 else None
        if cb is not None and cb.arg_count == len(args) and not cb.is_coroutine:
            vals = raw_success_values(cb)
            plain = all(b_["term"]["t"] in ("return", "goto", "call", "drop", "unreachable", "resume") for b_ in cb.blocks)
            if len(vals) == 1 and plain:
                mapping = {(cb.local_name(i + 1) or "_%d" % (i + 1)): args[i] for i in range(cb.arg_count)}
                return construct_nf(f, K._subst(vals[0][2], mapping), depth + 1)
        return ("call", t[1], args, t[3])
    if k == "agg":
        return ("agg", t[1], t[2], tuple((n, construct_nf(f, v, depth)) for n, v in t[3]))
    if k == "field":
        base = construct_nf(f, t[1], depth)
        if base[0] == "agg":
            for n, v in base[3]:
                if str(n) == str(t[2]):
                    return v
        return ("field", base, t[2], t[3] if len(t) > 3 else None)
    if k == "variant":
        return ("variant", construct_nf(f, t[1], depth), t[2])
    if k == "mvar":
        return construct_nf(f, t[3], depth)
    return t


def _maps_through(f, fn_term):
    """The function a `map` applies, if it is `X::to_payload` itself or a closure `|x| x.to_payload()` -> def path."""
    from engine import sym as symmod
    t = strip(fn_term)
    if t[0] == "fnref":
        return t[1]
    if t[0] == "closure":
        cb, m = K.closure_env(f, t, "<element>")
        if cb is None:
            return None
        with symmod.substituting(m):
            vals = [v for _, _, v in success_values(cb)]
            if len(vals) == 1 and vals[0][0] == "call" and len(vals[0][2]) == 1 and render(vals[0][2][0]) == "<element>":
                return vals[0][1]
    return None


def check_iter_payload(ctx, f, want, fn=None):
    LA = SL + "LocallyAddedAssertions"
    ib = f.body(fn or LA + "::iter_payload")
    adt = f.adts.get(LA)
    if ib is None or adt is None:
        return ctx.missing("R-FLOW", "iter_payload", LA + "::iter_payload")
    ctx.saw_fn(ib.name)
    sy = K.sym_of(ib)
    fields = {}
    for fl in adt["variants"][0]["fields"]:
        m = re.search(r"std::vec::Vec<([\w:]+)>", fl["ty"])
        if m and (m.group(1) + "::to_payload") in want:
            fields[m.group(1) + "::to_payload"] = fl["name"]
    vals = [t for _, _, t in success_values(ib)]
    leaves, other = [], []

    def split(t):
        # whole lists, mapped element-wise, chained — in any nesting / order, with no other adaptor
        t = strip_deep(t)
        info = (t[3] or {}) if t[0] == "call" else {}
        if info.get("name") == "chain" and info.get("trait") == "std::iter::Iterator" and len(t[2]) == 2:
            split(t[2][0])
            split(t[2][1])
        elif info.get("name") == "map" and info.get("trait") == "std::iter::Iterator" and len(t[2]) == 2:
            leaves.append((t[2][0], _maps_through(f, t[2][1])))
        elif info.get("name") == "flat_map" and info.get("trait") == "std::iter::Iterator" and len(t[2]) == 2 \
                and strip(t[2][1])[0] == "closure":
            # `opt.iter().flat_map(|list| list.iter().map(g))` is `opt.iter().flatten().map(g)`
            from engine import sym as symmod
            cb, m = K.closure_env(f, strip(t[2][1]), "<element>")
            inner = []
            if cb is not None:
                with symmod.substituting(m):
                    for _, _, v in success_values(cb):
                        v = strip_deep(v)
                        vi = (v[3] or {}) if v[0] == "call" else {}
                        if vi.get("name") == "map" and vi.get("trait") == "std::iter::Iterator" and len(v[2]) == 2 \
                                and render(_unmut(v[2][0])) == "<element>":
                            inner.append(_maps_through(f, v[2][1]))
                        else:
                            inner.append(None)
            if len(inner) == 1 and inner[0] is not None:
                leaves.append((("call", "Iterator::flatten", (t[2][0],), symmod._Info({"name": "flatten", "trait": "std::iter::Iterator",
                                                                                    "res": "Iterator::flatten"})), inner[0]))
            else:
                other.append(render(t)[:160])
        elif info.get("name") == "empty" and re.match(r"^(std|core)::iter::", info.get("fn") or "") and not t[2]:
            pass        # `iter::empty().chain(..)`: contributes nothing
        else:
            other.append(render(t)[:160])
    for v in vals:
        split(v)
    mapped = sorted(str(fn) for _, fn in leaves)
    ok = len(vals) == 1 and not other and mapped == sorted(want) and len(fields) == len(want)
    bad = []
    if ok:
        for coll, fn in leaves:
            if not whole_list(f, ib, sy, coll, fields[fn]):
                bad.append({"list": fields[fn], "iterates": render(strip_deep(coll))[:200]})
    ctx.ob("R-FLOW", "iter_payload:chains-all-three", ok and not bad,
           "iter_payload yields the payloads of all prefix, bgpsec and aspa assertions", where=ib.loc,
           detail={"value": [render(v) for v in vals], "mapped": mapped, "not_a_chain_of_maps": other, "not_the_whole_list": bad})
