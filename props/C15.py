"""C15 — SLURM: a payload is dropped exactly when a filter of its kind matches
(decision tables, field coverage, assertion provenance; DESIGN §2 C15)."""
import re
from engine import absint
from engine.absint import outcome_str
from engine.rules import outcome, success_values, switch_bool_edges, bool_atom
from engine.sym import strip, strip_deep, render, walk, short
from props import common as K

META = {
    "level": "other",
    "technique": "static analysis of type-checked MIR (rustc_private driver): abstract interpretation of the filter decision functions into complete case tables; provenance of payload and serializer fields; list-coverage rule",
    "explanation": "The decision functions of the three filter kinds are abstractly interpreted (Option::map closures inlined) "
                   "and the resulting complete case tables are compared for equality with the specification (filter covers "
                   "origin, argument order included); the container's drop_payload is checked to consult every filter list "
                   "whose element type has a drop_payload and to return true on its true edge; every assertion's payload is "
                   "built from exactly its own fields and iter_payload chains all three lists; hand-written serializers write "
                   "each field from the value's own data and omit it only when that data is None.",
    "not_decided": ["JSON round-trip equality (serde-derived; value equality)"],
    "trusted_base": ["Prefix::covers (C13 not decided)", "derived PartialEq of Asn / KeyIdentifier"],
}

SL = "slurm::"


def _split_args(s):
    """Top-level comma-separated parts of an argument list text."""
    parts, depth, cur = [], 0, ""
    for ch in s:
        if ch in "([{":
            depth += 1
        elif ch in ")]}":
            depth -= 1
        if ch == "," and depth == 0:
            parts.append(cur.strip())
            cur = ""
        else:
            cur += ch
    if cur.strip():
        parts.append(cur.strip())
    return parts


def canon_eq(s):
    """`T::eq(a, b)` (PartialEq::eq of two values of one type) is symmetric: write its operands in sorted order, so that
    `a == b` and `b == a` read the same.  Nothing else is reordered — `covers(a, b)` keeps its argument order."""
    out = ""
    i = 0
    while True:
        m = re.search(r"\b([\w:]+)::(eq|ne)\(", s[i:])
        if not m:
            return out + s[i:]
        start = i + m.end()
        depth, j = 1, start
        while j < len(s) and depth:
            depth += s[j] in "([{"
            depth -= s[j] in ")]}"
            j += 1
        args = [canon_eq(a) for a in _split_args(s[start:j - 1])]
        if len(args) == 2:
            args.sort()
        out += s[i:i + m.start()] + "%s::%s(%s)" % (m.group(1), m.group(2), ", ".join(args))
        i = j


def table_of(paths, body=None):
    """The case table of a decision function: parameter names do not matter (α-normalised when the body is given) and
    equality tests are read as unordered."""
    nm = (lambda x: canon_eq(K.alpha(x, body))) if body is not None else canon_eq
    out = set()
    for p in paths:
        conds = tuple(sorted(nm(c[0]) for c in p.conds))
        out.add((conds, nm(p.zone.describe()), nm(outcome_str(p.outcome))))
    return out


def _parse_zone(z):
    """'A∈[lo,hi], B∈[lo,hi]' -> [(A, lo, hi), …] (None if it does not parse)."""
    out = []
    rest = z
    while rest:
        m = re.match(r"^(.*?)∈\[(\d+),(\d+)\](?:, |$)", rest)
        if not m:
            return None
        out.append((m.group(1), int(m.group(2)), int(m.group(3))))
        rest = rest[m.end():]
    return out


def tables_agree(got, want):
    """Two case tables denote the same decision function: on every combination of the case distinctions (`x is Some`
    / `x is None`, the payload's variant) and of truth values of the tests either table mentions, both give one and the
    same answer.  The order in which a function looks at independent, effect-free tests does not matter; what it
    answers does.  A test the specification does not mention makes the tables disagree."""
    import itertools

    def parse(rows):
        out = []
        for conds, zone, oc_ in rows:
            cs = {}
            for c in conds:
                m = re.match(r"^(.*) is (\w+(?: \w+)*)$", c)
                if not m:
                    return None
                cs[m.group(1)] = m.group(2)
            zs = _parse_zone(zone)
            if zs is None or not oc_.startswith("return "):
                return None
            out.append((cs, zs, oc_[len("return "):]))
        return out
    pg, pw = parse(got), parse(want)
    if pg is None or pw is None:
        return False

    def atoms(rows):
        return {a for _, zs, _ in rows for a, _, _ in zs} | {r for _, _, r in rows if r not in ("0", "1")}
    if not atoms(pg) <= atoms(pw):
        return False
    subjects = {}
    for cs, _, _ in pg + pw:
        for k, v in cs.items():
            subjects.setdefault(k, set()).add(v)
    if any(k not in {k2 for cs, _, _ in pw for k2 in cs} for k in subjects):
        return False
    names = sorted(subjects)
    ats = sorted(atoms(pw))
    if len(names) + len(ats) > 12:
        return False

    def answer(rows, case, truth):
        res = set()
        for cs, zs, r in rows:
            if any(case.get(k) != v for k, v in cs.items()):
                continue
            if any(not (lo <= truth[a] <= hi) for a, lo, hi in zs):
                continue
            res.add(int(r) if r in ("0", "1") else truth[r])
        return res
    for vals in itertools.product(*[sorted(subjects[n]) for n in names]):
        case = dict(zip(names, vals))
        for bits in itertools.product((0, 1), repeat=len(ats)):
            truth = dict(zip(ats, bits))
            a, w = answer(pg, case, truth), answer(pw, case, truth)
            if len(w) != 1 or a != w:
                return False
    return True


def spec_table(rows):
    return {(tuple(sorted(canon_eq(c) for c in conds)), canon_eq(z), canon_eq(o)) for conds, z, o in rows}


def run(ctx):
    f = ctx.facts()
    ctx.rule("R-REG", "complete decision table by abstract interpretation equals the spec table")
    ctx.rule("R-SIB", "every filter list of the container is consulted")
    ctx.rule("R-FLOW", "operand provenance")
    check_handwritten_serializers(ctx, f)
    K.check_base64_engines(ctx, f)
    ctx.rule("R-WHO", "a limit is tested only where the value is built")
    K.check_limit_owners(ctx, f, "rtr::pdu::ProviderAsns::MAX_COUNT",
                         ["repository::aspa::ProviderAsSet::take_from", "rtr::pdu::ProviderAsns::try_from_iter"])
    from props.C13 import check_covers_family
    ctx.rule("R-GRD", "success requires the guard")
    check_covers_family(ctx, f)

    # ---- C15.b decision tables ---------------------------------------------------
    # %2 is the function's second parameter (the origin / router key / ASPA / payload item), whatever it is called
    cov = "Prefix::covers(self.prefix↓Some.0, MaxLenPrefix::prefix(%2.prefix))"
    aeq = "Asn::eq(self.asn↓Some.0, %2.asn)"
    specs = {
        SL + "PrefixFilter::drop_origin": {
            (("self.asn is Some", "self.prefix is Some"), cov + "∈[1,1]", "return " + aeq),
            (("self.asn is Some", "self.prefix is Some"), cov + "∈[0,0]", "return 0"),
            (("self.asn is None", "self.prefix is Some"), "", "return " + cov),
            (("self.asn is Some", "self.prefix is None"), "", "return " + aeq),
            (("self.asn is None", "self.prefix is None"), "", "return 0"),
        },
        SL + "BgpsecFilter::drop_router_key": {
            (("self.asn is Some", "self.ski is Some"), "KeyIdentifier::eq(self.ski↓Some.0, %2.key_identifier)∈[1,1]", "return Asn::eq(self.asn↓Some.0, %2.asn)"),
            (("self.asn is Some", "self.ski is Some"), "KeyIdentifier::eq(self.ski↓Some.0, %2.key_identifier)∈[0,0]", "return 0"),
            (("self.asn is None", "self.ski is Some"), "", "return KeyIdentifier::eq(self.ski↓Some.0, %2.key_identifier)"),
            (("self.asn is Some", "self.ski is None"), "", "return Asn::eq(self.asn↓Some.0, %2.asn)"),
            (("self.asn is None", "self.ski is None"), "", "return 0"),
        },
        SL + "AspaFilter::drop_aspa": {
            (("self.customer_asid is Some",), "", "return Asn::eq(self.customer_asid↓Some.0, %2.customer)"),
            (("self.customer_asid is None",), "", "return 0"),
        },
        SL + "PrefixFilter::drop_payload": {
            (("%2 is Origin",), "", "return PrefixFilter::drop_origin(self, %2↓Origin.0)"),
            (("%2 is another variant",), "", "return 0"),
        },
        SL + "BgpsecFilter::drop_payload": {
            (("%2 is RouterKey",), "", "return BgpsecFilter::drop_router_key(self, %2↓RouterKey.0)"),
            (("%2 is another variant",), "", "return 0"),
        },
        SL + "AspaFilter::drop_payload": {
            (("%2 is Aspa",), "", "return AspaFilter::drop_aspa(self, %2↓Aspa.0)"),
            (("%2 is another variant",), "", "return 0"),
        },
    }
    for fn, want in specs.items():
        b = f.body(fn)
        if b is None:
            ctx.missing("R-REG", short(fn), fn)
            continue
        ctx.saw_fn(fn)
        paths, it, err = K.run_absint(f, fn)
        if paths is None:
            ctx.ob("R-REG", short(fn) + ":analysable", False, "cannot establish: " + err, where=b.loc)
            continue
        got = table_of(paths, b)
        want = spec_table(want)
        ctx.ob("R-REG", short(fn) + ":table", (got == want or tables_agree(got, want)) and not it.imprecise,
               "%s has exactly the specified case table (%d rows)" % (short(fn), len(want)), where=b.loc,
               detail={"unexpected_rows": sorted(map(list, got - want)), "missing_rows": sorted(map(list, want - got)),
                       "imprecision": it.imprecise} if got != want or it.imprecise else {"rows": len(got)})
    # the payload's variant order: "another variant" must not hide a second listed kind
    # (each drop_payload matches exactly one Payload variant: checked by the tables above)

    # ---- C15.a every filter list consulted -------------------------------------------
    VOF = SL + "ValidationOutputFilters"
    check_container_drop(ctx, f)
    sb = f.body(SL + "SlurmFile::drop_payload")
    if sb is not None:
        vals = [render(t) for _, _, t in success_values(sb)]
        allv = set()
        for c in sb.calls():
            if c.is_static and not sb.is_cleanup(c.bb):
                allv.add((c.res, tuple(K.alpha(x, sb) for x in K.arg_renders(c))))
        ctx.ob("R-FLOW", "SlurmFile::drop_payload:delegates", allv == {(VOF + "::drop_payload", ("self.filters", "%2"))},
               "SlurmFile::drop_payload is the filters' verdict on the same payload", where=sb.loc, detail=sorted(map(str, allv)))

    # ---- C15.c assertions carry their fields ---------------------------------------------
    want = {
        SL + "PrefixAssertion::to_payload": ("rtr::payload::Payload::origin", ["self.prefix", "self.asn"]),
        SL + "BgpsecAssertion::to_payload": ("rtr::payload::Payload::router_key", ["self.ski", "self.asn", "self.router_public_key.0"]),
        SL + "AspaAssertion::to_payload": ("rtr::payload::Payload::aspa", ["self.customer_asn", "self.provider_asns"]),
    }
    for fn, (ctor, args) in want.items():
        b = f.body(fn)
        if b is None:
            ctx.missing("R-FLOW", short(fn), fn)
            continue
        ctx.saw_fn(fn)
        vals = [t for _, _, t in success_values(b)]
        ok = len(vals) == 1 and vals[0][0] == "call" and vals[0][1] == ctor and [render(a) for a in vals[0][2]] == args
        ctx.ob("R-FLOW", short(fn), ok, "%s builds %s from exactly its own fields %s" % (short(fn), short(ctor), args),
               where=b.loc, detail=[render(v) for v in vals])
    # Payload constructors store their arguments
    for ctor, variant, flds in (("rtr::payload::Payload::origin", "Origin", r"RouteOrigin::new\(prefix, asn\)"),
                                ("rtr::payload::Payload::router_key", "RouterKey", r"RouterKey::new\(key_identifier, asn, key_info\)"),
                                ("rtr::payload::Payload::aspa", "Aspa", r"Aspa::new\(customer, providers\)")):
        b = f.body(ctor)
        if b is None:
            ctx.missing("R-FLOW", short(ctor), ctor)
            continue
        vals = [render(t) for _, _, t in success_values(b)]
        ok = len(vals) == 1 and re.match(r"^payload::Payload::%s\{0: %s\}$" % (variant, flds), vals[0]) is not None
        ctx.ob("R-FLOW", short(ctor), ok, "%s wraps its arguments unchanged" % short(ctor), where=b.loc, detail=vals)
    check_iter_payload(ctx, f, want)


def check_handwritten_serializers(ctx, f):
    """A hand-written Serialize impl in slurm.rs writes every field from the value's own data and leaves a field out only
    when that data is None — it does not decide by comparing values (a file must parse back to an equal value)."""
    PLAIN = r"(self\.\w+|[\w:]+\(self\.\w+\))"
    n = 0
    for name, b in sorted(f.bodies.items()):
        if not b.file.endswith("src/slurm.rs") or K.is_derived_body(b) or not name.endswith("Serialize>::serialize"):
            continue
        for c in b.calls():
            if c.name != "serialize_field" or b.is_cleanup(c.bb):
                continue
            a = [K.alpha(x, b) for x in K.arg_renders(c)]
            fld, val = a[1], a[2]
            n += 1
            guards = [g for g in K.dominating_guards(f, b, c.bb) if not g.startswith("discr(Try::branch(")]
            m = re.match(r"^%s↓Some\.0$" % PLAIN, val)
            if m:
                src = val[:-len("↓Some.0")]
                ok = guards == ["discr(%s) in {1}" % src]
                what = "is written exactly when %s is Some, with that value" % src
            else:
                ok = not guards and re.search(r"self\.\w+", val) is not None and "filter" not in val
                what = "is always written, from the value's own data"
            ctx.ob("R-FLOW", "%s:field[%s]" % (short(K.root_fn_name(f, name)), fld.strip("b'")), ok,
                   "%s: field %s %s" % (short(K.root_fn_name(f, name)), fld, what), where=c.where(),
                   detail={"value": val, "conditions": guards})
    ctx.floor("R-FLOW", "fields written by hand-written serializers in slurm.rs", n, 6)


# ---------------------------------------------------------------------------------------------
# C15.a — the container's verdict is "some filter of some list matches"

def _unmut(t):
    t = strip_deep(t)
    while t[0] == "mvar":
        t = strip_deep(t[3])
    return t


def _is_empty_seq(t):
    t = _unmut(t)
    if t[0] == "agg" and t[1] in ("array", "tuple") and not t[3]:
        return True
    if t[0] == "call" and (t[3] or {}).get("name") == "default" and not t[2]:
        return True
    return False


def whole_list(f, b, sy, coll, fname):
    """Does iterating `coll` visit every element of the filter list `self.<fname>`?  Accepted: the list itself; an
    optional list flattened (`self.x.iter().flatten()`); the payload of the optional list (`self.x↓Some.0`, reached
    only when there is one); a local that is that payload when the list is present and an empty sequence exactly when
    it is absent."""
    t = _unmut(coll)
    # adaptors that still visit every element
    while t[0] == "call" and (t[3] or {}).get("name") in ("enumerate", "rev", "peekable", "copied", "cloned", "fuse") \
            and (t[3] or {}).get("trait") == "std::iter::Iterator" and len(t[2]) == 1:
        t = _unmut(t[2][0])
    fld = r"^self\.%s$" % re.escape(fname)
    r = render(t)
    if re.match(fld, r):
        return True
    if t[0] == "call" and (t[3] or {}).get("name") == "flatten" and (t[3] or {}).get("trait") == "std::iter::Iterator" \
            and len(t[2]) == 1 and re.match(fld, render(_unmut(t[2][0]))):
        return True
    some = r"^self\.%s↓Some\.0$" % re.escape(fname)
    if re.match(some, r):
        return True
    if t[0] == "var":
        defs = sy.defs_of_var(t[2])
        n_some = 0
        for dbb, dt in defs:
            if re.match(some, render(_unmut(dt))):
                n_some += 1
            elif _is_empty_seq(dt) and ("discr(self.%s) in {0}" % fname) in K.dominating_guards(f, b, dbb):
                pass
            else:
                return False
        return n_some >= 1
    return False


def _element_of(t):
    """`next(it)↓Some.0` (the element a `for` loop / `while let` is looking at) -> the term iterated, else None."""
    t = strip_deep(t)
    while t[0] == "field" and strip_deep(t[1])[0] == "field":       # `(i, x)` of an enumerate()
        t = strip_deep(t[1])
    if t[0] == "field" and str(t[2]) == "0":
        v = strip_deep(t[1])
        if v[0] == "variant" and v[2] == "Some":
            c = strip_deep(v[1])
            if c[0] == "call" and (c[3] or {}).get("name") == "next" and (c[3] or {}).get("trait") == "std::iter::Iterator" and c[2]:
                return c[2][0]
    return None


def _closure_is_pred(f, ct, payload_text):
    """A closure `|x| Filter::drop_payload(x, payload)`: returns (callee, ok) — ok iff its result is true exactly when
    that call is (both directions decided over the closure's paths)."""
    from engine import orderlogic as OL
    from engine import sym as symmod
    from engine.sym import Sym
    cb, m = K.closure_env(f, ct, "<element>")
    if cb is None:
        return None, False
    keys = sorted({c.res for c in cb.calls() if c.is_static and c.name == "drop_payload" and not cb.is_cleanup(c.bb)})
    if len(keys) != 1:
        return None, False
    rx = r"^%s\(<element>, %s\)$" % (re.escape(short(keys[0])), re.escape(payload_text))
    with symmod.substituting(m):
        ok_t, _ = OL.implies(cb, Sym(cb), True, K.pred_lit(rx, True))
        ok_f, _ = OL.implies(cb, Sym(cb), False, K.pred_lit(rx, False))
    return keys[0], ok_t and ok_f


def check_container_drop(ctx, f):
    from engine import orderlogic as OL
    from engine.rules import MustPass, guard_edges, pred_matcher
    VOF = SL + "ValidationOutputFilters"
    adt = f.adts.get(VOF)
    b = f.body(VOF + "::drop_payload")
    if adt is None or b is None:
        return ctx.missing("R-SIB", "ValidationOutputFilters::drop_payload", VOF)
    ctx.saw_fn(b.name)
    oc = outcome(b)
    sy = oc.sym
    fields = []
    for fl in adt["variants"][0]["fields"]:
        m = re.search(r"std::vec::Vec<([\w:]+)>", fl["ty"])
        if m and f.body(m.group(1) + "::drop_payload") is not None:
            fields.append((fl["name"], m.group(1)))
    ctx.floor("R-SIB", "filter lists with a drop_payload element method", len(fields), 3)
    payload = b.local_name(2) or "_2"
    try:
        ps = OL.paths(b, sy)            # loop-free (iterator combinators): decided path by path
    except OL.NotComparisonOnly:
        ps = None

    # the places where "some element of a collection matches" is computed:
    #   loop form        Filter::drop_payload(<element of an iteration over C>, payload), looked at inside the loop
    #   combinator form  C.iter().any(|x| Filter::drop_payload(x, payload))
    sources = []        # dicts: key (callee), coll (term iterated), payload_ok, drops (a match makes the function return true), text
    for c in b.calls():
        if b.is_cleanup(c.bb) or not c.is_static or c.name != "drop_payload":
            continue
        a = K.arg_terms(c)
        coll = _element_of(a[0]) if a else None
        t_ok = False
        for bi, blk in enumerate(b.blocks):
            t = blk["term"]
            if t["t"] == "switch" and t.get("dty") == "bool":
                at = bool_atom(sy.operand(t["discr"]))
                if at and isinstance(at[0], tuple) and at[0][1] == c.res and (at[1] and (strip_deep(at[1][0]) == a[0])):
                    e = switch_bool_edges(b, bi)
                    true_t = e[1] if at[3] else e[0]
                    reach = b.reachable(true_t, removed_blocks=oc.fail_blocks)
                    # on the true edge the function must return true without consulting anything else
                    t_ok = any(r in reach for r in oc.returns()) and not any(b.term(x)["t"] == "switch" for x in reach)
        sources.append({"key": c.res, "coll": coll, "payload_ok": len(a) == 2 and render(a[1]) == payload, "drops": t_ok,
                        "text": [render(x) for x in a], "form": "loop"})
    any_atoms = {}
    for c, name, ct in K.combinator_calls(f, b, r".", names=("any",)):
        key, pred_ok = _closure_is_pred(f, ct, payload)
        if key is None:
            continue
        a = K.arg_terms(c)
        text = render(strip_deep(sy.call(b.term(c.bb), c.bb)))
        drops = False
        if ps is not None and pred_ok:
            drops = True
            for conds, ret in ps:
                contradicted = False
                for at, truth in conds:
                    while at[0] == "not":
                        at, truth = at[1], not truth
                    if at[0] == "opaque" and at[1] == text and not truth:
                        contradicted = True
                if contradicted:
                    continue
                r = OL.atom(ret) if ret is not None else ("opaque", "<nothing>")
                neg = False
                while r[0] == "not":
                    r, neg = r[1], not neg
                if r[0] == "const":
                    if bool(r[1]) == neg:           # returns false although this list has a matching filter
                        drops = False
                elif not (r[0] == "opaque" and r[1] == text and not neg):
                    drops = False
        if pred_ok:
            any_atoms[text] = key
        sources.append({"key": key, "coll": a[0], "payload_ok": pred_ok, "drops": drops, "text": [render(x) for x in a],
                        "form": "any"})

    for fname, ety in fields:
        key = ety + "::drop_payload"
        mine = [s_ for s_ in sources if s_["key"] == key]
        ok = any(s_["coll"] is not None and whole_list(f, b, sy, s_["coll"], fname) and s_["payload_ok"] and s_["drops"] for s_ in mine)
        ctx.ob("R-SIB", "ValidationOutputFilters::drop_payload:consults-%s" % fname, ok,
               "drop_payload applies every %s filter (self.%s) to the payload and drops on a match" % (short(ety), fname),
               where=b.loc, detail=[{k: v for k, v in s_.items() if k != "coll"} for s_ in mine] or "no call to %s" % key)
    # only-if: true is returned only behind a matching filter
    if ps is not None and any_atoms:
        def lit(a):
            if a[0] == "opaque" and a[1] in any_atoms:
                return True
            return None
        ok, why_not = OL.implies(b, sy, True, lit)
        detail = None if ok else why_not
    else:
        g = pred_matcher(r"(PrefixFilter|BgpsecFilter|AspaFilter)::drop_payload$", ())
        mp = MustPass(f, lambda c: False, guard_fn=lambda bd, s, bb: guard_edges(bd, s, bb, g), name="some filter matched")
        ok = mp.holds(b.name)
        detail = None if ok else K.why(f, mp, b.name)
    ctx.ob("R-SIB", "ValidationOutputFilters::drop_payload:true-only-on-match", ok,
           "drop_payload returns true only on the true edge of some filter's drop_payload", where=b.loc, detail=detail)


# ---------------------------------------------------------------------------------------------
# C15.c — iter_payload is the concatenation of the three assertion lists, each mapped through to_payload

def _maps_through(f, fn_term):
    """The function a `map` applies, if it is `X::to_payload` itself or a closure `|x| x.to_payload()` -> def path."""
    from engine import sym as symmod
    t = strip(fn_term)
    if t[0] == "fnref":
        return t[1]
    if t[0] == "closure":
        cb, m = K.closure_env(f, t, "<element>")
        if cb is None:
            return None
        with symmod.substituting(m):
            vals = [v for _, _, v in success_values(cb)]
            if len(vals) == 1 and vals[0][0] == "call" and len(vals[0][2]) == 1 and render(vals[0][2][0]) == "<element>":
                return vals[0][1]
    return None


def check_iter_payload(ctx, f, want):
    LA = SL + "LocallyAddedAssertions"
    ib = f.body(LA + "::iter_payload")
    adt = f.adts.get(LA)
    if ib is None or adt is None:
        return ctx.missing("R-FLOW", "iter_payload", LA + "::iter_payload")
    ctx.saw_fn(ib.name)
    sy = K.sym_of(ib)
    fields = {}
    for fl in adt["variants"][0]["fields"]:
        m = re.search(r"std::vec::Vec<([\w:]+)>", fl["ty"])
        if m and (m.group(1) + "::to_payload") in want:
            fields[m.group(1) + "::to_payload"] = fl["name"]
    vals = [t for _, _, t in success_values(ib)]
    leaves, other = [], []

    def split(t):
        # whole lists, mapped element-wise, chained — in any nesting / order, with no other adaptor
        t = strip_deep(t)
        info = (t[3] or {}) if t[0] == "call" else {}
        if info.get("name") == "chain" and info.get("trait") == "std::iter::Iterator" and len(t[2]) == 2:
            split(t[2][0])
            split(t[2][1])
        elif info.get("name") == "map" and info.get("trait") == "std::iter::Iterator" and len(t[2]) == 2:
            leaves.append((t[2][0], _maps_through(f, t[2][1])))
        else:
            other.append(render(t)[:160])
    for v in vals:
        split(v)
    mapped = sorted(str(fn) for _, fn in leaves)
    ok = len(vals) == 1 and not other and mapped == sorted(want) and len(fields) == len(want)
    bad = []
    if ok:
        for coll, fn in leaves:
            if not whole_list(f, ib, sy, coll, fields[fn]):
                bad.append({"list": fields[fn], "iterates": render(strip_deep(coll))[:200]})
    ctx.ob("R-FLOW", "iter_payload:chains-all-three", ok and not bad,
           "iter_payload yields the payloads of all prefix, bgpsec and aspa assertions", where=ib.loc,
           detail={"value": [render(v) for v in vals], "mapped": mapped, "not_a_chain_of_maps": other, "not_the_whole_list": bad})
