"""C15 — SLURM: a payload is dropped exactly when a filter of its kind matches
(decision tables, field coverage, assertion provenance; DESIGN §2 C15)."""
import re
from engine import absint
from engine.absint import outcome_str
from engine.rules import outcome, success_values, switch_bool_edges, bool_atom
from engine.sym import strip, strip_deep, render, walk, short
from props import common as K

META = {
    "level": "other",
    "technique": "static analysis of type-checked MIR (rustc_private driver): abstract interpretation of the filter decision functions into complete case tables; provenance of payload and serializer fields; list-coverage rule",
    "explanation": "The decision functions of the three filter kinds are abstractly interpreted (Option::map closures inlined) "
                   "and the resulting complete case tables are compared for equality with the specification (filter covers "
                   "origin, argument order included); the container's drop_payload is checked to consult every filter list "
                   "whose element type has a drop_payload and to return true on its true edge; every assertion's payload is "
                   "built from exactly its own fields and iter_payload chains all three lists; hand-written serializers write "
                   "each field from the value's own data and omit it only when that data is None.",
    "not_decided": ["JSON round-trip equality (serde-derived; value equality)"],
    "trusted_base": ["Prefix::covers (C13 not decided)", "derived PartialEq of Asn / KeyIdentifier"],
}

SL = "slurm::"


def _split_args(s):
    """Top-level comma-separated parts of an argument list text."""
    parts, depth, cur = [], 0, ""
    for ch in s:
        if ch in "([{":
            depth += 1
        elif ch in ")]}":
            depth -= 1
        if ch == "," and depth == 0:
            parts.append(cur.strip())
            cur = ""
        else:
            cur += ch
    if cur.strip():
        parts.append(cur.strip())
    return parts


def canon_eq(s):
    """`T::eq(a, b)` (PartialEq::eq of two values of one type) is symmetric: write its operands in sorted order, so that
    `a == b` and `b == a` read the same.  Nothing else is reordered — `covers(a, b)` keeps its argument order."""
    out = ""
    i = 0
    while True:
        m = re.search(r"\b([\w:]+)::(eq|ne)\(", s[i:])
        if not m:
            return out + s[i:]
        start = i + m.end()
        depth, j = 1, start
        while j < len(s) and depth:
            depth += s[j] in "([{"
            depth -= s[j] in ")]}"
            j += 1
        args = [canon_eq(a) for a in _split_args(s[start:j - 1])]
        if len(args) == 2:
            args.sort()
        out += s[i:i + m.start()] + "%s::%s(%s)" % (m.group(1), m.group(2), ", ".join(args))
        i = j


def table_of(paths, body=None):
    """The case table of a decision function: parameter names do not matter (α-normalised when the body is given) and
    equality tests are read as unordered."""
    nm = (lambda x: canon_eq(K.alpha(x, body))) if body is not None else canon_eq
    out = set()
    for p in paths:
        conds = tuple(sorted(nm(c[0]) for c in p.conds))
        out.add((conds, nm(p.zone.describe()), nm(outcome_str(p.outcome))))
    return out


def spec_table(rows):
    return {(tuple(sorted(canon_eq(c) for c in conds)), canon_eq(z), canon_eq(o)) for conds, z, o in rows}


def run(ctx):
    f = ctx.facts()
    ctx.rule("R-REG", "complete decision table by abstract interpretation equals the spec table")
    ctx.rule("R-SIB", "every filter list of the container is consulted")
    ctx.rule("R-FLOW", "operand provenance")
    check_handwritten_serializers(ctx, f)
    K.check_base64_engines(ctx, f)
    ctx.rule("R-WHO", "a limit is tested only where the value is built")
    K.check_limit_owners(ctx, f, "rtr::pdu::ProviderAsns::MAX_COUNT",
                         ["repository::aspa::ProviderAsSet::take_from", "rtr::pdu::ProviderAsns::try_from_iter"])
    from props.C13 import check_covers_family
    ctx.rule("R-GRD", "success requires the guard")
    check_covers_family(ctx, f)

    # ---- C15.b decision tables ---------------------------------------------------
    # %2 is the function's second parameter (the origin / router key / ASPA / payload item), whatever it is called
    cov = "Prefix::covers(self.prefix↓Some.0, MaxLenPrefix::prefix(%2.prefix))"
    aeq = "Asn::eq(self.asn↓Some.0, %2.asn)"
    specs = {
        SL + "PrefixFilter::drop_origin": {
            (("self.asn is Some", "self.prefix is Some"), cov + "∈[1,1]", "return " + aeq),
            (("self.asn is Some", "self.prefix is Some"), cov + "∈[0,0]", "return 0"),
            (("self.asn is None", "self.prefix is Some"), "", "return " + cov),
            (("self.asn is Some", "self.prefix is None"), "", "return " + aeq),
            (("self.asn is None", "self.prefix is None"), "", "return 0"),
        },
        SL + "BgpsecFilter::drop_router_key": {
            (("self.asn is Some", "self.ski is Some"), "KeyIdentifier::eq(self.ski↓Some.0, %2.key_identifier)∈[1,1]", "return Asn::eq(self.asn↓Some.0, %2.asn)"),
            (("self.asn is Some", "self.ski is Some"), "KeyIdentifier::eq(self.ski↓Some.0, %2.key_identifier)∈[0,0]", "return 0"),
            (("self.asn is None", "self.ski is Some"), "", "return KeyIdentifier::eq(self.ski↓Some.0, %2.key_identifier)"),
            (("self.asn is Some", "self.ski is None"), "", "return Asn::eq(self.asn↓Some.0, %2.asn)"),
            (("self.asn is None", "self.ski is None"), "", "return 0"),
        },
        SL + "AspaFilter::drop_aspa": {
            (("self.customer_asid is Some",), "", "return Asn::eq(self.customer_asid↓Some.0, %2.customer)"),
            (("self.customer_asid is None",), "", "return 0"),
        },
        SL + "PrefixFilter::drop_payload": {
            (("%2 is Origin",), "", "return PrefixFilter::drop_origin(self, %2↓Origin.0)"),
            (("%2 is another variant",), "", "return 0"),
        },
        SL + "BgpsecFilter::drop_payload": {
            (("%2 is RouterKey",), "", "return BgpsecFilter::drop_router_key(self, %2↓RouterKey.0)"),
            (("%2 is another variant",), "", "return 0"),
        },
        SL + "AspaFilter::drop_payload": {
            (("%2 is Aspa",), "", "return AspaFilter::drop_aspa(self, %2↓Aspa.0)"),
            (("%2 is another variant",), "", "return 0"),
        },
    }
    for fn, want in specs.items():
        b = f.body(fn)
        if b is None:
            ctx.missing("R-REG", short(fn), fn)
            continue
        ctx.saw_fn(fn)
        paths, it, err = K.run_absint(f, fn)
        if paths is None:
            ctx.ob("R-REG", short(fn) + ":analysable", False, "cannot establish: " + err, where=b.loc)
            continue
        got = table_of(paths, b)
        want = spec_table(want)
        ctx.ob("R-REG", short(fn) + ":table", got == want and not it.imprecise,
               "%s has exactly the specified case table (%d rows)" % (short(fn), len(want)), where=b.loc,
               detail={"unexpected_rows": sorted(map(list, got - want)), "missing_rows": sorted(map(list, want - got)),
                       "imprecision": it.imprecise} if got != want or it.imprecise else {"rows": len(got)})
    # the payload's variant order: "another variant" must not hide a second listed kind
    # (each drop_payload matches exactly one Payload variant: checked by the tables above)

    # ---- C15.a every filter list consulted -------------------------------------------
    VOF = SL + "ValidationOutputFilters"
    adt = f.adts.get(VOF)
    b = f.body(VOF + "::drop_payload")
    if adt is None or b is None:
        ctx.missing("R-SIB", "ValidationOutputFilters::drop_payload", VOF)
    else:
        ctx.saw_fn(b.name)
        oc = outcome(b)
        fields = []
        for fl in adt["variants"][0]["fields"]:
            m = re.search(r"std::vec::Vec<([\w:]+)>", fl["ty"])
            if m and f.body(m.group(1) + "::drop_payload") is not None:
                fields.append((fl["name"], m.group(1)))
        ctx.floor("R-SIB", "filter lists with a drop_payload element method", len(fields), 3)
        calls = {}
        for c in b.calls():
            if b.is_cleanup(c.bb) or not c.is_static or c.name != "drop_payload":
                continue
            a = K.arg_renders(c)
            calls[c.res] = (c, a)
        for fname, ety in fields:
            key = ety + "::drop_payload"
            hit = calls.get(key)
            ok = False
            detail = None
            if hit:
                c, a = hit
                detail = a
                src_ok = re.search(r"self\.%s\b" % fname, a[0]) is not None and a[1] == "payload"
                # true edge of the call's result returns true
                t_ok = False
                for bi, blk in enumerate(b.blocks):
                    t = blk["term"]
                    if t["t"] == "switch" and t.get("dty") == "bool":
                        at = bool_atom(oc.sym.operand(t["discr"]))
                        if at and isinstance(at[0], tuple) and at[0][1] == key:
                            e = switch_bool_edges(b, bi)
                            true_t = e[1] if at[3] else e[0]
                            reach = b.reachable(true_t, removed_blocks=oc.fail_blocks)
                            # on the true edge the function must return true without consulting anything else
                            t_ok = any(r in reach for r in oc.returns()) and not any(
                                b.term(x)["t"] == "switch" for x in reach)
                ok = src_ok and t_ok
            ctx.ob("R-SIB", "ValidationOutputFilters::drop_payload:consults-%s" % fname, ok,
                   "drop_payload applies every %s filter (self.%s) to the payload and drops on a match" % (short(ety), fname),
                   where=b.loc, detail=detail or "no call to %s" % key)
        # only-if: true is returned only behind a matching filter
        from engine.rules import MustPass, guard_edges, pred_matcher
        g = pred_matcher(r"(PrefixFilter|BgpsecFilter|AspaFilter)::drop_payload$", ())
        mp = MustPass(f, lambda c: False, guard_fn=lambda bd, s, bb: guard_edges(bd, s, bb, g), name="some filter matched")
        ok = mp.holds(b.name)
        ctx.ob("R-SIB", "ValidationOutputFilters::drop_payload:true-only-on-match", ok,
               "drop_payload returns true only on the true edge of some filter's drop_payload", where=b.loc,
               detail=None if ok else K.why(f, mp, b.name))
    sb = f.body(SL + "SlurmFile::drop_payload")
    if sb is not None:
        vals = [render(t) for _, _, t in success_values(sb)]
        allv = set()
        for c in sb.calls():
            if c.is_static and not sb.is_cleanup(c.bb):
                allv.add((c.res, tuple(K.arg_renders(c))))
        ctx.ob("R-FLOW", "SlurmFile::drop_payload:delegates", allv == {(VOF + "::drop_payload", ("self.filters", "payload"))},
               "SlurmFile::drop_payload is the filters' verdict on the same payload", where=sb.loc, detail=sorted(map(str, allv)))

    # ---- C15.c assertions carry their fields ---------------------------------------------
    want = {
        SL + "PrefixAssertion::to_payload": ("rtr::payload::Payload::origin", ["self.prefix", "self.asn"]),
        SL + "BgpsecAssertion::to_payload": ("rtr::payload::Payload::router_key", ["self.ski", "self.asn", "self.router_public_key.0"]),
        SL + "AspaAssertion::to_payload": ("rtr::payload::Payload::aspa", ["self.customer_asn", "self.provider_asns"]),
    }
    for fn, (ctor, args) in want.items():
        b = f.body(fn)
        if b is None:
            ctx.missing("R-FLOW", short(fn), fn)
            continue
        ctx.saw_fn(fn)
        vals = [t for _, _, t in success_values(b)]
        ok = len(vals) == 1 and vals[0][0] == "call" and vals[0][1] == ctor and [render(a) for a in vals[0][2]] == args
        ctx.ob("R-FLOW", short(fn), ok, "%s builds %s from exactly its own fields %s" % (short(fn), short(ctor), args),
               where=b.loc, detail=[render(v) for v in vals])
    # Payload constructors store their arguments
    for ctor, variant, flds in (("rtr::payload::Payload::origin", "Origin", r"RouteOrigin::new\(prefix, asn\)"),
                                ("rtr::payload::Payload::router_key", "RouterKey", r"RouterKey::new\(key_identifier, asn, key_info\)"),
                                ("rtr::payload::Payload::aspa", "Aspa", r"Aspa::new\(customer, providers\)")):
        b = f.body(ctor)
        if b is None:
            ctx.missing("R-FLOW", short(ctor), ctor)
            continue
        vals = [render(t) for _, _, t in success_values(b)]
        ok = len(vals) == 1 and re.match(r"^payload::Payload::%s\{0: %s\}$" % (variant, flds), vals[0]) is not None
        ctx.ob("R-FLOW", short(ctor), ok, "%s wraps its arguments unchanged" % short(ctor), where=b.loc, detail=vals)
    ib = f.body(SL + "LocallyAddedAssertions::iter_payload")
    if ib is None:
        ctx.missing("R-FLOW", "iter_payload", SL + "LocallyAddedAssertions::iter_payload")
    else:
        ctx.saw_fn(ib.name)
        vals = [render(t) for _, _, t in success_values(ib)]
        r = vals[0] if vals else ""
        # whole lists, mapped element-wise, chained — in any nesting / order, with no other adaptor
        norm = re.sub(r"closure:iter_payload::\{closure#\d+\}\[\]", "C", r)
        parts = sorted(re.findall(r"Iterator::map\(([^,()]+), C\)", norm))
        skeleton = re.sub(r"Iterator::map\([^,()]+, C\)", "M", norm)
        ok = len(vals) == 1 and skeleton in ("Iterator::chain(M, Iterator::chain(M, M))", "Iterator::chain(Iterator::chain(M, M), M)") \
            and len(parts) == 3 and "self.prefix" in parts and "self.bgpsec" in parts and \
            any(p_ in ("$aspa", "self.aspa") or "aspa" in p_ for p_ in parts)
        # the aspa operand is the whole optional list (or the empty default)
        asp = [d_ for d_ in K.sym_of(ib).defs_of_var(next((l for l in range(len(ib.locals)) if ib.local_name(l) == "aspa"), -1))]
        asp_r = sorted(render(strip_deep(t)) for _, t in asp)
        ok = ok and (not asp_r or all(re.search(r"self\.aspa↓Some\.0|Default::default\(\)", x) for x in asp_r))
        # each mapped closure calls the element's to_payload
        kids = [f.body(n) for n in f.children(ib.name)]
        tp = sorted(c.res for k in kids if k is not None for c in k.calls() if c.name == "to_payload")
        ok = ok and tp == sorted(want)
        ctx.ob("R-FLOW", "iter_payload:chains-all-three", ok,
               "iter_payload yields the payloads of all prefix, bgpsec and aspa assertions", where=ib.loc,
               detail={"value": r, "mapped": tp})


def check_handwritten_serializers(ctx, f):
    """A hand-written Serialize impl in slurm.rs writes every field from the value's own data and leaves a field out only
    when that data is None — it does not decide by comparing values (a file must parse back to an equal value)."""
    PLAIN = r"(self\.\w+|[\w:]+\(self\.\w+\))"
    n = 0
    for name, b in sorted(f.bodies.items()):
        if not b.file.endswith("src/slurm.rs") or K.is_derived_body(b) or not name.endswith("Serialize>::serialize"):
            continue
        for c in b.calls():
            if c.name != "serialize_field" or b.is_cleanup(c.bb):
                continue
            a = [K.alpha(x, b) for x in K.arg_renders(c)]
            fld, val = a[1], a[2]
            n += 1
            guards = [g for g in K.dominating_guards(f, b, c.bb) if not g.startswith("discr(Try::branch(")]
            m = re.match(r"^%s↓Some\.0$" % PLAIN, val)
            if m:
                src = val[:-len("↓Some.0")]
                ok = guards == ["discr(%s) in {1}" % src]
                what = "is written exactly when %s is Some, with that value" % src
            else:
                ok = not guards and re.search(r"self\.\w+", val) is not None and "filter" not in val
                what = "is always written, from the value's own data"
            ctx.ob("R-FLOW", "%s:field[%s]" % (short(K.root_fn_name(f, name)), fld.strip("b'")), ok,
                   "%s: field %s %s" % (short(K.root_fn_name(f, name)), fld, what), where=c.where(),
                   detail={"value": val, "conditions": guards})
    ctx.floor("R-FLOW", "fields written by hand-written serializers in slurm.rs", n, 6)
