"""C10 — CA protocol CMS accepted iff signed under the peer key, current, not revoked
(structural necessary conditions; DESIGN §2 C10.a–e)."""
import re
from engine.rules import (MustPass, guard_edges, eq_matcher, pred_matcher, outcome, aggregates_of, calls_to,
                          call_checked, variant_edge_fails, switch_bool_edges, variant_edge, bool_place_edge, any_of)
from engine.sym import Sym, strip, strip_deep, render, walk, short, roots
from engine.callgraph import CallGraph
from props import common as K

META = {
    "level": "other",
    "technique": "static analysis of type-checked MIR (rustc_private driver): MIR must-pass-through graph cuts, guard polarity and interprocedural provenance of keys, messages and times; abstract interpretation of the SET-OF header emitter",
    "explanation": "Must-pass-through, guard-polarity and interprocedural provenance rules over SignedMessage::validate_at, "
                   "IdCert::validate_ee_at and the embedded CRL's validation: no success path avoids the sid and digest "
                   "guards, signature verification of (signed attributes | EE certificate | CRL) under (EE key | peer key | "
                   "peer key), validity, AKI agreement when present, the not-a-CA guard and the revocation lookup; the "
                   "signature input covers all signed attributes in DER for every size (abstract interpretation).",
    "not_decided": ["validates for every time within validity and no other key (quantified over runtime values)",
                    "acceptance of every conforming message of an independent encoder", "the cryptography"],
    "trusted_base": ["aws-lc-rs verify_sig/digest", "bcder decode combinators propagate closure errors"],
}

SM = "ca::sigmsg::SignedMessage::"
CRL = "ca::sigmsg::SignedMessageCrl::"
TBSCRL = "ca::sigmsg::SignedMessageTbsCrl::"
IDC = "ca::idcert::IdCert::"


def mp_guard(f, name, gfn):
    return MustPass(f, lambda c: False, guard_fn=gfn, name=name)


def run(ctx):
    f = ctx.facts()
    K.check_revocation_lookup(ctx, f, "ca::sigmsg")
    ctx.rule("R-CHK", "every success path passes a checked call to the sink (interprocedural)")
    ctx.rule("R-GRD", "success requires the guard literal (graph cut on its true edges)")
    ctx.rule("R-WHO", "call sites are exactly the confirmed ones")
    ctx.rule("R-FLOW", "operand provenance (backward slice, composed along call chains) is the required source")
    ctx.rule("R-REG", "outcome regions by interval abstract interpretation equal the spec table")
    ctx.rule("R-SIB", "sibling agreement: re-decode mode vs capture mode")

    e = SM + "validate_at"
    b = f.body(e)
    if b is None:
        ctx.missing("R-CHK", "SignedMessage::validate_at", e)
        return
    ctx.saw_fn(e)

    # ---- C10.a skeleton ---------------------------------------------------
    def call_with(res, want):
        def p(c):
            if c.res != res:
                return False
            a = K.arg_renders(c)
            return all(a[i] == w for i, w in enumerate(want) if w is not None)
        return p
    sid_guard = eq_matcher(r"^self\.sid$", r"^TbsIdCert::subject_key_identifier\(self\.ee_cert\)$")
    dig_guard = eq_matcher(r"^Context::finish\(\w+⟵DigestAlgorithm::start\(self\.digest_algorithm\)\)$", r"^self\.message_digest$")
    sinks = [
        ("R-CHK", "verify_sig", MustPass(f, K.sink_verify_sig, name="verify_sig")),
        ("R-CHK", "IdCert::validate_ee_at(self.ee_cert, issuer_key, when)",
         MustPass(f, call_with(IDC + "validate_ee_at", ["self.ee_cert", "issuer_key", "when"]), name="validate_ee_at")),
        ("R-CHK", "SignedMessageCrl::validate(self.crl, issuer_key, when)",
         MustPass(f, call_with(CRL + "validate", ["self.crl", "issuer_key", "when"]), name="crl.validate")),
        ("R-CHK", "verify_not_revoked(self.crl, self.ee_cert)",
         MustPass(f, call_with(CRL + "verify_not_revoked", ["self.crl", "self.ee_cert"]), name="verify_not_revoked")),
        ("R-GRD", "sid == ee_cert.subject_key_identifier()",
         mp_guard(f, "sid guard", lambda bd, s, bb: guard_edges(bd, s, bb, sid_guard))),
        ("R-GRD", "digest(content) == message_digest",
         mp_guard(f, "digest guard", lambda bd, s, bb: guard_edges(bd, s, bb, dig_guard))),
    ]
    for ent in (SM + "validate_at", SM + "validate"):
        bb_ = f.body(ent)
        if bb_ is None:
            ctx.missing("R-CHK", short(ent), ent)
            continue
        for rule, sname, mp in sinks:
            ok = mp.holds(ent)
            ctx.ob(rule, "%s→%s" % (short(ent), sname), ok, "%s succeeds only through %s" % (short(ent), sname),
                   where=bb_.loc, detail=None if ok else K.why(f, mp, ent))

    # which key verifies which bytes (all chains from validate_at to verify_sig)
    chains = K.chains_to(f, e, K.sink_verify_sig)
    got = set()
    for ch in chains:
        got.add((render(K.compose(ch, 1)), render(K.compose(ch, 2)), render(K.compose(ch, 3))))
    want = {
        ("PublicKey::bits(TbsIdCert::subject_public_key_info(self.ee_cert))", "msg⟵SignedAttrs::encode_verify(self.signed_attrs)"
         if False else "SignedAttrs::encode_verify(self.signed_attrs)", "Signature::value(self.signature)"),
        ("PublicKey::bits(issuer_key)", "self.ee_cert.signed_data.data", "Signature::value(self.ee_cert.signed_data.signature)"),
        ("PublicKey::bits(issuer_key)", "self.crl.signed_data.data", "Signature::value(self.crl.signed_data.signature)"),
    }
    ctx.floor("R-FLOW", "verify_sig chains from SignedMessage::validate_at", len(chains), 6)
    for w in sorted(want):
        ctx.ob("R-FLOW", "validate_at:verify_sig[%s]" % w[1], w in got,
               "signature over %s is verified under %s" % (w[1], w[0]), where=b.loc, detail=sorted(got) if w not in got else None)
    extra = got - want
    ctx.ob("R-FLOW", "validate_at:no-other-signature-inputs", not extra,
           "no verify_sig call in SignedMessage::validate_at uses another (key, message, signature) combination",
           where=b.loc, detail=sorted(extra) or None)
    K.check_public_key_verify_format_guard(ctx, f)
    K.check_key_identifier_is_sha1_of_bits(ctx, f)

    # digest input
    vb = f.body(SM + "verify")
    if vb is None:
        ctx.missing("R-FLOW", "SignedMessage::verify", SM + "verify")
    else:
        K.check_digest_input(ctx, f, vb, "SignedMessage::verify:digest-input")

    # ---- C10.b IdCert::validate_ee_at ----------------------------------------
    ee = IDC + "validate_ee_at"
    eb = f.body(ee)
    if eb is None:
        ctx.missing("R-CHK", "IdCert::validate_ee_at", ee)
    else:
        ctx.saw_fn(ee)
        ski = eq_matcher(r"^self\.subject_key_id$", r"^PublicKey::key_identifier\(self\.subject_public_key_info\)$")
        aki = eq_matcher(r"^self\.authority_key_id↓Some\.0$", r"^PublicKey::key_identifier\(issuer_key\)$")
        ca_true = eq_matcher(r"^self\.basic_ca$", r"^option::Option::Some\{0: 1\}$")

        def other_edge(bd, bb, edges):
            """The edge of the bool switch at bb on which the matched literal is FALSE."""
            if not edges:
                return None
            e = K.switch_bool_edges(bd, bb)
            if e is None:
                return None
            return [(bb, e[0] if edges[0][1] == e[1] else e[1])]
        items = [
            ("R-GRD", "ski==hash(key)", mp_guard(f, "SKI guard", lambda bd, s, bb: guard_edges(bd, s, bb, ski))),
            ("R-CHK", "Validity::verify_at(self.validity, now)",
             MustPass(f, call_with("repository::x509::Validity::verify_at", ["self.validity", "now"]), name="verify_at")),
            ("R-GRD", "aki absent or == key_identifier(issuer_key)",
             mp_guard(f, "AKI guard", any_of(lambda bd, s, bb: guard_edges(bd, s, bb, aki),
                                             lambda bd, s, bb: variant_edge(bd, s, bb, r"^self\.authority_key_id$", 0)))),
            ("R-GRD", "basic_ca absent or false",
             mp_guard(f, "not a CA", any_of(lambda bd, s, bb: variant_edge(bd, s, bb, r"^self\.basic_ca$", 0),
                                            lambda bd, s, bb: bool_place_edge(bd, s, bb, r"^self\.basic_ca↓Some\.0$", False),
                                            lambda bd, s, bb: bool_place_edge(bd, s, bb, r"^Option::unwrap_or(_default)?\(self\.basic_ca(, 0)?\)$", False),
                                            lambda bd, s, bb: other_edge(bd, bb, guard_edges(bd, s, bb, ca_true))))),
            ("R-CHK", "verify_sig", MustPass(f, K.sink_verify_sig, name="verify_sig")),
        ]
        for ent in (ee, IDC + "validate_ee"):
            bb_ = f.body(ent)
            if bb_ is None:
                ctx.missing("R-CHK", short(ent), ent)
                continue
            for rule, sname, mp in items:
                ok = mp.holds(ent)
                ctx.ob(rule, "%s:%s" % (short(ent), sname), ok, "%s succeeds only if %s" % (short(ent), sname),
                       where=bb_.loc, detail=None if ok else K.why(f, mp, ent))
    K.check_validity_window(ctx, f)

    # ---- C10.c CRL ---------------------------------------------------------------
    cv = CRL + "validate"
    cb = f.body(cv)
    if cb is None:
        ctx.missing("R-CHK", "SignedMessageCrl::validate", cv)
    else:
        ctx.saw_fn(cv)
        alg = eq_matcher(r"^self\.tbs\.signature$", r"^Signature::algorithm\(SignedData::signature\(self\.signed_data\)\)$")
        aki = eq_matcher(r"^PublicKey::key_identifier\(issuer_key\)$", r"^self(\.tbs)?\.authority_key_id↓Some\.0$")
        items = [
            ("R-GRD", "tbs.signature == outer signature algorithm",
             mp_guard(f, "alg guard", lambda bd, s, bb: guard_edges(bd, s, bb, alg))),
            ("R-CHK", "verify_sig", MustPass(f, K.sink_verify_sig, name="verify_sig")),
            ("R-GRD", "this_update <= when",
             mp_guard(f, "thisUpdate", lambda bd, s, bb: K.order_literal_edges(bd, s, bb, r"^self(\.tbs)?\.this_update$", r"^when$"))),
            ("R-GRD", "when <= next_update",
             mp_guard(f, "nextUpdate", lambda bd, s, bb: K.order_literal_edges(bd, s, bb, r"^when$", r"^self(\.tbs)?\.next_update$"))),
            ("R-GRD", "aki absent or == key_identifier(issuer_key)",
             mp_guard(f, "CRL AKI guard", any_of(lambda bd, s, bb: guard_edges(bd, s, bb, aki),
                                                 lambda bd, s, bb: variant_edge(bd, s, bb, r"^self(\.tbs)?\.authority_key_id$", 0)))),
        ]
        for rule, sname, mp in items:
            ok = mp.holds(cv)
            ctx.ob(rule, "SignedMessageCrl::validate:%s" % sname, ok, "CRL validation succeeds only if %s" % sname,
                   where=cb.loc, detail=None if ok else K.why(f, mp, cv))
    nr = CRL + "verify_not_revoked"
    nb = f.body(nr)
    if nb is None:
        ctx.missing("R-GRD", "verify_not_revoked", nr)
    else:
        ctx.saw_fn(nr)
        g = pred_matcher(r"RevokedCertificates::contains$", (r"^self\.tbs\.revoked_certs$", r"^TbsIdCert::serial_number\(id_cert\)$"),
                         positive=False)
        mp = mp_guard(f, "not listed", lambda bd, s, bb: guard_edges(bd, s, bb, g))
        ok = mp.holds(nr)
        ctx.ob("R-GRD", "verify_not_revoked:serial-not-listed", ok,
               "verify_not_revoked succeeds only if the CRL does not contain the EE certificate's serial", where=nb.loc,
               detail=None if ok else K.why(f, mp, nr))
    rc = "ca::sigmsg::RevokedCertificates::contains"
    rb = f.body(rc)
    if rb is None:
        ctx.missing("R-GRD", "RevokedCertificates::contains", rc)
    else:
        # true is returned only on the true edge of entry.user_certificate == serial (in the decode closure)
        inner = [bd for n, bd in f.bodies.items() if n.startswith(rc + "::{closure")]
        g = eq_matcher(r"user_certificate$", r"^\^?serial$")
        oks = []
        for bd in inner:
            found = any(guard_edges(bd, outcome(bd).sym, bi, g) for bi, blk in enumerate(bd.blocks)
                        if blk["term"]["t"] == "switch")
            if not found:
                continue
            # Ok(true) only behind the eq-true edge
            oc = outcome(bd)
            edges = set()
            for bi, blk in enumerate(bd.blocks):
                if blk["term"]["t"] == "switch":
                    e2 = guard_edges(bd, oc.sym, bi, g)
                    if e2:
                        edges.update(e2)
            true_blocks = []
            for bi, blk in enumerate(bd.blocks):
                for si, st in enumerate(blk["stmts"]):
                    if st["s"] == "assign" and st["rv"]["r"] == "agg" and st["rv"].get("variant") == "Ok":
                        t = strip_deep(oc.sym.rvalue(st["rv"]))
                        if render(t).endswith("{0: 1}"):
                            true_blocks.append(bi)
            reach = bd.reachable(0, removed_edges=edges)
            oks.append(bool(true_blocks) and not [x for x in true_blocks if x in reach])
        ctx.ob("R-GRD", "RevokedCertificates::contains:true-iff-serial-equal", bool(oks) and all(oks),
               "contains() reports true only for an entry whose serial equals the argument", where=rb.loc)

    # ---- C10.d signed attributes -------------------------------------------------
    K.check_encode_verify(ctx, f)
    K.check_signed_attrs_decoder(ctx, f)
    inner = [bd for n, bd in f.bodies.items() if n.startswith(SM + "take_signed_data::{closure")]
    ctx.floor("R-GRD", "SignedMessage::take_signed_data closures", len(inner), 3)
    g1 = eq_matcher(r"DigestAlgorithm::take_from\(cons\)", r"\^digest_algorithm")
    g2 = eq_matcher(r"SignedAttrs::take_from_signed_message\(cons\).*\.2$", r"\^content_type")
    g3 = eq_matcher(r"^Try::branch\(Constructed::take_sequence\(cons, .*\)\)↓Continue\.0\.0$|content_type", r"PROTOCOL_CONTENT_TYPE")
    for name, g, what in (("digest-alg-agrees", g1, "SignerInfo digest algorithm == SignedData digest algorithm"),
                          ("content-type-agrees", g2, "content type in signed attributes == eContentType"),
                          ("protocol-content-type", g3, "eContentType == id-ct-xml (protocol content type)")):
        found = False
        for bd in inner:
            ok, detail = K.guard_false_edge_fails(bd, g)
            if detail is None or "not found" not in str(detail):
                found = True
                ctx.ob("R-GRD", "SignedMessage::take_signed_data:" + name, ok, "decoder fails unless " + what,
                       where=bd.loc, detail=detail)
        if not found:
            ctx.ob("R-GRD", "SignedMessage::take_signed_data:" + name, False, "guard not found: " + what)

    # ---- C10.e capture mode vs re-decode mode -------------------------------------
    K.check_redecode_modes(ctx, f, only=("ca::sigmsg::",))
