"""C10 — CA protocol CMS accepted iff signed under the peer key, current, not revoked
(structural necessary conditions; DESIGN §2 C10.a–e)."""
import re
from engine.rules import (MustPass, guard_edges, eq_matcher, pred_matcher, outcome, aggregates_of, calls_to,
                          call_checked, variant_edge_fails, switch_bool_edges, variant_edge, bool_place_edge, any_of)
from engine.sym import Sym, strip, strip_deep, render, walk, short, roots, is_transparent_call, _Info
from engine.rules import success_values, bool_atom
from engine.callgraph import CallGraph
from props import common as K

META = {
    "level": "other",
    "technique": "static analysis of type-checked MIR (rustc_private driver): MIR must-pass-through graph cuts, guard polarity and interprocedural provenance of keys, messages and times; abstract interpretation of the SET-OF header emitter",
    "explanation": "Must-pass-through, guard-polarity and interprocedural provenance rules over SignedMessage::validate_at, "
                   "IdCert::validate_ee_at and the embedded CRL's validation: no success path avoids the sid and digest "
                   "guards, signature verification of (signed attributes | EE certificate | CRL) under (EE key | peer key | "
                   "peer key), validity, AKI agreement when present, the not-a-CA guard and the revocation lookup; the "
                   "signature input covers all signed attributes in DER for every size (abstract interpretation); a created message gives the embedded CRL exactly the validity window of the EE certificate.",
    "not_decided": ["validates for every time within validity and no other key (quantified over runtime values)",
                    "acceptance of every conforming message of an independent encoder", "the cryptography"],
    "trusted_base": ["aws-lc-rs verify_sig/digest", "bcder decode combinators propagate closure errors"],
}

SM = "ca::sigmsg::SignedMessage::"
CRL = "ca::sigmsg::SignedMessageCrl::"
TBSCRL = "ca::sigmsg::SignedMessageTbsCrl::"
IDC = "ca::idcert::IdCert::"



# ---------------------------------------------------------------------------
# Vocabulary layer.
#
# A rule is about a VALUE ("the digest algorithm announced in the SignedData", "the key's bits"), not about the way the
# source spells it.  `Vocab.forms(body, term)` gives the canonical spellings of a provenance term:
#   * lifted: captures of a closure are replaced by the values captured where the closure is created, parameters of a
#     private function with a single call site (never used as a value) by the arguments given there — recursively, so a
#     block of code reads the same inline, inside nested closures or moved into a private helper;
#   * success payloads have one spelling: `x?`, `x.unwrap()`, `x.expect(..)`, `match x { Ok(v) => v, .. }`,
#     `x.map_err(f)?`, `x.ok_or(e)?` all read `ok(x)`; projections of literal aggregates (tuple or struct) are the
#     component; named integer constants are their value; names of mutated locals are dropped;
#   * expanded (second form): a call of a crate function whose body is a straight-line projection of its parameters
#     (accessor, `bits()`) is the projected value, `ok(helper(args))` of a crate function with a single success value is
#     that value, and `ok(cons.take_sequence(closure))` (bcder's combinators return what the closure returns) is the
#     closure's success value.
# Matchers accept a value when ANY of its forms matches.

_OKI = _Info({"fn": "ok", "res": "ok", "name": "ok!", "trait": None, "krate": None})
_PAYLOAD_KEEPING = {"map_err", "ok_or", "ok_or_else", "inspect", "inspect_err", "ok", "or_else"}
_UNWRAPS = {"unwrap", "expect", "unwrap_unchecked"}
_BCDER_RETURNS_CLOSURE = {"take_sequence", "take_set", "take_constructed", "take_constructed_if", "take_value",
                          "take_value_if", "take_primitive", "take_primitive_if", "decode", "decode_partial"}
_MODULES = ("ca::sigmsg::", "ca::idcert::", "crypto::keys::", "crypto::digest::", "crypto::signature::",
            "repository::sigobj::", "repository::x509::")


def _is_std_optres(info):
    return re.match(r"^(std|core)::(option::Option|result::Result)::<", (info or {}).get("fn") or "") is not None


def tmap(t, fn):
    """Rebuild a term bottom-up, applying fn to every rebuilt node."""
    k = t[0]
    if k == "field":
        t = ("field", tmap(t[1], fn), t[2], t[3] if len(t) > 3 else None)
    elif k == "variant":
        t = ("variant", tmap(t[1], fn), t[2])
    elif k == "mvar":
        t = ("mvar", t[1], t[2], tmap(t[3], fn))
    elif k == "index":
        t = ("index", tmap(t[1], fn), tmap(t[2], fn))
    elif k == "subslice":
        t = ("subslice", tmap(t[1], fn)) + tuple(t[2:])
    elif k == "call":
        t = ("call", t[1], tuple(tmap(a, fn) for a in t[2]), t[3])
    elif k == "bin":
        t = ("bin", t[1], tmap(t[2], fn), tmap(t[3], fn))
    elif k == "un":
        t = ("un", t[1], tmap(t[2], fn))
    elif k == "cast":
        t = ("cast", tmap(t[1], fn), t[2])
    elif k in ("discr", "len"):
        t = (k, tmap(t[1], fn))
    elif k == "agg":
        t = ("agg", t[1], t[2], tuple((f_, tmap(v, fn)) for f_, v in t[3]))
    elif k == "closure":
        t = ("closure", t[1], tuple(tmap(a, fn) for a in t[2]))
    elif k == "repeat":
        t = ("repeat", tmap(t[1], fn), t[2])
    return fn(t)


def _leaf_subst(t, m):
    if not m:
        return t

    def fn(x):
        if x[0] in ("param", "upvar"):
            return m.get((x[0], x[1]), x)
        return x
    return tmap(t, fn)


class Vocab:
    def __init__(self, f):
        self.f = f
        self._env = {}
        self._forms = {}
        self._sites = None
        self._ret = {}

    # -- where closures are created / private functions are called ---------------
    def _scan(self):
        if self._sites is not None:
            return
        created, called, as_value = {}, {}, set()
        for n in list(self.f.bodies.keys()):
            if not n.startswith(_MODULES) and not (n.startswith("<") and any(m in n for m in _MODULES)):
                continue
            b = self.f.body(n)
            if b is None:
                continue
            for _, _, cdef, st in b.closures_created():
                created.setdefault(cdef, []).append((b, st))
            for c in b.calls():
                if b.is_cleanup(c.bb) or not c.is_static:
                    continue
                called.setdefault(c.res, []).append(c)
                for a in c.args:
                    k = a.get("k") if isinstance(a, dict) else None
                    if k and "fn" in k:
                        as_value.add(k.get("res") or k["fn"])
            for blk in b.blocks:
                for st in blk["stmts"]:
                    if st["s"] == "assign" and st["rv"]["r"] in ("use", "cast"):
                        k = st["rv"]["op"].get("k")
                        if k and "fn" in k:
                            as_value.add(k.get("res") or k["fn"])
        self._sites = (created, called, as_value)

    def creation_sites(self, cdef):
        self._scan()
        return self._sites[0].get(cdef, [])

    def env(self, body):
        """{('upvar', n) | ('param', n): lifted term} for the free names of `body`."""
        name = body.name
        if name in self._env:
            return self._env[name]
        self._env[name] = {}              # cycle guard
        self._scan()
        created, called, as_value = self._sites
        m = {}
        if "{closure" in name.rsplit("::", 1)[-1]:
            sites = created.get(name, [])
            if len(sites) == 1:
                pb, st = sites[0]
                ct = K.sym_of(pb).rvalue(st["rv"])
                for uname, idx in self._upvar_idx(body):
                    if idx < len(ct[2]):
                        m[("upvar", uname)] = self.lift(pb, strip_deep(ct[2][idx]))
        else:
            r = self.f.fns.get(name) or {}
            sites = called.get(name, [])
            if len(sites) == 1 and name not in as_value and not r.get("exported") and r.get("vis") != "pub" \
                    and not r.get("impl_trait") and sites[0].body.name != name and len(sites[0].args) == body.arg_count:
                c = sites[0]
                s = K.sym_of(c.body)
                for j, a in enumerate(c.args):
                    pn = body.local_name(j + 1) or "_%d" % (j + 1)
                    m[("param", pn)] = self.lift(c.body, strip_deep(s.operand(a)))
        self._env[name] = m
        return m

    @staticmethod
    def _upvar_idx(cb):
        out = []
        for uname, pl in cb.rec.get("upvars", []):
            for pe in pl.get("p", []):
                if pe and pe[0] == "f":
                    try:
                        out.append((uname, int(pe[1])))
                    except (TypeError, ValueError):
                        pass
                    break
        return out

    def lift(self, body, t):
        return _leaf_subst(t, self.env(body))

    # -- what a crate function returns, over its own parameters ---------------------
    def returned(self, name):
        """('proj', term) for a straight-line function whose result is built from its parameters alone;
        ('ok', term) for a fallible function with a single success value (the payload, or ok(tail call));
        None otherwise."""
        if name in self._ret:
            return self._ret[name]
        self._ret[name] = None
        b = self.f.body(name)
        r = None
        if b is not None and not b.is_coroutine:
            oc = outcome(b)
            straight = not any(blk["term"]["t"] == "switch" for blk in b.blocks if not blk.get("cleanup"))
            vals = success_values(b, oc)
            if len(vals) == 1:
                t = strip_deep(vals[0][2])
                bad = any(x[0] in ("var", "unknown", "yield", "mvar") for x in walk(t))
                if not bad:
                    if oc.kind in ("result", "option"):
                        if t[0] == "agg" and t[2] in ("Ok", "Some") and len(t[3]) == 1:
                            r = ("ok", t[3][0][1])
                        elif t[0] == "call":
                            r = ("ok", ("call", "ok", (t,), _OKI))
                    elif straight:
                        rts = roots(t)
                        if rts and all(x[0] == "param" for x in rts):
                            r = ("proj", t)
        self._ret[name] = r
        return r

    def _bind_params(self, callee, args):
        cb = self.f.body(callee)
        m = {}
        skip = 1 if "{closure" in callee.rsplit("::", 1)[-1] else 0
        for j, a in enumerate(args):
            pn = cb.local_name(j + 1 + skip)
            if pn:
                m[("param", pn)] = a
        return m

    # -- canonical form ----------------------------------------------------------------
    def canon(self, t, expand=False, depth=0):
        consts = getattr(self.f, "consts", {})

        def ok_of(y):
            # success payload of y
            while y[0] == "call" and (y[3] or {}).get("name") in _PAYLOAD_KEEPING and y[2] and _is_std_optres(y[3]):
                y = y[2][0]
            if y[0] == "call" and (y[3] or {}).get("name") == "branch" and ((y[3] or {}).get("trait") or "").endswith("ops::Try") and len(y[2]) == 1:
                return ok_of(y[2][0])
            if y[0] == "agg" and y[2] in ("Ok", "Some") and len(y[3]) == 1:
                return y[3][0][1]
            if expand and depth < 8 and y[0] == "call":
                info = y[3] or {}
                if y[1] in self.f.bodies:
                    r = self.returned(y[1])
                    if r is not None and r[0] == "ok":
                        return self.canon(_leaf_subst(r[1], self._bind_params(y[1], y[2])), expand, depth + 1)
                elif info.get("krate") == "bcder" and info.get("name") in _BCDER_RETURNS_CLOSURE and y[2]:
                    last = y[2][-1]
                    if last[0] == "closure" and last[1] in self.f.bodies:
                        r = self.returned(last[1])
                        cb = self.f.body(last[1])
                        if r is not None and r[0] == "ok" and cb is not None:
                            m = {("upvar", un): last[2][ix] for un, ix in self._upvar_idx(cb) if ix < len(last[2])}
                            return self.canon(_leaf_subst(r[1], m), expand, depth + 1)
                    elif last[0] == "fnref" and last[1] in self.f.bodies:
                        r = self.returned(last[1])
                        if r is not None and r[0] == "ok":
                            return self.canon(r[1], expand, depth + 1)
            return ("call", "ok", (y,), _OKI)

        def fn(x):
            k = x[0]
            if is_transparent_call(x):
                return x[2][0]
            if k == "cdef":
                c = consts.get(x[1])
                if c is not None and isinstance(c.get("v"), int) and not isinstance(c.get("v"), bool):
                    return ("const", c["v"])
                return x
            if k == "mvar":
                return ("mvar", "", x[2], x[3])
            if k == "field":
                base, name = x[1], str(x[2])
                if base[0] == "agg":
                    for f_, v in base[3]:
                        if str(f_) == name:
                            return v
                if base[0] == "variant" and name == "0":
                    inner = base[1]
                    if inner[0] == "agg" and inner[2] == base[2] and len(inner[3]) >= 1:
                        return inner[3][0][1]
                    if base[2] == "Continue" and inner[0] == "call" and (inner[3] or {}).get("name") == "branch":
                        return ok_of(inner)
                    if base[2] in ("Ok", "Some"):
                        return ok_of(inner)
                return x
            if k == "call":
                info = x[3] or {}
                if info.get("name") in _UNWRAPS and x[2] and _is_std_optres(info):
                    return ok_of(x[2][0])
                if info.get("name") == "ok!" and x[2]:
                    return ok_of(x[2][0])
                if expand and depth < 8 and x[1] in self.f.bodies:
                    r = self.returned(x[1])
                    if r is not None and r[0] == "proj":
                        return self.canon(_leaf_subst(r[1], self._bind_params(x[1], x[2])), expand, depth + 1)
            return x
        return tmap(strip_deep(t), fn)

    def forms(self, body, t):
        """Canonical renderings of term t of `body` (as written / lifted, each plain and expanded)."""
        key = (body.name, id(body), t)
        r = self._forms.get(key)
        if r is None:
            lt = self.lift(body, strip_deep(t))
            out = []
            for src in (t, lt):
                for ex in (False, True):
                    try:
                        s = render(self.canon(src, ex))
                    except RecursionError:
                        continue
                    if s not in out:
                        out.append(s)
            r = self._forms[key] = tuple(out)
        return r

    def hit(self, body, t, rx):
        return any(rx.search(x) for x in self.forms(body, t))

    # -- matchers -------------------------------------------------------------------
    def eq(self, body, pa, pb):
        """`A == B` (either order) on the canonical forms."""
        ra, rb = re.compile(pa), re.compile(pb)

        def m(rel, a, b):
            if rel != "eq" or b is None:
                return None
            if (self.hit(body, a, ra) and self.hit(body, b, rb)) or (self.hit(body, b, ra) and self.hit(body, a, rb)):
                return True
            return None
        return m

    def pred(self, body, name_rx, arg_rxs=(), positive=True):
        rn = re.compile(name_rx)
        ras = [re.compile(x) for x in arg_rxs]

        def m(rel, a, b):
            if not (isinstance(rel, tuple) and rel[0] == "pred"):
                return None
            if not (rn.search(rel[1]) or rn.search(short(rel[1]))):
                return None
            for i, r in enumerate(ras):
                if i >= len(a) or not self.hit(body, a[i], r):
                    return None
            return positive
        return m

    def entry_pred(self, body, entries, name_rx, arg_rxs=(), positive=True):
        """Predicate call `name(args…)` whose arguments are given in the vocabulary of an entry function: matches in the
        entry itself, and in a body all of whose free names are lifted to the entry (closure of it, private helper with its
        single call site there) — on the LIFTED spelling only, so a helper's own `self` is never mistaken for the entry's.
        Anywhere else nothing matches."""
        rn = re.compile(name_rx)
        ras = [re.compile(x) for x in arg_rxs]
        usable = body.name in entries or (bool(self.env(body)) and self._roots_in(body, entries))

        def m(rel, a, b):
            if not usable or not (isinstance(rel, tuple) and rel[0] == "pred"):
                return None
            if not (rn.search(rel[1]) or rn.search(short(rel[1]))):
                return None
            for i, r in enumerate(ras):
                if i >= len(a):
                    return None
                lt = self.lift(body, strip_deep(a[i]))
                if not any(r.search(render(self.canon(lt, ex))) for ex in (False, True)):
                    return None
            return positive
        return m

    def _roots_in(self, body, entries, depth=0):
        """Is `body` lifted (through single creation / call sites) up to one of `entries`?"""
        self._scan()
        created, called, _ = self._sites
        if body.name in entries:
            return True
        if depth > 8 or not self.env(body):
            return False
        sites = created.get(body.name) if "{closure" in body.name.rsplit("::", 1)[-1] else called.get(body.name)
        if not sites or len(sites) != 1:
            return False
        parent = sites[0][0] if isinstance(sites[0], tuple) else sites[0].body
        return self._roots_in(parent, entries, depth + 1)

    def args(self, c):
        """Canonical forms of the arguments of a call site."""
        s = K.sym_of(c.body)
        return [self.forms(c.body, strip_deep(s.operand(a))) for a in c.args]


def _any(forms, rx):
    return any(re.search(rx, x) for x in forms)

def mp_guard(f, name, gfn):
    return MustPass(f, lambda c: False, guard_fn=gfn, name=name)


# ---------------------------------------------------------------------------
# Call chains that also run through closures.
#
# Fact decided: "which (key, message, signature) reach verify_sig from the entry".  A step of the entry may be a direct call
# (`self.crl.validate(k, t)?`) or the same call made by a closure handed to a combinator (`.and_then(|()| self.crl.validate(k,
# t))`).  A link is therefore either a call site of a crate function (binding: parameter := argument) or a closure literal
# given as an argument of any call (binding: capture := captured value; the closure's own parameters stay unbound).  Every
# closure argument is followed, whatever the callee does with it — a superset of the real chains, which can only add to
# "no-other-signature-inputs", never hide a triple.  Without closures the result is K.chains_to / K.compose.

def chains_through_closures(f, entry, sink_pred, max_depth=10):
    """[(links, sink)]: links = [(callee body name, {('param'|'upvar', name): term over the caller})]."""
    memo = {}

    def targets(b, c):
        """(body name, binding) of the bodies that call c can enter."""
        s = K.sym_of(b)
        out = []
        if c.res in f.bodies:
            cb = f.body(c.res)
            m = {}
            for j, a in enumerate(c.args):
                m[("param", cb.local_name(j + 1) or "_%d" % (j + 1))] = strip_deep(s.operand(a))
            out.append((c.res, m))
        for a in c.args:
            ct = strip(s.operand(a))
            if ct[0] == "closure" and ct[1] in f.bodies:
                cb = f.body(ct[1])
                out.append((ct[1], {("upvar", un): strip_deep(ct[2][ix]) for un, ix in Vocab._upvar_idx(cb) if ix < len(ct[2])}))
        return out

    def can(fn, depth):
        if fn in memo:
            return memo[fn]
        memo[fn] = False
        b = f.body(fn)
        r = False
        if b is not None and depth <= max_depth:
            for c in b.calls():
                if not c.is_static or b.is_cleanup(c.bb):
                    continue
                if sink_pred(c) or any(can(n, depth + 1) for n, _ in targets(b, c)):
                    r = True
                    break
        memo[fn] = r
        return r

    out = []

    def dfs(fn, links, seen):
        b = f.body(fn)
        if b is None or len(links) > max_depth:
            return
        for c in b.calls():
            if not c.is_static or b.is_cleanup(c.bb):
                continue
            if sink_pred(c):
                out.append((links, c))
                continue
            for n, m in targets(b, c):
                if n not in seen and can(n, 0):
                    dfs(n, links + [(n, m)], seen | {n})
    dfs(entry, [], {entry})
    return out


def compose_through(chain, argidx):
    """Argument `argidx` of the sink of a chain of chains_through_closures, over the parameters of the entry."""
    links, sink = chain
    t = strip_deep(K.sym_of(sink.body).operand(sink.args[argidx]))
    for _, m in reversed(links):
        t = strip_deep(_leaf_subst(t, m))
    return t


def run(ctx):
    f = ctx.facts()
    V = Vocab(f)
    K.check_revocation_lookup(ctx, f, "ca::sigmsg")
    ctx.rule("R-CHK", "every success path passes a checked call to the sink (interprocedural)")
    ctx.rule("R-GRD", "success requires the guard literal (graph cut on its true edges)")
    ctx.rule("R-WHO", "call sites are exactly the confirmed ones")
    ctx.rule("R-FLOW", "operand provenance (backward slice, composed along call chains) is the required source")
    ctx.rule("R-REG", "outcome regions by interval abstract interpretation equal the spec table")
    ctx.rule("R-SIB", "sibling agreement: re-decode mode vs capture mode")

    e = SM + "validate_at"
    b = f.body(e)
    if b is None:
        ctx.missing("R-CHK", "SignedMessage::validate_at", e)
        return
    ctx.saw_fn(e)

    # ---- C10.a skeleton ---------------------------------------------------
    def call_with(res, want):
        def p(c):
            if c.res != res:
                return False
            a = K.arg_renders(c)
            return all(a[i] == w for i, w in enumerate(want) if w is not None)
        return p
    sid_guard = eq_matcher(r"^self\.sid$", r"^TbsIdCert::subject_key_identifier\(self\.ee_cert\)$")
    dig_guard = eq_matcher(r"^Context::finish\(\w+⟵DigestAlgorithm::start\(self\.digest_algorithm\)\)$", r"^self\.message_digest$")
    sinks = [
        ("R-CHK", "verify_sig", MustPass(f, K.sink_verify_sig, name="verify_sig")),
        ("R-CHK", "IdCert::validate_ee_at(self.ee_cert, issuer_key, when)",
         MustPass(f, call_with(IDC + "validate_ee_at", ["self.ee_cert", "issuer_key", "when"]), name="validate_ee_at")),
        ("R-CHK", "SignedMessageCrl::validate(self.crl, issuer_key, when)",
         MustPass(f, call_with(CRL + "validate", ["self.crl", "issuer_key", "when"]), name="crl.validate")),
        # Fact: no success without the revocation lookup of *this message's* EE certificate in *this message's* CRL.  Either
        # the reviewed call (whose body is decided below, verify_not_revoked:serial-not-listed), or — whatever the helper
        # takes (the certificate, its serial, …) — a success-only-if-not-listed guard anywhere below the entry whose
        # operands, read in the entry's vocabulary (V lifts parameters of single-call-site private helpers and closure
        # captures), are self.crl's list and self.ee_cert's serial.
        ("R-CHK", "verify_not_revoked(self.crl, self.ee_cert)",
         MustPass(f, call_with(CRL + "verify_not_revoked", ["self.crl", "self.ee_cert"]), name="verify_not_revoked",
                  guard_fn=lambda bd, s, bb: guard_edges(bd, s, bb, V.entry_pred(
                      bd, (SM + "validate_at",), r"RevokedCertificates::contains$",
                      (r"^self\.crl\.tbs\.revoked_certs$", r"^TbsIdCert::serial_number\(self\.ee_cert\)$"), positive=False)))),
        ("R-GRD", "sid == ee_cert.subject_key_identifier()",
         mp_guard(f, "sid guard", lambda bd, s, bb: guard_edges(bd, s, bb, sid_guard))),
        ("R-GRD", "digest(content) == message_digest",
         mp_guard(f, "digest guard", lambda bd, s, bb: guard_edges(bd, s, bb, dig_guard))),
    ]
    for ent in (SM + "validate_at", SM + "validate"):
        bb_ = f.body(ent)
        if bb_ is None:
            ctx.missing("R-CHK", short(ent), ent)
            continue
        for rule, sname, mp in sinks:
            ok = mp.holds(ent)
            ctx.ob(rule, "%s→%s" % (short(ent), sname), ok, "%s succeeds only through %s" % (short(ent), sname),
                   where=bb_.loc, detail=None if ok else K.why(f, mp, ent))

    # which key verifies which bytes (all chains from validate_at to verify_sig)
    # (the steps of validate_at may be direct calls or closures of an `and_then` chain: chains_through_closures)
    chains = chains_through_closures(f, e, K.sink_verify_sig)
    got = set()
    for ch in chains:
        got.add((render(compose_through(ch, 1)), render(compose_through(ch, 2)), render(compose_through(ch, 3))))
    want = {
        ("PublicKey::bits(TbsIdCert::subject_public_key_info(self.ee_cert))", "msg⟵SignedAttrs::encode_verify(self.signed_attrs)"
         if False else "SignedAttrs::encode_verify(self.signed_attrs)", "Signature::value(self.signature)"),
        ("PublicKey::bits(issuer_key)", "self.ee_cert.signed_data.data", "Signature::value(self.ee_cert.signed_data.signature)"),
        ("PublicKey::bits(issuer_key)", "self.crl.signed_data.data", "Signature::value(self.crl.signed_data.signature)"),
    }
    ctx.floor("R-FLOW", "verify_sig chains from SignedMessage::validate_at", len(chains), 6)
    for w in sorted(want):
        ctx.ob("R-FLOW", "validate_at:verify_sig[%s]" % w[1], w in got,
               "signature over %s is verified under %s" % (w[1], w[0]), where=b.loc, detail=sorted(got) if w not in got else None)
    extra = got - want
    ctx.ob("R-FLOW", "validate_at:no-other-signature-inputs", not extra,
           "no verify_sig call in SignedMessage::validate_at uses another (key, message, signature) combination",
           where=b.loc, detail=sorted(extra) or None)
    K.check_public_key_verify_format_guard(ctx, f)
    K.check_key_identifier_is_sha1_of_bits(ctx, f)

    # digest input
    vb = f.body(SM + "verify")
    if vb is None:
        ctx.missing("R-FLOW", "SignedMessage::verify", SM + "verify")
    else:
        K.check_digest_input(ctx, f, vb, "SignedMessage::verify:digest-input")

    # ---- C10.b IdCert::validate_ee_at ----------------------------------------
    ee = IDC + "validate_ee_at"
    eb = f.body(ee)
    if eb is None:
        ctx.missing("R-CHK", "IdCert::validate_ee_at", ee)
    else:
        ctx.saw_fn(ee)
        ski = eq_matcher(r"^self\.subject_key_id$", r"^PublicKey::key_identifier\(self\.subject_public_key_info\)$")
        aki = eq_matcher(r"^self\.authority_key_id↓Some\.0$", r"^PublicKey::key_identifier\(issuer_key\)$")
        ca_true = eq_matcher(r"^self\.basic_ca$", r"^option::Option::Some\{0: 1\}$")

        def other_edge(bd, bb, edges):
            """The edge of the bool switch at bb on which the matched literal is FALSE."""
            if not edges:
                return None
            e = K.switch_bool_edges(bd, bb)
            if e is None:
                return None
            return [(bb, e[0] if edges[0][1] == e[1] else e[1])]
        items = [
            ("R-GRD", "ski==hash(key)", mp_guard(f, "SKI guard", lambda bd, s, bb: guard_edges(bd, s, bb, ski))),
            ("R-CHK", "Validity::verify_at(self.validity, now)",
             MustPass(f, call_with("repository::x509::Validity::verify_at", ["self.validity", "now"]), name="verify_at")),
            ("R-GRD", "aki absent or == key_identifier(issuer_key)",
             mp_guard(f, "AKI guard", any_of(lambda bd, s, bb: guard_edges(bd, s, bb, aki),
                                             lambda bd, s, bb: variant_edge(bd, s, bb, r"^self\.authority_key_id$", 0)))),
            ("R-GRD", "basic_ca absent or false",
             mp_guard(f, "not a CA", any_of(lambda bd, s, bb: variant_edge(bd, s, bb, r"^self\.basic_ca$", 0),
                                            lambda bd, s, bb: bool_place_edge(bd, s, bb, r"^self\.basic_ca↓Some\.0$", False),
                                            lambda bd, s, bb: bool_place_edge(bd, s, bb, r"^Option::unwrap_or(_default)?\(self\.basic_ca(, 0)?\)$", False),
                                            lambda bd, s, bb: other_edge(bd, bb, guard_edges(bd, s, bb, ca_true))))),
            ("R-CHK", "verify_sig", MustPass(f, K.sink_verify_sig, name="verify_sig")),
        ]
        for ent in (ee, IDC + "validate_ee"):
            bb_ = f.body(ent)
            if bb_ is None:
                ctx.missing("R-CHK", short(ent), ent)
                continue
            for rule, sname, mp in items:
                ok = mp.holds(ent)
                ctx.ob(rule, "%s:%s" % (short(ent), sname), ok, "%s succeeds only if %s" % (short(ent), sname),
                       where=bb_.loc, detail=None if ok else K.why(f, mp, ent))
    K.check_validity_window(ctx, f)

    # ---- C10.c CRL ---------------------------------------------------------------
    cv = CRL + "validate"
    cb = f.body(cv)
    if cb is None:
        ctx.missing("R-CHK", "SignedMessageCrl::validate", cv)
    else:
        ctx.saw_fn(cv)
        alg = eq_matcher(r"^self\.tbs\.signature$", r"^Signature::algorithm\(SignedData::signature\(self\.signed_data\)\)$")
        aki = eq_matcher(r"^PublicKey::key_identifier\(issuer_key\)$", r"^self(\.tbs)?\.authority_key_id↓Some\.0$")
        items = [
            ("R-GRD", "tbs.signature == outer signature algorithm",
             mp_guard(f, "alg guard", lambda bd, s, bb: guard_edges(bd, s, bb, alg))),
            ("R-CHK", "verify_sig", MustPass(f, K.sink_verify_sig, name="verify_sig")),
            ("R-GRD", "this_update <= when",
             mp_guard(f, "thisUpdate", lambda bd, s, bb: K.order_literal_edges(bd, s, bb, r"^self(\.tbs)?\.this_update$", r"^when$"))),
            ("R-GRD", "when <= next_update",
             mp_guard(f, "nextUpdate", lambda bd, s, bb: K.order_literal_edges(bd, s, bb, r"^when$", r"^self(\.tbs)?\.next_update$"))),
            ("R-GRD", "aki absent or == key_identifier(issuer_key)",
             mp_guard(f, "CRL AKI guard", any_of(lambda bd, s, bb: guard_edges(bd, s, bb, aki),
                                                 lambda bd, s, bb: variant_edge(bd, s, bb, r"^self(\.tbs)?\.authority_key_id$", 0)))),
        ]
        for rule, sname, mp in items:
            ok = mp.holds(cv)
            ctx.ob(rule, "SignedMessageCrl::validate:%s" % sname, ok, "CRL validation succeeds only if %s" % sname,
                   where=cb.loc, detail=None if ok else K.why(f, mp, cv))
    nr = CRL + "verify_not_revoked"
    nb = f.body(nr)
    if nb is None:
        ctx.missing("R-GRD", "verify_not_revoked", nr)
    else:
        ctx.saw_fn(nr)
        # Fact: success only if the list of this CRL does not contain the serial of the EE certificate.  The serial may be
        # computed here from the certificate parameter or handed in by the (single) caller: V.pred reads the operands as
        # written and lifted to the caller (`self` = self.crl, the serial = serial_number(self.ee_cert)).
        def not_listed(bd, s, bb):
            return guard_edges(bd, s, bb, V.pred(
                bd, r"RevokedCertificates::contains$",
                (r"^self\.tbs\.revoked_certs$|^self\.crl\.tbs\.revoked_certs$",
                 r"^TbsIdCert::serial_number\(id_cert\)$|^TbsIdCert::serial_number\(self\.ee_cert\)$"), positive=False))
        mp = mp_guard(f, "not listed", not_listed)
        ok = mp.holds(nr)
        ctx.ob("R-GRD", "verify_not_revoked:serial-not-listed", ok,
               "verify_not_revoked succeeds only if the CRL does not contain the EE certificate's serial", where=nb.loc,
               detail=None if ok else K.why(f, mp, nr))
    rc = "ca::sigmsg::RevokedCertificates::contains"
    rb = f.body(rc)
    if rb is None:
        ctx.missing("R-GRD", "RevokedCertificates::contains", rc)
    else:
        # Fact: the answer is true only for an entry whose serial equals the argument.  Decided per VALUE of the answered
        # bool, over all its reaching definitions (a `found` flag is multiply defined): each definition is
        #   * the constant false,
        #   * the constant true assigned where `entry.user_certificate == serial` is known to hold (the block is cut off
        #     from the entry by the literal's true edges), or
        #   * the value of that equality itself (`found = serial == entry.user_certificate`; `!=`, a negation or any
        #     other computation is refused),
        # and at least one definition of the last two kinds exists.  `return Ok(true)` inside the loop, a flag set under
        # the test and a flag assigned the test are the same fact.
        inner = [bd for n, bd in f.bodies.items() if n.startswith(rc + "::{closure")]
        g = eq_matcher(r"user_certificate$", r"^\^?serial$")
        oks = []
        for bd in inner:
            oc = outcome(bd)
            edges = set()
            for bi, blk in enumerate(bd.blocks):
                if blk["term"]["t"] == "switch":
                    e2 = guard_edges(bd, oc.sym, bi, g)
                    if e2:
                        edges.update(e2)
            reach = bd.reachable(0, removed_edges=edges)

            def kinds(t, bi, seen=()):
                """Kinds of the definitions of bool term t used / assigned in block bi: 'false' | 'guarded-true' | 'literal' |
                'bad'."""
                t = strip_deep(t)
                r = render(t)
                if t[0] == "const" or r in ("0", "1"):
                    if r == "0":
                        return ["false"]
                    return ["guarded-true" if (r == "1" and bi not in reach) else "bad"]
                if t[0] == "var":
                    if t[2] in seen:
                        return []
                    out = []
                    for dbb, dt in oc.sym.defs_of_var(t[2]):
                        out += kinds(dt, dbb, seen + (t[2],))
                    return out or ["bad"]
                at = bool_atom(t)
                if at is not None:
                    rel, x, y, pos = at
                    if g(rel, x, y) is True and pos:
                        return ["literal"]
                return ["bad"]
            ks = []
            for bi, blk in enumerate(bd.blocks):
                for si, st in enumerate(blk["stmts"]):
                    if st["s"] == "assign" and st["rv"]["r"] == "agg" and st["rv"].get("variant") == "Ok":
                        t = strip_deep(oc.sym.rvalue(st["rv"]))
                        if t[0] == "agg" and len(t[3]) == 1:
                            ks += kinds(t[3][0][1], bi)
                        else:
                            ks.append("bad")
            if not edges and "literal" not in ks:
                continue          # this closure does not look at serials at all
            oks.append("bad" not in ks and ("guarded-true" in ks or "literal" in ks))
        ctx.ob("R-GRD", "RevokedCertificates::contains:true-iff-serial-equal", bool(oks) and all(oks),
               "contains() reports true only for an entry whose serial equals the argument", where=rb.loc)

    # ---- C10.d signed attributes -------------------------------------------------
    K.check_encode_verify(ctx, f)
    K.check_signed_attrs_decoder(ctx, f)
    # the decoder's nested closures — also those of private helpers of the module it hands the work to
    # (`take_signer_infos(cons, digest_algorithm, &content_type)`): found by reachability, not by name
    roots, todo = [], [SM + "take_signed_data"]
    while todo:
        r_ = todo.pop()
        if r_ in roots or len(roots) > 12:
            continue
        roots.append(r_)
        for n_ in [r_] + [n for n in f.bodies if n.startswith(r_ + "::{closure")]:
            bd_ = f.body(n_)
            for c_ in (bd_.calls() if bd_ is not None else ()):
                if c_.is_static and (c_.res or "").startswith("ca::sigmsg::") and c_.res in f.bodies and \
                        (f.fns.get(c_.res) or {}).get("vis") not in ("pub", "public") and "::{closure" not in c_.res:
                    todo.append(c_.res)
    inner = [bd for n, bd in f.bodies.items() if any(n.startswith(r_ + "::{closure") for r_ in roots)]
    ctx.floor("R-GRD", "SignedMessage::take_signed_data closures", len(inner), 3)
    # compared with a value captured from the enclosing decoder (whatever the capture is called; the operand
    # types — DigestAlgorithm, Oid — leave nothing else to capture)
    g1 = eq_matcher(r"DigestAlgorithm::take_from\(cons\)", r"^\^\w+$")
    g2 = eq_matcher(r"SignedAttrs::take_from_signed_message\(cons\).*\.2$", r"^\^\w+$")
    g3 = eq_matcher(r"^Try::branch\(Constructed::take_sequence\(cons, .*\)\)↓Continue\.0\.0$|content_type", r"PROTOCOL_CONTENT_TYPE")
    for name, g, what in (("digest-alg-agrees", g1, "SignerInfo digest algorithm == SignedData digest algorithm"),
                          ("content-type-agrees", g2, "content type in signed attributes == eContentType"),
                          ("protocol-content-type", g3, "eContentType == id-ct-xml (protocol content type)")):
        found = False
        for bd in inner:
            ok, detail = K.guard_false_edge_fails(bd, g)
            if detail is None or "not found" not in str(detail):
                found = True
                ctx.ob("R-GRD", "SignedMessage::take_signed_data:" + name, ok, "decoder fails unless " + what,
                       where=bd.loc, detail=detail)
        if not found:
            ctx.ob("R-GRD", "SignedMessage::take_signed_data:" + name, False, "guard not found: " + what)

    # ---- C10.e capture mode vs re-decode mode -------------------------------------
    K.check_redecode_modes(ctx, f, only=("ca::sigmsg::",))
    check_created_message_windows(ctx, f)


def check_created_message_windows(ctx, f):
    """"Messages created by the library validate for every time within their validity": validate_at needs the evaluation
    time inside the EE certificate's validity *and* inside [thisUpdate, nextUpdate] of the embedded CRL, so a created
    message must give the CRL exactly the window of the certificate.  Decided as provenance: the function that creates the
    message hands one and the same validity to the CRL constructor and to the EE certificate constructor; the CRL
    constructor stores its not_before / not_after as this_update / next_update; the certificate body stores it as is."""
    from engine.rules import aggregates_of
    mk = f.body("ca::sigmsg::SignedMessage::create")
    if mk is None:
        return ctx.missing("R-FLOW", "SignedMessage::create", "ca::sigmsg::SignedMessage::create")
    ctx.saw_fn(mk.name)
    vparam = None
    for i in range(1, mk.arg_count + 1):
        if mk.local_ty(i).endswith("x509::Validity"):
            vparam = render(strip_deep(K.sym_of(mk).local(i)))
    crl = [c for c in mk.calls() if c.res and c.res.startswith("ca::sigmsg::") and "Crl" in c.res and not mk.is_cleanup(c.bb)
           and any(t.endswith("x509::Validity") for t in (f.fns.get(c.res) or {}).get("inputs", []))]
    ee = [c for c in mk.calls() if c.res and c.res.startswith("ca::idcert::") and not mk.is_cleanup(c.bb)
          and any(t.endswith("x509::Validity") for t in (f.fns.get(c.res) or {}).get("inputs", []))]

    def validity_arg(c):
        ins = (f.fns.get(c.res) or {}).get("inputs", [])
        a = K.arg_renders(c)
        return [a[i] for i, t in enumerate(ins) if t.endswith("x509::Validity") and i < len(a)]
    got = {short(c.res): validity_arg(c) for c in crl + ee}
    ok = vparam is not None and len(crl) == 1 and len(ee) == 1 and all(v == [vparam] for v in got.values())
    ctx.ob("R-FLOW", "SignedMessage::create:one-window", ok,
           "SignedMessage::create gives the embedded CRL and the EE certificate the same validity (the caller's)",
           where=mk.loc, detail=got)
    # the CRL constructor: this_update / next_update are the two ends of that validity
    for c in crl:
        b = f.body(c.res)
        if b is None:
            continue
        ctx.saw_fn(b.name)
        vp = [render(strip_deep(K.sym_of(b).local(i))) for i in range(1, b.arg_count + 1) if b.local_ty(i).endswith("x509::Validity")]
        lits = [(bd, bi, si, st) for bd, bi, si, st in aggregates_of(f, "ca::sigmsg::SignedMessageTbsCrl") if bd.name == b.name]
        okc = len(vp) == 1 and len(lits) == 1
        det = None
        if okc:
            flds = dict((str(k), render(strip_deep(v))) for k, v in K.sym_of(b).rvalue(lits[0][3]["rv"])[3])
            det = {k: flds.get(k) for k in ("this_update", "next_update")}
            okc = det == {"this_update": "Validity::not_before(%s)" % vp[0], "next_update": "Validity::not_after(%s)" % vp[0]}
        ctx.ob("R-FLOW", "%s:window-is-the-validity" % short(c.res), okc,
               "%s issues the CRL for exactly [validity.not_before, validity.not_after]" % short(c.res), where=b.loc, detail=det)
    # the certificate body keeps the validity it is given
    nb = 0
    for bd, bi, si, st in aggregates_of(f, "ca::idcert::TbsIdCert"):
        if K.is_derived_body(bd) or "{closure" in bd.name:
            continue
        flds = dict((str(k), strip_deep(v)) for k, v in K.sym_of(bd).rvalue(st["rv"])[3])
        v = flds.get("validity")
        params = [strip_deep(K.sym_of(bd).local(i)) for i in range(1, bd.arg_count + 1) if bd.local_ty(i).endswith("x509::Validity")]
        nb += 1
        ctx.ob("R-FLOW", "%s:keeps-validity" % short(bd.name), len(params) == 1 and v == params[0],
               "%s stores the validity it is given" % short(bd.name), where=bd.where(bi, si), detail=render(v) if v else None)
    # ... and new_ee passes its own on
    for c in ee:
        b = f.body(c.res)
        if b is None:
            continue
        vp = [render(strip_deep(K.sym_of(b).local(i))) for i in range(1, b.arg_count + 1) if b.local_ty(i).endswith("x509::Validity")]
        inner = [x for x in b.calls() if x.res and x.res.startswith("ca::idcert::TbsIdCert::") and not b.is_cleanup(x.bb)
                 and any(t.endswith("x509::Validity") for t in (f.fns.get(x.res) or {}).get("inputs", []))]
        okp = len(vp) == 1 and len(inner) >= 1
        det = {}
        for x in inner:
            ins = (f.fns.get(x.res) or {}).get("inputs", [])
            a = K.arg_renders(x)
            det[short(x.res)] = [a[i] for i, t in enumerate(ins) if t.endswith("x509::Validity") and i < len(a)]
            okp = okp and det[short(x.res)] == [vp[0]]
        ctx.ob("R-FLOW", "%s:passes-validity-on" % short(c.res), okp,
               "%s builds the certificate body with the validity it is given" % short(c.res), where=b.loc, detail=det)
    ctx.floor("R-FLOW", "TbsIdCert builders", nb, 1)
