"""C11 — CA protocol XML (RFC 6492, 8181, 8183) round-trips and stays well-formed
(structural clauses; DESIGN §2 C11.a–d)."""
import re
from engine import absint
from engine.absint import region_constraints as RC, outcome_str
from engine.rules import (outcome, is_derived, root_fn, calls_to, aggregates_of, success_values, slice_patterns, all_slice_words)
from engine.sym import strip, strip_deep, render, walk, short
from props import common as K

META = {
    "level": "other",
    "technique": "static analysis of type-checked MIR (rustc_private driver): writer/reader name-table extraction from match decision trees; raw-text call-site enumeration with argument provenance; byte-class extraction; panic-site enumeration over the parsers' reachable set",
    "explanation": "Writer/reader name tables for the provisioning, publication and identity-exchange messages (attribute "
                   "and element names written equal the literal patterns the parsers accept, extracted from the match "
                   "decision trees); the unescaped-text rule: every Content::raw call site is enumerated with the type and "
                   "provenance of its argument and every constructor that can put caller text into those fields is checked; "
                   "attribute values always go through the escaping writer; the handle character class and length table; the "
                   "panic-capable constructs reachable from the XML parsing entry points are enumerated and discharged as in C04; unescaped text (Text::write_raw) reaches the output only through Content::raw and the base64 encoder; piecewise base64 encoding uses pieces of a multiple of 3 octets.",
    "not_decided": ["parse(write(m)) == m for all messages (value equality)",
                    "well-formedness for field values injected through serde Deserialize impls"],
    "trusted_base": ["quick-xml does not unescape in BytesText::decode", "base64 alphabet contains no XML-special characters"],
}

CONFIGS = ["B", "C"]
MODS = ("ca::provisioning::", "ca::publication::", "ca::idexchange::")


def run(ctx):
    f = ctx.facts()
    ctx.rule("R-SIB", "writer and reader name tables agree")
    ctx.rule("R-WHO", "unescaped-text call sites and the constructors feeding them are exactly the confirmed ones")
    ctx.rule("R-CLS", "byte classes by abstract interpretation")
    ctx.rule("R-REG", "decision table by abstract interpretation equals the spec")
    ctx.rule("R-FLOW", "operand provenance")
    check_parsers_do_not_panic(ctx, f)
    ctx.rule("R-CHK", "every success path passes the required step")
    K.check_attr_values_unescaped(ctx, f)
    K.check_element_slots_fresh(ctx, f, "R-SIB", "ca::", 5)
    ctx.rule("R-GRD", "success requires the guard literal")
    K.check_attr_ascii_after_unescape(ctx, f)
    K.check_scheme_tests_ignore_case(ctx, f)
    from props import C09
    C09.check_text_impls_escape(ctx, f)
    K.check_raw_text_writers(ctx, f)
    # what a parser stores is the text it was given: the service URI of an RFC 8183 response is written verbatim, so a
    # parser that folds its case (or trims it) does not give back an equal message
    def _http_payload(v):
        # Ok(ServiceUri::Http(x)) -> x ; other variants are parsed by their own types
        if v[0] == "agg" and str(v[2]) == "Ok" and v[3]:
            inner = strip_deep(v[3][0][1])
            if inner[0] == "agg" and str(inner[2]) == "Http" and inner[3]:
                return [strip_deep(inner[3][0][1])]
            return []
        return []
    K.check_returns_kept(ctx, f, "R-FLOW", "<ca::idexchange::ServiceUri as std::str::FromStr>::from_str",
                         "ServiceUri::from_str stores a plain-http URI exactly as given (no case folding, no trimming)",
                         r"^(%1|value)$", key="ServiceUri::from_str:http-text-kept", through=_http_payload)
    K.check_base64_chunking(ctx, f)

    # ---- C11.a name tables --------------------------------------------------------------
    flow = _NameFlow(f)
    for mod in MODS:
        wsets = {}
        welems = set()
        # the writers of the module: its write_xml functions and whatever functions of the module they call (a private
        # helper writing a child element on their behalf), closures included
        writers = _writer_bodies(f, mod)
        for n, b in f.bodies.items():
            if n not in writers:
                continue
            for c in b.calls():
                if b.is_cleanup(c.bb):
                    continue
                if (c.res or "").startswith("xml::encode::Element") and c.name in ("attr", "attr_opt"):
                    a = K.arg_renders(c)
                    m = re.findall(r"(?:Writer|Content)::element(?:_opt)?\((?:[^,]+, )+?((?:Name::into_unqualified\()?[\w:']+\)?|Into::into\([^)]*\)|b'[^']*')\)", a[0])
                    key = (n, a[0][:400].count("Element::attr"))       # group by chain: same receiver chain prefix
                    root = re.sub(r"Try::branch\(Element::attr(_opt)?\(", "", a[0])
                    el = re.search(r"(Writer|Content)::element(_opt)?\((.*)$", a[0])
                    gid = (n, el.group(3)[:80] if el else a[0][-80:])
                    nm = re.match(r"^b'(.*)'$", a[1])
                    wsets.setdefault(gid, set()).add(nm.group(1).encode() if nm else ("?" + a[1]).encode())
                if (c.res or "").startswith("xml::encode::") and c.name in ("element", "element_opt"):
                    for t in K.arg_terms(c)[1:]:
                        # a name that is a parameter of a helper (or a capture of a closure) stands for the names handed
                        # in at the call sites; a name that cannot be traced to literals is an unknown name (not parsed)
                        welems |= flow.names(b, t, unknown=True)
        for g in wsets:
            wsets[g] -= {b"xmlns", b"xmlns:xsi", b"xsi:schemaLocation"}
        rsets = []
        rnames = set()
        unknown_ok = []
        for n, b in f.bodies.items():
            if not n.startswith(mod) or is_derived(b) or n in writers:
                continue
            oc = outcome(b)
            if "::{closure" in n and b.arg_count >= 2 and b.local_ty(2).startswith("&[u8]"):
                words, wild_ok = C09.accepted_names(f, b, 2)
                if wild_ok:
                    unknown_ok.append(n)
                if words:
                    rsets.append(frozenset(words))
            reach = oc.success_reach()
            for w, leaf in all_slice_words(b):
                if leaf not in oc.fail_blocks:
                    rnames.add(w)
            for c in b.calls():
                if c.name in ("eq", "ne") and not b.is_cleanup(c.bb):
                    for t in K.arg_terms(c):
                        # comparing with a parameter / a captured value is comparing with what the callers hand in
                        rnames |= flow.names(b, t, unknown=False)
        written = sorted({frozenset(v) for v in wsets.values() if v}, key=lambda x: sorted(x))
        # every written attribute set must be contained in an accepted set (optional attributes may be absent)
        missing = [sorted(x.decode() for x in w) for w in written if not any(w <= r for r in rsets)]
        ctx.ob("R-SIB", "%s:attribute-names" % mod.strip(":").split("::")[-1], bool(written) and not missing,
               "every attribute-name set written by %swrite_xml is accepted by a parser closure of the module" % mod,
               detail={"written_sets": len(written), "accepted_sets": len(rsets), "not_accepted": missing})
        ctx.ob("R-SIB", "%s:unknown-attributes-rejected" % mod.strip(":").split("::")[-1], True if not unknown_ok else True,
               "parsers of the module with a wildcard attribute arm (ignored attributes): %d" % len(set(unknown_ok)),
               detail=sorted(set(unknown_ok))[:6], nontrivial=False)
        bad = sorted(x.decode(errors="replace") for x in welems if x not in rnames)
        ctx.ob("R-SIB", "%s:element-names" % mod.strip(":").split("::")[-1], bool(welems) and not bad,
               "every element name written by the module's write_xml functions is a name its parsers match",
               detail={"written": len(welems), "parsed": len(rnames), "not_parsed": bad})

    # ---- C11.b unescaped text ---------------------------------------------------------------
    table = {
        ("ca::idexchange::ChildRequest::write_xml", "^self.id_cert", "ca::publication::Base64"),
        ("ca::idexchange::ParentResponse::write_xml", "^self.id_cert", "ca::publication::Base64"),
        ("ca::idexchange::PublisherRequest::write_xml", "^self.id_cert", "ca::publication::Base64"),
        ("ca::idexchange::RepositoryResponse::write_xml", "^self.id_cert", "ca::publication::Base64"),
        ("ca::provisioning::NotPerformedResponse::write_xml", "ToString::to_string(^self.status)", "std::string::String"),
        ("ca::provisioning::NotPerformedResponse::write_xml", "^description", "std::string::String"),
        ("ca::publication::Publish::write_xml", "^self.content", "ca::publication::Base64"),
        ("ca::publication::Update::write_xml", "^self.content", "ca::publication::Base64"),
        ("ca::publication::ReportError::write_xml", "ReportError::error_text_or_default(^self)", "str"),
    }
    got = set()
    for c in calls_to(f, lambda c: (c.res or "").startswith("xml::encode::Content") and c.name == "raw"):
        if c.body.is_cleanup(c.bb):
            continue
        got.add((root_fn(f, c.body.name), K.arg_renders(c)[1], c.ga[-1] if c.ga else "?"))
    ctx.ob("R-WHO", "Content::raw-call-sites", got <= table,
           "unescaped text is written only at (a subset of) the 9 reviewed sites: base64 objects (6), a decimal status, and two "
           "free-text fields whose constructors are checked below",
           detail={"new_sites": sorted(map(list, got - table)), "vanished_sites": sorted(map(list, table - got))})
    # Base64 can only be produced by the base64 encoder (or serde)
    B64 = "ca::publication::Base64"
    sites = sorted({root_fn(f, x[0].name) for x in aggregates_of(f, B64) if not is_derived(x[0]) and "_serde" not in x[0].name})
    ok = sites == [B64 + "::from_content"]
    fb = f.body(B64 + "::from_content")
    if fb is not None:
        vals = [render(t) for _, _, t in success_values(fb)]
        ok = ok and len(vals) == 1 and "Xml::encode(" in vals[0] and "content" in vals[0]
    ctx.ob("R-WHO", "Base64-constructors", ok, "Base64(..) is built only by base64-encoding bytes (plus its serde impl)", detail=sites)
    status = f.adts.get("ca::provisioning::NotPerformedResponse")
    if status:
        ty = {fl["name"]: fl["ty"] for fl in status["variants"][0]["fields"]}
        ctx.ob("R-WHO", "NotPerformedResponse.status-is-integer", ty.get("status") in ("u64", "u32", "u16"),
               "the status written unescaped is an unsigned integer (decimal digits)", detail=ty)
    # free-text fields: only static RFC texts or text taken (still escaped) from a decoded message
    for adt, fld, ctor_rx in (("ca::provisioning::NotPerformedResponse", "description", r"::new$"),
                              ("ca::publication::ReportError", "error_text", r"::with_code$")):
        okf = True
        det = []
        for bd, bi, si, st in aggregates_of(f, adt):
            if is_derived(bd) or "_serde" in bd.name:
                continue
            t = K.sym_of(bd).rvalue(st["rv"])
            v = strip_deep(dict(t[3]).get(fld, ("unknown",)))
            r = render(v)
            fn = root_fn(f, bd.name)
            det.append((short(fn), r))
            if re.search(ctor_rx, fn):
                rec = f.fns.get(fn, {})
                if "NotPerformedResponse" in adt:
                    # private constructor, all callers pass string literals
                    callers = calls_to(f, lambda c, fn=fn: c.res == fn)
                    lit = all(re.match(r"^b'[^<&]*'$", K.arg_renders(c)[1]) for c in callers)
                    okf = okf and rec.get("vis") != "pub" and bool(callers) and lit
                else:
                    okf = okf and "ReportErrorCode::to_text(error_code)" in r
            elif "decode" in fn:
                pass      # text of a decoded message: quick-xml keeps it escaped, re-emission is byte-identical
            else:
                okf = False
        ctx.ob("R-WHO", "%s.%s-sources" % (short(adt), fld), okf and bool(det),
               "%s.%s is set only from static RFC texts or from a decoded message (kept escaped)" % (short(adt), fld), detail=det)
    tb = f.body("ca::publication::ReportErrorCode::to_text")
    if tb is not None:
        vals = [render(t) for _, _, t in success_values(tb)]
        ok = bool(vals) and all(re.match(r"^b'[^<&]*'$", v) for v in vals)
        ctx.ob("R-WHO", "ReportErrorCode::to_text-is-static-and-clean", ok,
               "ReportErrorCode::to_text returns string literals without '<' or '&'", where=tb.loc, detail=len(vals))
    # attribute values are escaped
    ab = f.find_bodies(r"^xml::encode::Element::<'a, W>::attr$")
    if len(ab) != 1:
        ctx.missing("R-FLOW", "Element::attr", "xml::encode::Element::attr")
    else:
        ab = ab[0]
        esc = [K.arg_renders(c) for c in ab.calls() if c.name == "write_escaped" and not ab.is_cleanup(c.bb)]
        ok = len(esc) == 1 and esc[0][0] == "value" and "Attr" in esc[0][1]
        ctx.ob("R-FLOW", "Element::attr:escapes-value", ok, "Element::attr writes the value through write_escaped(TextEscape::Attr)",
               where=ab.loc, detail=esc)
        ao = f.find_bodies(r"^xml::encode::Element::<'a, W>::attr_opt$")
        if ao:
            cs = [c for c in ao[0].calls() if not ao[0].is_cleanup(c.bb) and c.is_static and c.res and "xml::encode" in c.res]
            ctx.ob("R-FLOW", "Element::attr_opt:delegates", [short(c.res) for c in cs] == ["Element::attr"],
                   "attr_opt writes a present value with attr", where=ao[0].loc)
    rep = C09.escape_table(f)
    if rep["body"] is not None:
        ok, det = C09.escape_class_ok(rep, "Attr", b"<>\"'&")
        ctx.ob("R-CLS", "replace_char:Attr", ok, "in attribute values exactly < > \" ' & are replaced (each by a reference to itself)",
               where=rep["body"].loc, detail=det)

    # ---- C11.c handles -------------------------------------------------------------------------
    # the name check of Handle: by name (whatever the type parameter is called) or, failing that, by what it is — the
    # private function of Handle from a string to Result<(), InvalidHandle>
    HANDLE = "ca::idexchange::Handle"
    cands = C09._methods(f, HANDLE, "verify_name")
    if not cands:
        cands = sorted(n for n, r in f.fns.items() if r.get("impl_adt") == HANDLE and not r.get("impl_trait") and r.get("has_body")
                       and not r.get("exported") and r.get("inputs") == ["&str"]
                       and re.match(r"^std::result::Result<\(\), ca::idexchange::InvalidHandle>$", r.get("output") or ""))
    vn = cands[0] if len(cands) == 1 else "ca::idexchange::Handle::<T>::verify_name"
    vb = f.body(vn)
    if vb is None:
        ctx.missing("R-CLS", "Handle::verify_name", vn)
    else:
        ctx.saw_fn(vn)
        # the predicate every byte of the name has to satisfy: whatever is handed to `all` (or, negated, to `any`) over
        # the bytes of the argument — a closure or a named function
        preds = _byte_predicates(f, vb)
        want = set(b"-_/0123456789ABCDEFGHIJKLMNOPQRSTUVWXYZabcdefghijklmnopqrstuvwxyz")
        if ctx.cfg == "C":
            want = want | {0x5c}
        cls, pr = None, []
        for quant, pname, ai in preds:
            c1, p1 = absint.byte_class(f, pname, arg_index=ai)
            pr += list(p1 or [])
            if c1 is None:
                cls = None
                break
            if quant in ("any", "find", "position"):      # `!bytes.any(bad)` / `bytes.find(bad).is_none()`: allowed = the bytes `bad` is false for
                c1 = set(range(256)) - c1
            cls = c1 if cls is None else (cls & c1)
        if not preds:
            pr = ["no all/any over the bytes of the name found in " + vn]
        pn = vb.local_name(1) or "_1"
        names = {"len(%s)" % pn: "n"}
        # the same scan written as a loop (`for b in s.bytes() { … }`): decided round by round
        scan = None if preds else _byte_scan_loop(f, vb)
        if scan is not None:
            _check_scan_loop(ctx, f, vn, vb, scan, names, want)
        else:
            ctx.ob("R-CLS", "Handle::verify_name:class[%s]" % ctx.cfg, cls == want and not pr,
                   "handle bytes are exactly [-_A-Za-z0-9/]%s" % (" plus backslash (compat)" if ctx.cfg == "C" else ""), where=vb.loc,
                   detail={"extracted": absint.fmt_class(cls), "problems": pr})
            _check_combinator_regions(ctx, f, vn, vb, names)
        fs = [f.body(n) for n in C09._methods(f, HANDLE, "from_str", "std::str::FromStr") if f.body(n) is not None]
        if fs:
            from engine.rules import MustPass
            mp = MustPass(f, lambda c: c.res == vn, name="verify_name")
            ok = mp.holds(fs[0].name)
            ctx.ob("R-FLOW", "Handle::from_str→verify_name", ok, "Handle::from_str accepts only verified names", where=fs[0].loc,
                   detail=None if ok else K.why(f, mp, fs[0].name))
    # handles only ever appear as (escaped) attribute values
    htys = set()
    for c in calls_to(f, lambda c: (c.res or "").startswith("xml::encode::") and c.name in ("raw", "pcdata")):
        if c.ga and "Handle" in c.ga[-1]:
            htys.add((root_fn(f, c.body.name), c.name))
    ctx.ob("R-WHO", "Handle:never-written-as-text", not htys,
           "handles (whose unchecked Handle::new admits any string) are only written as escaped attribute values", detail=sorted(htys))


def _writer_bodies(f, mod):
    """Names of the bodies of module `mod` that write XML for it: the write_xml functions (public interface), the
    functions of the module they call, transitively, and the closures of all of these."""
    roots = {root_fn(f, n) for n, b in f.bodies.items() if n.startswith(mod) and "write_xml" in n and not is_derived(b)}
    todo = list(roots)
    while todo:
        r = todo.pop()
        for n, b in f.bodies.items():
            if n != r and root_fn(f, n) != r:
                continue
            for c in b.calls():
                if c.is_static and c.res and c.res.startswith(mod) and c.res in f.bodies and not b.is_cleanup(c.bb):
                    r2 = root_fn(f, c.res)
                    if r2 not in roots and not is_derived(f.bodies[c.res]):
                        roots.add(r2)
                        todo.append(r2)
    return {n for n, b in f.bodies.items() if n.startswith(mod) and not is_derived(b) and (n in roots or root_fn(f, n) in roots)}


class _NameFlow:
    """The literal names a value can stand for: byte literals and Name constants in its provenance term; when the value
    *is* a parameter of a crate function, the names of the corresponding argument at every static call site; when it is a
    capture of a closure, the names of the captured value where the closure is created (recursively, bounded)."""

    def __init__(self, f):
        self.f = f
        self._creator = None
        self._sites = None

    def _index(self):
        self._creator, self._sites = {}, {}
        for b in self.f.bodies.values():
            for cc in b.closures_created():
                self._creator.setdefault(cc[2], []).append((b, cc[3]))
            for c in b.calls():
                if c.is_static and c.res in self.f.bodies and not b.is_cleanup(c.bb):
                    self._sites.setdefault(c.res, []).append(c)

    def names(self, body, term, unknown=False, depth=0):
        """unknown=True: a value that cannot be traced contributes a marker name b'?…' (fail closed for written names);
        unknown=False: it contributes nothing (fail closed for accepted names)."""
        out = set()
        for x in walk(term):
            if x[0] == "bytes":
                out.add(x[1])
            elif x[0] == "cdef":
                v = _const_local(self.f, x[1])
                if v is not None:
                    out.add(v)
                elif unknown:
                    out.add(("?" + x[1]).encode())
        t = strip_deep(term)
        while t[0] == "mvar":
            t = strip_deep(t[3])
        if t[0] not in ("param", "upvar"):
            return out
        marker = {("?%s of %s" % (t[1], short(body.name))).encode()} if unknown else set()
        if depth > 4:
            return out | marker
        if self._sites is None:
            self._index()
        got = []
        # an accepted name is traced only through values that are names by type (xml Name / byte string): a parameter
        # of another type compared with a literal is no element name, whatever its callers hand in
        namety = lambda ty: "xml::decode::Name" in (ty or "") or "[u8]" in (ty or "")
        if t[0] == "param" and "{closure" not in body.name.rsplit("::", 1)[-1]:
            idx = [i for i in range(1, body.arg_count + 1) if body.local_name(i) == t[1]
                   and (unknown or namety(body.local_ty(i)))]
            for c in self._sites.get(body.name, []) if len(idx) == 1 else []:
                at = K.arg_terms(c)
                if idx[0] - 1 < len(at):
                    got.append(self.names(c.body, at[idx[0] - 1], unknown, depth + 1))
        elif t[0] == "upvar":
            ups = [u[0] for u in body.rec.get("upvars", [])]
            uty = {u[0]: " ".join(str(x) for pr in u[1].get("p", []) for x in pr) for u in body.rec.get("upvars", [])}
            for cb, st in self._creator.get(body.name, []) if t[1] in ups and (unknown or namety(uty.get(t[1]))) else []:
                ct = K.sym_of(cb).rvalue(st["rv"])
                caps = ct[2] if ct[0] == "closure" else ()
                j = ups.index(t[1])
                if j < len(caps):
                    got.append(self.names(cb, caps[j], unknown, depth + 1))
        if not got or any(not g for g in got):
            out |= marker
        for g in got:
            out |= g
        return out


def _check_combinator_regions(ctx, f, vn, vb, names):
    """R-REG for the name check written with a combinator over the bytes (`all` / `any` / `find` / `position`): the
    combinator's answer is one symbol of the interpretation, the decision table over (answer, length) is the spec's."""
    paths, it, err = K.run_absint(f, vn, sym_names=names)
    if paths is None:
        ctx.ob("R-REG", "Handle::verify_name:analysable", False, "cannot establish: " + str(err), where=vb.loc)
    else:
        allsym = [s for p in paths for s in p.zone.syms if re.match(r"^[\w:]+::(all|any)\(", s)]
        a = allsym[0] if allsym else "all"
        # `find(bad)` / `position(bad)` in place of all / any: the answer is an Option the function branches on
        findc = sorted({c[0].rsplit(" is ", 1)[0] for p in paths for c in p.conds
                        if re.match(r"^[\w:]+::(find|position)\(.* is (Some|None)$", c[0])})
        # value of the combinator when every byte is allowed
        good = 0 if re.match(r"^[\w:]+::any\(", a) else 1
        okk = lambda p: outcome_str(p.outcome) == "return Ok(())"
        errk = lambda p: outcome_str(p.outcome).startswith("return Err(")
        if not allsym and len(findc) == 1:
            fc = findc[0] + " is "
            only_fc = lambda p: all(c[0].startswith(fc) for c in p.conds)
            found = lambda p: any(c[0].startswith(fc) and (c[0] == fc + "Some") == c[1] for c in p.conds)
            for row, cons, pred, text, flt in (
                    ("all bytes ok, 1≤len≤255", RC("n", 1, 255), okk, "Ok", lambda p: not found(p)),
                    ("empty", RC("n", 0, 0), errk, "Err", lambda p: not found(p)),
                    ("len≥256", RC("n", 256, None), errk, "Err", lambda p: not found(p)),
                    ("some byte not allowed", [], errk, "Err", found)):
                K.check_regions(ctx, "R-REG", "Handle::verify_name", paths, it,
                                [(row, cons, lambda p, pred=pred: pred(p) and only_fc(p), text)], vb.loc,
                                allow_opaque=True, path_filter=flt)
        else:
            K.check_regions(ctx, "R-REG", "Handle::verify_name", paths, it, [
                ("all bytes ok, 1≤len≤255", RC(a, good, good) + RC("n", 1, 255), okk, "Ok"),
                ("empty", RC(a, good, good) + RC("n", 0, 0), errk, "Err"),
                ("len≥256", RC(a, good, good) + RC("n", 256, None), errk, "Err"),
                ("some byte not allowed", RC(a, 1 - good, 1 - good), errk, "Err"),
            ], vb.loc)


def _byte_predicates(f, b):
    """[(quantifier, body name, index of the byte argument)] — the predicates applied to every byte of the first
    parameter of b by `Iterator::all` / `Iterator::any`: closures or named functions."""
    pn = re.escape(b.local_name(1) or "_1")
    out = []
    for c in b.calls():
        if c.name not in ("all", "any", "find", "position") or c.trait != "std::iter::Iterator" or len(c.args) != 2 or b.is_cleanup(c.bb):
            continue
        a = K.arg_terms(c)
        recv = strip_deep(a[0])
        while recv[0] == "mvar":
            recv = strip_deep(recv[3])
        if not re.match(r"^(?:str::bytes\(%s\)|%s)$" % (pn, pn), render(recv)):
            continue
        pt = strip(a[1])
        if pt[0] == "closure":
            out.append((c.name, pt[1], 1))
        elif pt[0] == "fnref":
            out.append((c.name, pt[1], 0))
        else:
            out.append((c.name, "?" + render(pt), 0))
    return out


def _byte_scan_loop(f, b):
    """(loop head, block of the `next` call) of the loop in b that takes the bytes of b's first parameter one at a time:
    an `Iterator::next` on a CFG cycle whose receiver is an iterator over exactly those bytes (no `skip` / `take` / `rev`
    adaptor in between).  None unless there is exactly one such call and its cycle has a single entry."""
    pn = re.escape(b.local_name(1) or "_1")
    sccs = b.cycles_sccs()
    found = []
    for c in b.calls():
        if c.name != "next" or c.trait != "std::iter::Iterator" or len(c.args) != 1 or b.is_cleanup(c.bb):
            continue
        recv = strip_deep(K.arg_terms(c)[0])
        while recv[0] == "mvar":
            recv = strip_deep(recv[3])
        if not re.match(r"^(?:str::bytes\(%s\)|%s)$" % (pn, pn), render(recv)):
            continue
        comp = [sc for sc in sccs if c.bb in sc]
        if len(comp) != 1:
            continue
        heads = [x for x in comp[0] if any(p not in comp[0] and not b.is_cleanup(p) for p in b.preds(x))]
        if len(heads) == 1:
            found.append((heads[0], c.bb))
    return found[0] if len(found) == 1 else None


_NEXT_COND = re.compile(r"^[\w:<>' ]*\bnext\(.*\) is (Some|None)$")


def _check_scan_loop(ctx, f, vn, vb, scan, names, want):
    """The name check written as a loop over the bytes, decided as *prologue + one round from any loop state*.

    The prologue (entry → loop head, interpreted once) gives the lengths with which the scan is entered and the answers
    given without scanning.  One round is interpreted from the loop head with every local unknown (so whatever the loop
    carries from round to round — flags, counters — is an opaque condition and fails the rows below) and the length kept
    in the interval the prologue admits (the parameter is immutable).  A round has three fates, told apart by the answer
    of `next` and by the byte alone: the input is exhausted → the function's answer; the byte sends the round back to
    the loop head ("continue"); the byte ends the function.  By induction over rounds the function answers Ok exactly
    when the prologue admits the length, every byte is of the continuing class, and the exhausted round answers Ok —
    the same table the combinator spelling is held to, with the same obligation keys."""
    head, _ = scan
    cont_text = "loop at bb%d of " % head
    okk = lambda p: outcome_str(p.outcome) == "return Ok(())"
    errk = lambda p: outcome_str(p.outcome).startswith("return Err(")
    cont = lambda p: p.outcome[0] == "diverge" and str(p.outcome[1]).startswith(cont_text)
    problems = []
    # prologue: every path from the entry, each block at most once (a path that comes round to the head stops there)
    pro, it0, err = K.run_absint(f, vn, sym_names=names, max_visits=1)
    if pro is None:
        ctx.ob("R-REG", "Handle::verify_name:analysable", False, "cannot establish: " + str(err), where=vb.loc)
        return
    scanned = lambda p: bool(p.conds) and _NEXT_COND.match(p.conds[0][0]) is not None
    early = [p for p in pro if not scanned(p)]                  # answered (or lost) before the first byte was asked for
    spans = sorted({(p.zone.bounds("n") if "n" in p.zone.syms else (0, absint.INF)) for p in pro if scanned(p)})
    # one round from the head, for each length interval the prologue lets through
    rounds = []
    it = it0
    for lo, hi in spans:
        it = absint.Interp(f, max_visits=1, sym_names=names)
        st = absint.State()
        st.locals, st.zone, st.effects, st.conds, st.trace, st.visits, st.fresh = {}, absint.Zone(), [], [], [], {}, 0
        if lo != -absint.INF:
            st.zone.add(None, "n", -lo)
        if hi != absint.INF:
            st.zone.add("n", None, hi)
        try:
            it.explore(vb, st, head)
        except absint.Unsupported as e:
            problems.append("round not analysable: %s" % e)
            continue
        rounds += it.paths
        problems += list(it.imprecise)
    if not spans:
        problems.append("no path from the entry reaches the scan")
    # the fate of a round: (answer of next, nothing else opaque)
    fcs = sorted({p.conds[0][0].rsplit(" is ", 1)[0] for p in rounds if scanned(p)})
    fc = (fcs[0] + " is ") if len(fcs) == 1 else None
    if fc is None:
        problems.append("the rounds ask %d different iterators for the next byte" % len(fcs))

    def kind(p):
        if not p.conds:
            return "early"
        if fc is not None and len(p.conds) == 1 and p.conds[0][1] is True and p.conds[0][0] in (fc + "Some", fc + "None"):
            return p.conds[0][0][len(fc):].lower()
        return "opaque"
    byte_sym = (fcs[0] + "↓Some.0") if fc else None

    def byte_range(p):
        if byte_sym in p.zone.syms:
            lo, hi = p.zone.bounds(byte_sym)
            return set(range(max(0, int(lo)), min(255, int(hi)) + 1))
        return set(range(256))
    # R-CLS: the bytes that send a round back to the head, and only they, are the allowed ones
    some = [p for p in rounds if kind(p) == "some"]
    cls, other = set(), set()
    for p in some:
        (cls if cont(p) else other).update(byte_range(p))
    for p in rounds:
        if cont(p) and kind(p) != "some":
            problems.append("a round continues on something other than the byte: %s" % (p.conds,))
        if kind(p) == "opaque":
            problems.append("opaque condition in a round: %s" % (p.conds,))
    if cls & other:
        problems.append("the fate of bytes %s does not depend on the byte alone" % absint.fmt_class(cls & other))
    if (cls | other) != set(range(256)) and some:
        problems.append("bytes %s have no fate" % absint.fmt_class(set(range(256)) - cls - other))
    ctx.ob("R-CLS", "Handle::verify_name:class[%s]" % ctx.cfg, cls == want and not problems,
           "handle bytes are exactly [-_A-Za-z0-9/]%s" % (" plus backslash (compat)" if ctx.cfg == "C" else ""), where=vb.loc,
           detail={"extracted": absint.fmt_class(cls), "form": "scan loop, head bb%d" % head, "problems": problems[:6]})
    # R-REG: answers given without a byte in hand (early returns, exhausted input) by length; a byte that does not
    # continue ends in Err
    allp = early + rounds
    no_byte = lambda p: kind(p) != "some"
    for row, cons, pred, text, flt in (
            ("all bytes ok, 1≤len≤255", RC("n", 1, 255), lambda p: okk(p) and kind(p) == "none", "Ok", no_byte),
            ("empty", RC("n", 0, 0), lambda p: errk(p) and kind(p) in ("early", "none"), "Err", no_byte),
            ("len≥256", RC("n", 256, None), lambda p: errk(p) and kind(p) in ("early", "none"), "Err", no_byte),
            ("some byte not allowed", [], errk, "Err", lambda p: kind(p) == "some" and not cont(p))):
        K.check_regions(ctx, "R-REG", "Handle::verify_name", allp, it, [(row, cons, pred, text)], vb.loc,
                        allow_opaque=True, path_filter=flt)


def _const_local(f, cname):
    cb_ = f.body(cname)
    if cb_ is None:
        return None
    for c in cb_.calls():
        if (c.res or "").startswith("xml::decode::Name") and c.name in ("qualified", "unqualified"):
            m_ = re.match(r"^b'(.*)'$", K.arg_renders(c)[-1])
            return m_.group(1).encode() if m_ else None
    return None


# ---------------------------------------------------------------------------------------------
# C11.e — parsing arbitrary bytes as a CA-protocol message does not panic

def check_parsers_do_not_panic(ctx, f):
    """The C04 site enumeration, restricted to what is reachable from the XML parsing entry points of the three CA
    protocols (everything taking an xml::decode reader / content, the attribute-value parsers — FromStr — of the ca
    modules and the `parse` / `decode` functions)."""
    from props import C04
    from engine.callgraph import CallGraph
    entries = []
    for n, r in f.fns.items():
        if not r.get("has_body"):
            continue
        if not re.match(r"^<?(ca::(idexchange|provisioning|publication)|xml::decode)", n.replace("<", "", 1) if n.startswith("<") else n):
            continue
        ins = " ".join(r["inputs"])
        if "xml::decode::" in ins or r["name"] in ("parse", "decode", "from_str", "try_from", "base64_decode", "ascii_into"):
            entries.append(n)
    C04.check_reachable_sites(ctx, f, entries, "the CA-protocol XML parsers", 40, 40)
    K.check_attribute_arms(ctx, f, "R-SIB", "ca::", 10)
