"""C07 — RTR PDUs survive the wire; broken streams end in errors
(structural clauses; DESIGN §2 C07.a–f)."""
import re
from engine.rules import (MustPass, guard_edges, eq_matcher, pred_matcher, outcome, aggregates_of, is_derived, root_fn,
                          call_checked, success_values, bool_atom, switch_bool_edges, calls_to)
from engine.sym import strip, strip_deep, render, walk, short
from props import common as K

META = {
    "level": "other",
    "technique": "static analysis of type-checked MIR (rustc_private driver): compiler-computed layout sizes vs header constants; byte-order pairing; read-result discipline and loop-exit rule on coroutine MIR",
    "explanation": "Layout rule: for every fixed-layout PDU struct the header its constructor writes carries the type's PDU "
                   "constant and the compiler-computed size of the struct (variable PDUs: fixed size + payload length); byte "
                   "order pairing of every multi-byte field between constructor and accessors; on the pre-transform MIR of "
                   "the async readers every read_exact result is honoured, a body is read only behind the length guard, "
                   "unknown PDU types / versions fail; every loop around a plain `read` has a zero-length (EOF) exit; "
                   "payload conversion goes through the checked prefix constructors; the payload a variable-length PDU stores is the one whose length went into its header; the variable part is delivered only after a checked read_exact (no read that may complete early).",
    "not_decided": ["value round trip read(write(x)) == x for all payloads", "the number of bytes consumed before an error",
                    "allocation sized by the declared length before any byte arrives (reported as an observation)"],
    "trusted_base": ["tokio read_exact/read/write_all contracts", "rustc layout_of for #[repr(C, packed)] structs"],
}

P = "rtr::pdu::"
INT_FIELD = {"u16", "u32", "u64", "u128"}


def run(ctx):
    f = ctx.facts()
    ctx.rule("R-LAYOUT", "length and type constants stored by a constructor equal layout size / PDU constant")
    ctx.rule("R-SIB", "byte order pairing between constructor and accessors")
    ctx.rule("R-CHK", "every success path passes a checked call / guard (on pre-transform coroutine bodies)")
    ctx.rule("R-GRD", "success requires the guard literal")
    ctx.rule("R-LOOP", "every read loop has an end-of-input exit")
    ctx.rule("R-FLOW", "operand provenance")
    ctx.rule("R-WHO", "call sites are exactly the confirmed ones")

    fixed = {}
    for adt, rec in f.adts.items():
        if not adt.startswith(P) or rec["kind"] != "Struct":
            continue
        flds = rec["variants"][0]["fields"]
        if flds and flds[0]["ty"] == P + "Header":          # a PDU struct starts with the header (whatever the field is called)
            fixed[adt] = rec
    ctx.floor("R-LAYOUT", "fixed-layout PDU structs", len(fixed), 11)
    for adt, rec in sorted(fixed.items()):
        ctx.ob("R-LAYOUT", "%s:packed" % short(adt), "packed" in rec["repr"] or "pack: Some" in rec["repr"],
               "%s is #[repr(packed)] (its bytes are its wire image)" % short(adt), where=rec["loc"], detail=rec["repr"][:120])

    # ---- C07.a length and type fields ------------------------------------------------
    owner_of = {P + "RouterKeyFixed": P + "RouterKey", P + "AspaFixed": P + "Aspa"}
    nhdr = 0
    for adt, rec in sorted(fixed.items()):
        owner = owner_of.get(adt, adt)
        pdu_c = f.consts.get(owner + "::PDU")
        size = rec.get("size")
        sites = [x for x in aggregates_of(f, adt) if not is_derived(x[0]) and root_fn(f, x[0].name).endswith("::new")]
        if not sites:
            ctx.missing("R-LAYOUT", "%s::new" % short(owner), "constructor literal of " + adt)
            continue
        for bd, bi, si, st in sites:
            ctx.saw_fn(bd.name)
            t = K.sym_of(bd).rvalue(st["rv"])
            hdr = strip_deep(dict(t[3]).get(rec["variants"][0]["fields"][0]["name"], ("unknown", "no header")))
            nhdr += 1
            hargs = header_args(f, hdr)
            if hargs is None:
                ctx.ob("R-LAYOUT", "%s:header" % short(owner), False, "header is not built with Header::new", where=bd.where(bi, si),
                       detail=render(hdr))
                continue
            a = [render(x) for x in hargs]
            # the PDU's own type constant, by value (a literal, `Self::PDU`, a module constant)
            pdu_ok = pdu_c is not None and int_value(hargs[1], f) == pdu_c.get("v")
            ctx.ob("R-LAYOUT", "%s:pdu-type" % short(owner), pdu_ok,
                   "%s::new writes its own PDU type %s into the header" % (short(owner), pdu_c.get("v") if pdu_c else "?"),
                   where=bd.where(bi, si), detail=a[1])
            if adt in owner_of:
                # variable length: fixed part + payload length, however the sum is spelt (checked_add / `+`, operand order,
                # size_of / constant): the expression is read as a linear form over `len(<parameter>)` leaves
                pay = "key_info" if "RouterKey" in adt else "providers"
                lf = linear(hargs[3], f)
                lens = [k for k in (lf or {}) if k is not None]
                ok = lf is not None and lf.get(None) == size and len(lens) == 1 and lf[lens[0]] == 1 and \
                    _is_len_of_param(lens[0], bd, bd.arg_count)
                ctx.ob("R-LAYOUT", "%s:length" % short(owner), ok,
                       "%s::new writes size_of::<%s>() + %s.len() as the PDU length" % (short(owner), short(adt), pay),
                       where=bd.where(bi, si), detail=a[3])
            else:
                # the struct's size however it is obtained: size_of::<Self>(), a constant, `Self::size()`, a sum of parts
                lf = linear(hargs[3], f)
                ok = lf is not None and size is not None and lf == {None: size}
                ctx.ob("R-LAYOUT", "%s:length" % short(owner), ok,
                       "%s::new writes the struct's size (%s bytes) as the PDU length" % (short(owner), size),
                       where=bd.where(bi, si), detail=a[3])
        if adt in owner_of:
            # what the header announces is the length of what the PDU then holds (and `write` sends): the payload field of
            # the owning struct is, on every path, the very parameter whose length went into the header
            osites = [x for x in aggregates_of(f, owner) if not is_derived(x[0]) and root_fn(f, x[0].name).endswith("::new")]
            for bd, bi, si, st in osites:
                t = K.sym_of(bd).rvalue(st["rv"])
                pay = [(k, strip_deep(v)) for k, v in t[3] if strip_deep(v) != strip_deep(("unknown",)) and
                       (f.adts.get(owner) or {}) and k != rec["variants"][0]["fields"][0]["name"]]
                ofields = [(fl["name"], fl["ty"]) for fl in (f.adts.get(owner) or {"variants": [{"fields": []}]})["variants"][0]["fields"]]
                payload_fields = [nm for nm, ty in ofields if ty != adt]
                vals = dict((str(k), strip_deep(v)) for k, v in t[3])
                okp = len(payload_fields) == 1 and vals.get(payload_fields[0]) == strip_deep(K.sym_of(bd).local(bd.arg_count))
                ctx.ob("R-FLOW", "%s:payload-stored-is-payload-measured" % short(owner), okp,
                       "%s::new stores the very payload whose length it wrote into the header (on every path)" % short(owner),
                       where=bd.where(bi, si), detail={k: render(v)[:120] for k, v in vals.items() if k in payload_fields})
        sb = f.body(adt + "::size")
        if sb is not None:
            got = _const_fn_value(f, adt + "::size")
            ctx.ob("R-LAYOUT", "%s::size" % short(adt), got is not None and got == size,
                   "%s::size() is size_of::<Self>()" % short(adt), where=sb.loc, detail=None if got == size else got)
    ctx.floor("R-LAYOUT", "PDU constructors with a header", nhdr, 11)
    hb = f.body(P + "Header::new")
    if hb is not None:
        # what it returns is a Header whose fields are, in wire order, parameters 1..4, the multi-byte ones converted to
        # network byte order (whatever the fields, parameters and the conversion are called)
        vals = [strip_deep(t) for _, _, t in success_values(hb)]
        sy = K.sym_of(hb)
        okh = len(vals) == 1 and hb.arg_count == 4 and header_args(f, vals[0], literal_only=True) == tuple(strip_deep(sy.local(i)) for i in range(1, 5))
        ctx.ob("R-LAYOUT", "Header::new", okh,
               "Header::new stores (version, pdu, session BE, length BE)", where=hb.loc, detail=[render(v) for v in vals])
    # Error PDU
    eb = f.body(P + "Error::new")
    if eb is not None:
        ctx.saw_fn(eb.name)
        hs = [c for c in eb.calls() if c.res == P + "Header::new"]
        ok = False
        detail = None
        if len(hs) == 1:
            a = K.arg_renders(hs[0])
            at = K.arg_terms(hs[0])
            detail = a
            hsize = (f.adts.get(P + "Header") or {}).get("size")
            lf = linear(at[3], f)
            lens = sorted((k for k in (lf or {}) if k is not None), key=render)
            ok = int_value(at[1], f) == (f.consts.get(P + "Error::PDU") or {}).get("v", 10) == 10 and \
                strip_deep(at[2]) == strip_deep(K.sym_of(eb).local(2)) and lf is not None and hsize is not None and \
                lf.get(None) == hsize + 2 * 4 and len(lens) == 2 and all(lf[k] == 1 for k in lens) and \
                {True} == {_is_len_of_param(k, eb, 3) or _is_len_of_param(k, eb, 4) for k in lens} and \
                any(_is_len_of_param(k, eb, 3) for k in lens) and any(_is_len_of_param(k, eb, 4) for k in lens)
        ctx.ob("R-LAYOUT", "Error::new:length", ok,
               "Error::new writes header + 2 length words + both embedded lengths as the PDU length, type 10", where=eb.loc, detail=detail)
        # what is appended to the octets, in order, whichever appending method is used: the header, the length of the
        # embedded PDU (BE), the PDU, the length of the text (BE), the text
        sy = K.sym_of(eb)
        p_pdu, p_text = strip_deep(sy.local(3)), strip_deep(sy.local(4))

        def piece(t):
            t = _value_keeping(t)
            while t[0] == "mvar":
                t = _value_keeping(t[3])
            if t == p_pdu:
                return "pdu"
            if t == p_text:
                return "text"
            if header_args(f, t) is not None:
                return "header"
            if t[0] == "call" and len(t[2]) == 1 and (t[3] or {}).get("name") in ("to_be_bytes", "to_be") and _NUM_FN.match((t[3] or {}).get("fn") or ""):
                x = _value_keeping(t[2][0])
                if x[0] == "cast":
                    x = _value_keeping(x[1])
                if _is_len_of_param(x, eb, 3):
                    return "len(pdu) BE"
                if _is_len_of_param(x, eb, 4):
                    return "len(text) BE"
            return render(t)[:80]
        ext = [piece(K.arg_terms(c)[1]) for c in eb.calls()
               if c.name in ("extend_from_slice", "extend", "put_slice", "put", "write_all", "put_u32", "extend_from_within") and
               len(c.args) == 2 and not eb.is_cleanup(c.bb)]
        okx = ext == ["header", "len(pdu) BE", "pdu", "len(text) BE", "text"]
        ctx.ob("R-LAYOUT", "Error::new:wire-order", okx, "Error::new emits header, pdu length (BE), pdu, text length (BE), text",
               where=eb.loc, detail=ext)

    # ---- write sends exactly the struct's bytes ------------------------------------------------
    nw = 0
    for n, b in f.bodies.items():
        if not re.match(r"^rtr::pdu::\w+::write::\{closure#0\}$", n):
            continue
        owner = n[:-len("::write::{closure#0}")]
        was = [c for c in b.calls() if c.name == "write_all" and not b.is_cleanup(c.bb)]
        if owner in (P + "Payload",):
            continue
        nw += 1
        args = [K.arg_renders(c)[1] for c in was]
        want = ["^self"]
        if owner in owner_of.values():
            # fixed part, then the payload: the fields of the struct by their types (not their names), each sent once
            otys = [(fl["name"], fl["ty"]) for fl in (f.adts.get(owner) or {"variants": [{"fields": []}]})["variants"][0]["fields"]]
            fx = [k for k, v in owner_of.items() if v == owner][0]
            want = ["fixed part", "payload"]
            sent = []
            for c in was:
                t = K.arg_terms(c)[1]
                while t[0] == "mvar":
                    t = strip_deep(t[3])
                ty = dict(otys).get(str(t[2])) if t[0] == "field" and (t[3] if len(t) > 3 else None) == owner and \
                    strip_deep(t[1])[0] in ("param", "upvar") else None
                sent.append("fixed part" if ty == fx else "payload" if ty is not None else render(t))
            args = sent
        elif owner == P + "EndOfData":
            want = None
        ok = (want is None and len(args) >= 1) or args == want
        chk = all(call_checked(b, c.bb)[0] for c in was)
        ctx.ob("R-FLOW", "%s::write" % short(owner), ok and chk,
               "%s::write sends exactly its own bytes%s and propagates I/O errors" % (short(owner), " then the payload" if want and len(want) == 2 else ""),
               where=b.loc, detail=args)
    ctx.floor("R-FLOW", "PDU write bodies", nw, 12)

    # ---- C07.b byte order pairing ----------------------------------------------------------------
    npair = 0
    for adt, rec in sorted(list(fixed.items()) + [(P + "SerialQueryPayload", f.adts.get(P + "SerialQueryPayload")), (P + "Header", f.adts.get(P + "Header"))]):
        if rec is None:
            continue
        mb = [fl["name"] for fl in rec["variants"][0]["fields"] if fl["ty"] in INT_FIELD]
        for fld in mb:
            # constructor side
            for bd, bi, si, st in aggregates_of(f, adt):
                if is_derived(bd) or "read_payload" in bd.name:
                    continue
                t = K.sym_of(bd).rvalue(st["rv"])
                v = strip_deep(dict(t[3]).get(fld, ("unknown",)))
                r = render(v)
                if re.search(r"Default::default\(\)", r):
                    continue
                ok = _be_of(v) is not None
                npair += 1
                ctx.ob("R-SIB", "%s.%s:stored-big-endian" % (short(adt), fld), ok,
                       "%s stores %s in network byte order" % (short(root_fn(f, bd.name)), fld), where=bd.where(bi, si), detail=r)
            # accessor side: any non-derived body that copies the field out
            for n, b in f.bodies.items():
                if not n.startswith(P) or is_derived(b) or b.rec.get("impl_trait"):
                    continue
                for bi, blk in enumerate(b.blocks):
                    for si, st in enumerate(blk["stmts"]):
                        if st["s"] != "assign" or st["rv"]["r"] != "use":
                            continue
                        op = st["rv"]["op"]
                        pl = op.get("c") or op.get("m")
                        if not pl or not pl["p"]:
                            continue
                        last = [p for p in pl["p"] if p[0] == "f"]
                        if not last or last[-1][1] != fld or last[-1][2] != adt:
                            continue
                        # how is the copy used?  Followed through plain local-to-local copies (`let raw = self.x;`); every
                        # use must be a conversion from network byte order, and there must be one
                        uses = raw_field_uses(b, st["pl"])
                        ok = bool(uses) and all(u in ("from_be", "to_be", "to_ne_bytes→from_be_bytes") for u in uses)
                        npair += 1
                        ctx.ob("R-SIB", "%s.%s:read-big-endian[%s]" % (short(adt), fld, short(root_fn(f, n))), ok,
                               "%s converts %s from network byte order when reading it" % (short(root_fn(f, n)), fld),
                               where=b.where(bi, si), detail=uses)
    ctx.floor("R-SIB", "byte-order obligations", npair, 30)

    # ---- C07.c reads are error-propagating and bounded ----------------------------------------------
    nrd = 0
    for n, b in f.bodies.items():
        if not (n.startswith(P) and b.is_coroutine):
            continue
        reads = [c for c in b.calls() if c.name in ("read_exact", "read") and (c.trait or "").endswith("AsyncReadExt") and not b.is_cleanup(c.bb)]
        if not reads:
            continue
        oc = outcome(b)
        ctx.saw_fn(n)
        for c in reads:
            nrd += 1
            ok, how = call_checked(b, c.bb, oc)
            ctx.ob("R-CHK", "%s:%s-checked@%s" % (short(root_fn(f, n)), c.name, _ordinal(b, c)), ok,
                   "%s honours the result of %s (an I/O error or EOF ends in Err)" % (short(root_fn(f, n)), c.name),
                   where=c.where(), detail=how)
    ctx.floor("R-CHK", "async read call sites in pdu.rs", nrd, 40)
    # fixed PDUs: body read only behind the length guard
    ng = 0
    for adt in sorted(fixed):
        for meth in ("read_payload", "read", "try_read"):
            n = "%s::%s::{closure#0}" % (adt, meth)
            b = f.body(n)
            if b is None:
                continue
            # Decided per value of the announced length (ValueSplit): for no length other than the size of the struct can
            # a read of the body be reached — however the test is spelt (`!=` / `==` / `match` / `cmp` / two inequalities,
            # either operand order, early return or nested, in a new private helper; the size as size_of::<Self>(), a
            # constant, `Self::size()` or the length of the value's own byte image).
            ok, detail = body_read_needs_exact_length(f, b, fixed[adt].get("size"))
            ng += 1
            ctx.ob("R-GRD", "%s::%s:length-guard" % (short(adt), meth), ok,
                   "%s::%s reads the PDU body only if the header's length equals the struct size" % (short(adt), meth),
                   where=b.loc, detail=detail)
            if meth in ("read",):
                pdu_c = f.consts.get(adt + "::PDU")
                g = eq_matcher(r"Header::pdu\(", r"^%s$" % (pdu_c.get("v") if pdu_c else "?"))
                mp = MustPass(f, lambda c: False, guard_fn=lambda bd, s_, bb, g=g: guard_edges(bd, s_, bb, g), name="pdu type")
                okp = mp.holds(n)
                if not okp and pdu_c:
                    # the same fact whatever the spelling of the test (field or accessor, `match`, flipped comparison):
                    # of the 256 values of the type octet only the PDU's own can end in success
                    split = octet_split(f, b, lambda t: is_header_field(f, t, "pdu"))
                    okp = split is not None and [v for v, r in sorted(split.items()) if r & set(b.return_blocks())] == [pdu_c.get("v")]
                ctx.ob("R-GRD", "%s::%s:type-guard" % (short(adt), meth), okp,
                       "%s::%s succeeds only for its own PDU type" % (short(adt), meth), where=b.loc,
                       detail=None if okp else K.why(f, mp, n))
    ctx.floor("R-GRD", "length guards of fixed PDU readers", ng, 20)
    # variable PDUs: checked_sub of the fixed size is Some
    for owner, fx in ((P + "RouterKey", P + "RouterKeyFixed"), (P + "Aspa", P + "AspaFixed")):
        n = owner + "::read_payload::{closure#0}"
        b = f.body(n)
        if b is None:
            ctx.missing("R-GRD", short(owner) + "::read_payload", n)
            continue
        found, ok, detail = short_length_fails(f, b, fx)
        if not (found and ok):
            # the same fact decided per value of the announced length: no length below the fixed size ends in success
            size = (f.adts.get(fx) or {}).get("size")
            vs = ValueSplit(f, b, _is_announced_length, extra=(size,)) if size is not None else None
            if vs is not None and vs.tests:
                short_ = [v for v in sorted(vs.samples) if v < size]
                bad = [v for v in short_ if vs.succeeds(v)]
                if any(vs.decided(v) for v in short_) and not bad and vs.succeeds(size):
                    found, ok, detail = True, True, None
                elif bad:
                    detail = {"too_short_lengths_that_can_succeed": bad[:8], "tests": detail}
        ctx.ob("R-GRD", "%s::read_payload:length>=fixed" % short(owner), found and ok,
               "%s::read_payload fails when the announced length is smaller than the fixed part" % short(owner), where=b.loc, detail=detail)
    ab = f.body(P + "Aspa::read_payload::{closure#0}")
    if ab is not None:
        mp = MustPass(f, lambda c: False, guard_fn=lambda bd, s_, bb: multiple_of_edges(f, bd, s_, bb, P + "AspaFixed", 4),
                      name="providers % 4 == 0")
        ok = mp.holds(ab.name)
        detail = None
        if not ok:
            # decided per value of the announced length: whichever quantity the remainder is taken of (the difference,
            # the whole length — the fixed part is itself a multiple of 4 —, a helper's result) and wherever the test
            # sits, a length whose provider part is not a multiple of 4 cannot end in success
            size = (f.adts.get(P + "AspaFixed") or {}).get("size")
            vs = ValueSplit(f, ab, _is_announced_length, extra=(size, size + 4)) if size is not None else None
            if vs is not None and vs.tests:
                odd = [v for v in sorted(vs.samples) if v >= size and (v - size) % 4 != 0]
                bad = [v for v in odd if vs.succeeds(v)]
                good = [v for v in sorted(vs.samples) if v >= size and (v - size) % 4 == 0 and vs.succeeds(v)]
                ok = bool(odd) and not bad and size in good and len(good) > 1
                detail = {"lengths_with_ragged_provider_list_that_can_succeed": bad[:8], "lengths_accepted": good[:4]}
            if not ok:
                detail = [detail, K.why(f, mp, ab.name)]
        ctx.ob("R-GRD", "Aspa::read_payload:providers-multiple-of-4", ok,
               "Aspa::read_payload succeeds only if the provider list length is a multiple of 4", where=ab.loc,
               detail=None if ok else detail)
    # the variable part is delivered only after a checked read_exact: the async function whose result fills the payload
    # field (found by its output type) — and any awaited private helper it delegates to — passes `read_exact` on every
    # success path.  `read`, `read_to_end`, `take(n)` … complete early at end of stream and would hand back less than
    # the header announced.
    def exact_read_sink(c, _seen=[]):
        if c.name == "read_exact" and (c.trait or "").endswith("AsyncReadExt"):
            return True
        r = c.res or ""
        fr = f.fns.get(r)
        if fr and fr.get("async") and not fr.get("exported") and f.body(r + "::{closure#0}") is not None and r not in _seen and len(_seen) < 6:
            _seen.append(r)
            try:
                return MustPass(f, exact_read_sink, name="read_exact").holds(r + "::{closure#0}")
            finally:
                _seen.pop()
        return False
    for owner, fx in ((P + "RouterKey", P + "RouterKeyFixed"), (P + "Aspa", P + "AspaFixed")):
        ofields = [(fl["name"], fl["ty"]) for fl in (f.adts.get(owner) or {"variants": [{"fields": []}]})["variants"][0]["fields"]]
        ptys = [ty for nm, ty in ofields if ty != fx]
        rp = f.body(owner + "::read_payload::{closure#0}")
        if rp is None or len(ptys) != 1:
            continue
        readers = {c.res for c in rp.calls() if c.res in f.fns and f.fns[c.res].get("async") and
                   ("Result<%s," % ptys[0]) in (f.fns[c.res].get("output") or "")}
        # … or found by where its result goes, whatever it is declared to deliver (the raw octets, wrapped into the
        # payload type by the caller): every async fn of the crate whose awaited result is part of the value stored in
        # the payload field of the PDU that read_payload builds
        pnames = [nm for nm, ty in ofields if ty != fx]
        for bd, bi, si, st in aggregates_of(f, owner):
            if bd is not rp:
                continue
            stored = dict((str(k), v) for k, v in K.sym_of(bd).rvalue(st["rv"])[3]).get(pnames[0])
            for x in walk(strip_deep(stored)) if stored is not None else ():
                r = (x[3] or {}).get("res") if x[0] == "call" else None
                if r in f.fns and f.fns[r].get("async") and f.body(r + "::{closure#0}") is not None:
                    readers.add(r)
        readers = sorted(readers)
        if not readers:
            ctx.missing("R-CHK", "%s:payload-reader" % short(owner), "an async fn delivering %s awaited by %s::read_payload" % (ptys[0], owner))
        for r in readers:
            mp = MustPass(f, exact_read_sink, name="read_exact")
            okr = mp.holds(r + "::{closure#0}")
            ctx.ob("R-CHK", "%s:delivers-only-after-read_exact" % short(r), okr,
                   "%s delivers the variable part of the PDU only after a checked read_exact (nothing that completes early "
                   "at end of stream)" % short(r), where=f.fns[r]["loc"], detail=None if okr else K.why(f, mp, r + "::{closure#0}"))
    # Payload::read: unknown PDU types fail; EndOfData: versions other than 0,1,2 fail.  Decided per value of the
    # (one-octet) header field: whichever way the dispatch is written — `match` on the field or on its accessor, an
    # `if` chain, range patterns — for every value the feasible edges are followed and what can be reached is compared
    # with the table.
    pb = f.body(P + "Payload::read::{closure#0}")
    if pb is not None:
        want = dict((f.consts[P + x + "::PDU"]["v"], P + x + "::read_payload") for x in ("Ipv4Prefix", "Ipv6Prefix", "RouterKey", "Aspa", "EndOfData"))
        ok, detail = dispatch_by_header_octet(f, pb, "pdu", want)
        ctx.ob("R-GRD", "Payload::read:unknown-type-fails", ok,
               "Payload::read dispatches exactly the payload PDU types and End-of-Data; any other type is an error", where=pb.loc, detail=detail)
    ebr = f.body(P + "EndOfData::read_payload::{closure#0}")
    if ebr is not None:
        want = {0: P + "EndOfDataV0::read_payload", 1: P + "EndOfDataV1::read_payload", 2: P + "EndOfDataV1::read_payload"}
        ok, detail = dispatch_by_header_octet(f, ebr, "version", want)
        ctx.ob("R-GRD", "EndOfData::read_payload:versions", ok,
               "EndOfData::read_payload accepts exactly versions 0 (V0 layout) and 1, 2 (V1 layout)", where=ebr.loc, detail=detail)

    # ---- C07.d no read loop without an EOF exit ----------------------------------------------------------
    nloops = 0
    for n, b in f.bodies.items():
        if not n.startswith("rtr::"):
            continue
        rd = [c for c in b.calls() if c.name == "read" and (c.trait or "").endswith("AsyncReadExt") and not b.is_cleanup(c.bb)]
        if not rd:
            continue
        sccs = b.cycles_sccs()
        oc = outcome(b)
        sym = oc.sym
        for c in rd:
            # the poll loop of the await is itself a cycle (it closes through a `yield`); a data loop is a cycle through
            # the call that does not need the yield
            comps = [set(x) for x in sccs if c.bb in x]
            if not comps:
                continue
            comp = max(comps, key=len)
            yields = [bi for bi in comp if b.term(bi)["t"] == "yield"]
            after = set(b.reachable(c.bb, removed_blocks=yields))
            if not any(c.bb in b.succs(x) for x in after if x in comp):
                continue
            nloops += 1
            ok = False
            detail = []
            # Decided for the value 0 of the count `read` delivered: some test inside the loop takes, for a count of 0,
            # an edge that leaves the loop — `if n == 0 { return … }`, `match n { 0 => …, n => … }`, `if n > 0 { … } else
            # { break }`, `n < 1`, a flag local, in a new private helper, whatever the count is called.
            vs = ValueSplit(f, b, _is_read_count)
            taken = vs.decided(0)
            for bi in sorted(taken):
                if bi in comp:
                    leaves = taken[bi] not in comp
                    detail.append({"test": render(next(d for x, d, _ in vs.tests if x == bi))[-70:], "zero_count_leaves_loop": leaves})
                    ok = ok or leaves
            for bi in sorted(comp) if not detail else ():
                # (fallback when no test of the count could be evaluated)
                t = b.term(bi)
                if t["t"] == "switch" and t.get("dty") != "bool":
                    # `match sock.read(..).await? { 0 => return Err(..), n => .. }`
                    if _is_read_count(strip_deep(sym.operand(t["discr"]))):
                        zero_exits = [tb for v, tb in b.switch_edges(bi) if v == 0 and tb not in comp]
                        detail.append({"test": "match <count> { 0 => … }", "leaves_loop": bool(zero_exits)})
                        if zero_exits:
                            ok = True
                    continue
                if t["t"] != "switch" or t.get("dty") != "bool":
                    continue
                at = bool_atom(sym.operand(t["discr"]))
                if not at or at[0] not in ("eq", "lt", "le", "gt", "ge") or at[2] is None:
                    continue
                ra, rb = render(at[1]), render(at[2])
                if ("0" in (ra, rb)) and any(_is_read_count(strip_deep(x)) for x in (at[1], at[2])):
                    exits = [tb for _, tb in b.switch_edges(bi) if tb not in comp]
                    detail.append({"test": "%s %s %s" % (ra, at[0], rb), "leaves_loop": bool(exits)})
                    if exits:
                        ok = True
            ctx.ob("R-LOOP", "%s:read-loop-has-eof-exit" % short(root_fn(f, n)), ok,
                   "the loop around `read` in %s tests the byte count against 0 and leaves the loop (a closed stream "
                   "returns Ok(0) forever)" % short(root_fn(f, n)), where=c.where(), detail=detail or "no zero-length test in the loop")
    ctx.floor("R-LOOP", "loops around AsyncReadExt::read in rtr", nloops, 1)
    check_plain_reads(ctx, f)

    # ---- C07.e observation: allocation by declared length ------------------------------------------------
    allocs = []
    for n, b in f.bodies.items():
        if n.startswith(P) and b.is_coroutine:
            for c in b.calls():
                if c.name in ("from_elem", "with_capacity") and not b.is_cleanup(c.bb):
                    a = K.arg_renders(c)
                    if any("len" in x for x in a):
                        allocs.append("%s: %s(%s)" % (short(root_fn(f, n)), c.name, ", ".join(a)))
    ctx.note("observation (not a C07 violation): buffers sized by the announced PDU length before any payload byte arrives: %s" % allocs)

    check_payload_new(ctx, f)
    # "it never panics": the C04 site discipline over everything reachable from the PDU readers
    from props import C04
    rd = [n for n, r in f.fns.items() if r.get("has_body") and n.startswith("rtr::pdu::") and
          r["name"] in ("read", "try_read", "read_payload", "skip_payload", "to_payload", "read_or_close")]
    C04.check_reachable_sites(_CursorSub(ctx, f), f, rd, "the RTR PDU readers", 30, 40)

    # ---- C07.f to_payload validates through the checked constructors -------------------------------------
    # Anchored on the public `Payload::to_payload`: what it returns on success, with the private functions it delegates
    # to (a nested fn, a private method, a shared helper for both address families, …) replaced by what they return.
    tb = f.body(P + "Payload::to_payload")
    if tb is None:
        ctx.missing("R-FLOW", "Payload::to_payload", P + "Payload::to_payload")
    else:
        ctx.saw_fn(tb.name)
        # (a step of the construction handed to `map` / `and_then` as a closure is read as that step: through_closures)
        vals = sorted({render(canon_checked(v)) for t in returned_terms(f, tb.name) for u in through_closures(f, t)
                       for v in _expand_private_calls(f, u, 0, 48, frozenset([tb.name]))})
        me = re.escape(render(("param", tb.local_name(1) or "_1")))
        rxs = []
        for fam in ("v4", "v6"):
            rx = r"Payload::origin\(Try::branch\(MaxLenPrefix::new\(Try::branch\(Prefix::new_%s_relaxed\(Ipv%sPrefix::prefix\(payload↓V%s\.0\), Ipv%sPrefix::prefix_len\(payload↓V%s\.0\)\)\)↓Continue\.0, option::Option::Some\{0: Ipv%sPrefix::max_len\(payload↓V%s\.0\)\}\)\)↓Continue\.0, Ipv%sPrefix::asn\(payload↓V%s\.0\)\)" % ((fam, fam[1], fam[1]) + (fam[1], fam[1]) * 3)
            rx = rx.replace("payload", me)
            rxs.append(rx)
        for fam, rx in zip(("v4", "v6"), rxs):
            # some returned value is the validated origin of this family, and no origin is returned that is built otherwise
            mine = [v for v in vals if "Payload::origin(" in v and ("↓V%s.0" % fam[1] in v or not ("↓V4.0" in v or "↓V6.0" in v))]
            ok = any(re.search(rx, v) for v in vals) and all(re.search(rx, v) for v in mine)
            ctx.ob("R-FLOW", "to_payload:%s-origin-validated" % fam, ok,
                   "an IP%s origin is built from checked Prefix::new_%s_relaxed and MaxLenPrefix::new of the PDU's own fields" % (fam, fam),
                   where=tb.loc, detail=None if ok else vals)
        me = render(("param", tb.local_name(1) or "_1"))
        okw = any("Payload::aspa(Aspa::customer(%s↓Aspa.0), ProviderAsns::empty())" % me in v for v in vals) and \
            any("Payload::aspa(Aspa::customer(%s↓Aspa.0), Aspa::providers(%s↓Aspa.0))" % (me, me) in v for v in vals)
        ctx.ob("R-FLOW", "to_payload:aspa", okw, "an ASPA withdrawal yields empty providers, an announcement the PDU's providers",
               where=tb.loc, detail=None if okw else vals)


# the AsyncReadExt operations that may complete after fewer bytes than there is room for
_SHORT_READS = ("read", "read_buf", "read_to_end", "read_to_string", "read_until", "read_line")


def check_plain_reads(ctx, f):
    # who uses a plain (possibly short) `read`, and how much it may take: fixed-size parts of a PDU are filled with read_exact;
    # the two cursor loops hand `read` either the still-missing tail of the fixed target or at most min(remaining, buffer)
    plain = []
    for n, b in f.bodies.items():
        if not n.startswith("rtr::"):
            continue
        for c in b.calls():
            if c.name in _SHORT_READS and (c.trait or "").endswith("AsyncReadExt") and not b.is_cleanup(c.bb):
                plain.append((root_fn(f, n), K.alpha(K.arg_renders(c)[1], b), c.where(), K.arg_terms(c)[1]))
    # every plain read sits on a cycle of its function (a cursor loop); fixed-size parts are filled by read_exact
    not_in_loop = []
    for n, b in f.bodies.items():
        if not n.startswith("rtr::"):
            continue
        sccs = b.cycles_sccs()
        for c in b.calls():
            if c.name in _SHORT_READS and (c.trait or "").endswith("AsyncReadExt") and not b.is_cleanup(c.bb):
                if not any(c.bb in comp for comp in sccs):
                    not_in_loop.append("%s @ %s" % (short(root_fn(f, n)), c.where()))
    ctx.ob("R-WHO", "AsyncReadExt::read-callers", not not_in_loop and len(plain) >= 2,
           "a plain `read` (which may return fewer bytes than asked for) is used only inside cursor loops; every fixed-size "
           "PDU part is filled by read_exact", detail={"outside_a_loop": not_in_loop, "plain_reads": sorted({x[0] for x in plain})})
    for fn, buf, where, term in plain:
        ok = _read_buffer_is_bounded(term)
        ctx.ob("R-FLOW", "%s:read-is-bounded-by-what-is-missing" % short(fn), ok,
               "%s never asks `read` for more than the bytes still missing from the current PDU (the rest of the stream belongs "
               "to the next PDU)" % short(fn), where=where, detail=buf)


def _is_min_call(t):
    t = _value_keeping(t)
    return t[0] == "call" and len(t[2]) == 2 and (t[3] or {}).get("name") == "min" and \
        ((t[3] or {}).get("res") in ("std::cmp::min", "core::cmp::min") or ((t[3] or {}).get("trait") or "").endswith("cmp::Ord"))


def _read_buffer_is_bounded(t):
    """The buffer handed to a plain `read` is a sub-slice that cannot take more than what is missing: the tail `[k..]` of
    the fixed-size target being filled, or a prefix `[..min(remaining, _)]` / `[a..min(..)]` — by whichever slicing method
    (`[..]`, get_mut, get_unchecked_mut, split_at_mut) and whichever spelling of the minimum (`cmp::min`, `Ord::min`)."""
    t = strip_deep(t)
    while t[0] == "mvar":
        t = strip_deep(t[3])
    if t[0] == "field" and t[1][0] == "call" and (t[1][3] or {}).get("name") in ("split_at_mut", "split_at_mut_unchecked") and len(t[1][2]) == 2:
        return str(t[2]) == "1" or _is_min_call(t[1][2][1])
    if not (t[0] == "call" and len(t[2]) == 2 and (t[3] or {}).get("name") in ("index_mut", "get_unchecked_mut", "get_mut")):
        return False
    rng = strip_deep(t[2][1])
    if rng[0] != "agg":
        return False
    kind = str(rng[1]).split("::")[-1]
    flds = dict((str(k), v) for k, v in rng[3])
    if kind == "RangeFrom":
        return True
    if kind in ("RangeTo", "Range") and "end" in flds:
        return _is_min_call(flds["end"])
    return False


def check_payload_new(ctx, f):
    """Writer side: Payload::new builds each PDU from the payload's own fields, each in its own slot."""
    b = f.body(P + "Payload::new")
    if b is None:
        return ctx.missing("R-FLOW", "Payload::new", P + "Payload::new")
    ctx.saw_fn(b.name)
    want = {
        P + "Ipv4Prefix::new": ["%1", "%2", "MaxLenPrefix::prefix_len(%3↓Origin.0.prefix)", "MaxLenPrefix::resolved_max_len(%3↓Origin.0.prefix)",
                                "MaxLenPrefix::addr(%3↓Origin.0.prefix)↓V4.0", "%3↓Origin.0.asn"],
        P + "Ipv6Prefix::new": ["%1", "%2", "MaxLenPrefix::prefix_len(%3↓Origin.0.prefix)", "MaxLenPrefix::resolved_max_len(%3↓Origin.0.prefix)",
                                "MaxLenPrefix::addr(%3↓Origin.0.prefix)↓V6.0", "%3↓Origin.0.asn"],
        P + "RouterKey::new": ["%1", "%2", "%3↓RouterKey.0.key_identifier", "%3↓RouterKey.0.asn", "%3↓RouterKey.0.key_info"],
        P + "Aspa::new": ["%1", "%2", "%3↓Aspa.0.customer", "%3↓Aspa.0.providers"],
    }
    seen = {}
    for c in b.calls():
        if c.res in want and not b.is_cleanup(c.bb):
            seen.setdefault(c.res, []).append([K.alpha(x, b) for x in K.arg_renders(c)])
    for res, args in sorted(want.items()):
        got = seen.get(res, [])
        # every place where this PDU is built (one, or one per arm when the match is arranged differently) fills it so
        ctx.ob("R-FLOW", "Payload::new→%s" % short(res), bool(got) and all(g == args for g in got),
               "Payload::new fills %s with (version, flags, %s) of the payload it was given" % (short(res), ", ".join(a.split("↓")[-1] for a in args[2:])),
               where=b.loc, detail=got)


def _operand_local(op):
    pl = (op or {}).get("c") or (op or {}).get("m")
    return (pl["l"], bool(pl["p"])) if pl else (None, False)


def raw_field_uses(b, dst_pl):
    """How the value copied into place `dst_pl` is consumed: names of the calls it is handed to (through any chain of
    plain local copies), `raw:<what>` for every other consumer (arithmetic, comparison, aggregate, return, store)."""
    if dst_pl["p"] or dst_pl["l"] == 0:
        return ["raw:stored"]
    held = {dst_pl["l"]}
    uses = []
    changed = True
    while changed:
        changed = False
        for blk in b.blocks:
            for st in blk["stmts"]:
                if st["s"] == "assign" and st["rv"]["r"] == "use":
                    l, proj = _operand_local(st["rv"]["op"])
                    d = st["pl"]
                    if l in held and not proj and not d["p"] and d["l"] != 0 and d["l"] not in held:
                        held.add(d["l"])
                        changed = True
    for bi, blk in enumerate(b.blocks):
        if blk.get("cleanup"):
            continue
        for st in blk["stmts"]:
            if st["s"] != "assign":
                continue
            rv, d = st["rv"], st["pl"]
            ops = [rv.get("op"), rv.get("a"), rv.get("b")] + list(rv.get("ops") or [])
            reads = [o for o in ops if o and _operand_local(o)[0] in held and not _operand_local(o)[1]]
            if rv["r"] in ("ref", "rawptr", "discr") and rv.get("pl", {}).get("l") in held:
                reads.append(rv["pl"])
            if not reads:
                continue
            if rv["r"] == "use" and not d["p"] and d["l"] in held:
                continue
            uses.append("raw:%s" % ("returned" if d["l"] == 0 and rv["r"] == "use" else rv["r"]))
        t = blk["term"]
        if t["t"] == "call":
            if any(_operand_local(a)[0] in held and not _operand_local(a)[1] for a in t.get("args", [])):
                c = next((x for x in b.calls() if x.bb == bi), None)
                nm = c.name if c is not None else "?"
                if nm == "to_ne_bytes" and any(x.name == "from_be_bytes" for x in b.calls()):
                    nm = "to_ne_bytes→from_be_bytes"
                uses.append(nm)
        elif t["t"] == "switch" and _operand_local(t.get("discr"))[0] in held:
            uses.append("raw:switch")
    return uses


def _be_of(t):
    """x if `t` is x converted to network byte order (`x.to_be()`, `T::from_be(x)` — the same swap —,
    `T::from_ne_bytes(x.to_be_bytes())`, `T::from_be_bytes(x.to_ne_bytes())`); else None."""
    t = strip_deep(t)
    if t[0] != "call" or len(t[2]) != 1:
        return None
    name = (t[3] or {}).get("name")
    if name in ("to_be", "from_be"):
        return strip_deep(t[2][0])
    inner = strip_deep(t[2][0])
    if inner[0] == "call" and len(inner[2]) == 1 and (name, (inner[3] or {}).get("name")) in (("from_ne_bytes", "to_be_bytes"), ("from_be_bytes", "to_ne_bytes")):
        return strip_deep(inner[2][0])
    return None


def header_args(f, t, literal_only=False, _depth=0):
    """(version, pdu, session, length) of a header value: the arguments of `Header::new(..)`, or the fields of a `Header`
    literal in wire order with the multi-byte ones un-converted from network byte order; a private helper that returns
    one such value is looked through.  None if `t` is none of these."""
    t = strip_deep(t)
    while t[0] == "mvar":
        t = strip_deep(t[3])
    if t[0] == "call" and t[1] == P + "Header::new" and len(t[2]) == 4 and not literal_only:
        return tuple(strip_deep(x) for x in t[2])
    if not literal_only and _depth < 3 and _private_callee(f, t) is not None:
        # a header obtained from a private helper is the header that helper builds (its parameters replaced by the
        # arguments of this call, helpers called for the arguments — a shared length computation — read the same way);
        # the public `Header::new` stays the anchor.  One value only: a helper that builds different headers on different
        # paths is not read.
        alts = {strip_deep(x) for x in _expand_private_calls(f, t, 0, 8, frozenset())}
        if len(alts) == 1 and t not in alts:
            return header_args(f, alts.pop(), _depth=_depth + 1)
        return None
    rec = f.adts.get(P + "Header")
    if t[0] == "agg" and t[1] == P + "Header" and rec:
        vals = dict((str(k), v) for k, v in t[3])
        out = []
        for fl in rec["variants"][0]["fields"]:
            v = vals.get(fl["name"])
            if v is None:
                return None
            v = strip_deep(v)
            if fl["ty"] in INT_FIELD:
                v = _be_of(v)
                if v is None:
                    return None
            out.append(v)
        return tuple(out) if len(out) == 4 else None
    return None


def _ordinal(b, c):
    same = [x for x in b.calls() if x.name == c.name and not b.is_cleanup(x.bb)]
    return same.index(c) if c in same else 0


# ---------------------------------------------------------------------------------------------------------------
# Option / Result plumbing.  A test of an Option can be spelt `match x { None => … }`, `let Some(v) = x else { … }`,
# `x.ok_or_else(…)?`, `x.filter(p).ok_or(…)?`, `if x.is_none() { … }`, …  What the rules below need is: "on which edge
# of this switch is the Option X known to be None (or: known to be Some)".  The models state only which variant comes
# out of a std combinator for which variant going in — their documented contract.

_PRIM_SIZE = {"u8": 1, "i8": 1, "u16": 2, "i16": 2, "u32": 4, "i32": 4, "u64": 8, "i64": 8, "u128": 16, "i128": 16}
_OPT_FN = re.compile(r"^(std|core)::option::Option::<")
_RES_FN = re.compile(r"^(std|core)::result::Result::<")
# Option → Option, None stays None; the second set also keeps the payload of Some
_OPT_NONE_KEEPING = {"map", "and_then", "filter", "inspect", "copied", "cloned", "as_ref", "as_mut", "as_deref", "zip", "and"}
_OPT_PAYLOAD_KEEPING = {"filter", "inspect", "copied", "cloned", "as_ref", "as_mut", "as_deref"}
_RES_ERR_KEEPING = {"map", "map_err", "and_then", "inspect", "inspect_err", "copied", "cloned", "as_ref", "as_mut", "and"}
_RES_PAYLOAD_KEEPING = {"map_err", "inspect", "inspect_err", "copied", "cloned", "as_ref", "as_mut"}
_FAIL_DISCR = {"option": 0, "result": 1, "flow": 1}        # None / Err / Break


def int_value(t, f, _depth=0):
    """Value of an integer-valued constant expression: literal, named constant of the crate, `size_of::<T>()` of a
    primitive or of a crate type (compiler-computed layout), a parameterless function of the crate returning such an
    expression (`T::size()`), through casts."""
    t = strip_deep(t)
    if t[0] == "call" and not t[2] and _depth < 2 and ((t[3] or {}).get("res") or "") in f.fns:
        return _const_fn_value(f, t[3]["res"], _depth + 1)
    if t[0] == "const" and isinstance(t[1], int) and not isinstance(t[1], bool):
        return t[1]
    if t[0] == "cdef":
        v = (f.consts.get(t[1]) or {}).get("v")
        return v if isinstance(v, int) and not isinstance(v, bool) else None
    if t[0] == "cast":
        return int_value(t[1], f, _depth)
    if t[0] == "call" and not t[2] and (t[3] or {}).get("name") == "size_of" and (t[3].get("res") or "").endswith("mem::size_of"):
        ga = t[3].get("ga") or ()
        if len(ga) == 1:
            if ga[0] in _PRIM_SIZE:
                return _PRIM_SIZE[ga[0]]
            rec = f.adts.get(ga[0])
            return rec.get("size") if rec else None
    return None


def none_image(t, is_target, keep_payload=False):
    """`t` is built from an Option X with is_target(X) by std combinators under which "X is None" forces a fixed variant
    of `t`: returns the kind of `t` ('option' | 'result' | 'flow'); its failing variant is _FAIL_DISCR[kind].  With
    keep_payload only combinators under which the payload of the non-failing variant is X's payload are followed.
    None when `t` is not of that form."""
    t = strip_deep(t)
    if is_target(t):
        return "option"
    if t[0] != "call" or not t[2]:
        return None
    info = t[3] or {}
    name, fn = info.get("name"), info.get("fn") or ""
    inner = none_image(t[2][0], is_target, keep_payload)
    if inner is None:
        return None
    if name == "branch" and (info.get("trait") or "").endswith("ops::Try"):
        return "flow" if inner in ("option", "result") else None
    if inner == "option" and _OPT_FN.match(fn):
        if name in (_OPT_PAYLOAD_KEEPING if keep_payload else _OPT_NONE_KEEPING):
            return "option"
        if name in ("ok_or", "ok_or_else"):
            return "result"
    if inner == "result" and _RES_FN.match(fn):
        if name in (_RES_PAYLOAD_KEEPING if keep_payload else _RES_ERR_KEEPING):
            return "result"
        if name == "ok":
            return "option"
    return None


def payload_of(t, is_target):
    """`t` is the payload of the non-failing variant of a value built from the Option X (see none_image, payload kept):
    `X↓Some.0`, `Try::branch(X.ok_or(e))↓Continue.0`, …"""
    t = strip_deep(t)
    while t[0] == "cast":
        t = strip_deep(t[1])
    if t[0] == "field" and t[2] == "0" and t[1][0] == "variant" and t[1][2] in ("Some", "Ok", "Continue"):
        return none_image(t[1][1], is_target, keep_payload=True) is not None
    return False


def edge_for(b, bb, v):
    t = b.term(bb)
    for val, tb in t["targets"]:
        if val == v:
            return tb
    return t["otherwise"]


def edges_except(b, bb, v):
    t = b.term(bb)
    out = [(bb, tb) for val, tb in t["targets"] if val != v]
    if any(val == v for val, _ in t["targets"]):
        out.append((bb, t["otherwise"]))
    return out


def none_edges(b, sym, bb, is_target):
    """Targets of the switch at `bb` taken when the Option X (is_target) is None; None if the switch does not test X."""
    t = b.term(bb)
    if t["t"] != "switch":
        return None
    d = strip(sym.operand(t["discr"]))
    if d[0] == "discr":
        kind = none_image(d[1], is_target)
        return [edge_for(b, bb, _FAIL_DISCR[kind])] if kind else None
    if t.get("dty") == "bool":
        at = bool_atom(d)
        if at and isinstance(at[0], tuple) and len(at[1]) == 1:
            kind = none_image(at[1][0], is_target)
            nm = at[0][2]
            fails_when = {("option", "is_none"): True, ("option", "is_some"): False,
                          ("result", "is_err"): True, ("result", "is_ok"): False}.get((kind, nm))
            if fails_when is not None:
                fe, te = switch_bool_edges(b, bb)
                return [te if fails_when == at[3] else fe]
    return None


def _is_announced_length(t):
    """The PDU length announced by a header: `Header::pdu_len(h)?` / `Header::length(h)` (public accessors), cast or unwrapped."""
    t = strip_deep(t)
    while True:
        if t[0] == "cast":
            t = strip_deep(t[1])
        elif t[0] == "field" and t[2] == "0" and t[1][0] == "variant" and t[1][2] in ("Ok", "Continue", "Some"):
            t = strip_deep(t[1][1])
        elif t[0] == "call" and (t[3] or {}).get("name") == "branch" and ((t[3] or {}).get("trait") or "").endswith("ops::Try") and t[2]:
            t = strip_deep(t[2][0])
        else:
            break
    if t[0] == "call" and (t[3] or {}).get("res") in (P + "Header::pdu_len", P + "Header::length"):
        return True
    # the field itself, converted from network byte order (`u32::from_be(h.length)`, `u32::from_be_bytes(..)`)
    if t[0] == "call" and len(t[2]) == 1 and (t[3] or {}).get("name") in ("from_be", "from_be_bytes") and _NUM_FN.match((t[3] or {}).get("fn") or ""):
        x = strip_deep(t[2][0])
        if x[0] == "call" and len(x[2]) == 1 and (x[3] or {}).get("name") == "to_ne_bytes":
            x = strip_deep(x[2][0])
        # (the header's only 32-bit field, whatever it is called)
        return x[0] == "field" and (x[3] if len(x) > 3 else None) == P + "Header" and "u32" in ((t[3] or {}).get("fn") or "")
    return False


def body_read_needs_exact_length(f, b, size):
    """In the reader `b` of a fixed-layout PDU every `read_exact` other than the one that fetches the header itself is
    reachable only when the announced length equals `size`.  The header fetch is recognised by its place, not its
    spelling: when the header is not handed in as a parameter, the first read_exact that every test of the length has
    to pass (there is nothing to test before it).  -> (ok, detail)"""
    if size is None:
        return False, "no layout"
    vs = ValueSplit(f, b, _is_announced_length, extra=(size,))
    reads = [c for c in b.calls() if c.name == "read_exact" and (c.trait or "").endswith("AsyncReadExt") and not b.is_cleanup(c.bb)]
    if not vs.tests:
        return False, {"tests_of_the_announced_length": 0, "reads": len(reads)}
    lens = [x for _, d, _ in vs.tests for x in walk(d) if _is_announced_length(x)]
    handed_in = all(any(y[0] in ("param", "upvar") for y in walk(x)) for x in lens)
    fetch = []
    if not handed_in:
        dom = b.dominators()
        cands = [c for c in reads if all(c.bb in dom.get(tb, ()) for tb, _, _ in vs.tests)]
        fetch = [c for c in cands if all(c.bb in dom.get(o.bb, ()) or o is c for o in cands)][:1]
    body_reads = [c for c in reads if c not in fetch]
    if not body_reads:
        return False, {"body_reads": 0, "reads": len(reads)}
    bad = [v for v in sorted(vs.samples) if v != size and any(c.bb in vs.reach(v, success_only=False) for c in body_reads)]
    reached = all(c.bb in vs.reach(size, success_only=False) for c in body_reads)
    ok = not bad and reached and bool(vs.decided(size))
    return ok, {"body_reads": len(body_reads), "header_fetch": [c.where() for c in fetch], "tests": len(vs.tests),
                "lengths_other_than_%d_that_reach_a_body_read" % size: bad[:8]}


def _is_len_minus(t, f, size):
    """`announced_length.checked_sub(size)`"""
    return t[0] == "call" and (t[3] or {}).get("name") == "checked_sub" and ((t[3] or {}).get("fn") or "").startswith("core::num::") \
        and len(t[2]) == 2 and _is_announced_length(t[2][0]) and int_value(t[2][1], f) == size


def short_length_fails(f, b, fx):
    """Every test of "announced length >= size of the fixed part" — whether as a match / `?` / `is_none` on
    `len.checked_sub(size)` or as a comparison `len < size` — sends the too-short case to failure; and there is such a
    test.  -> (found, ok, detail)"""
    from engine import orderlogic as OL
    oc = outcome(b)
    sym, reach = oc.sym, oc.success_reach()
    size = (f.adts.get(fx) or {}).get("size")
    if size is None:
        return (False, False, "no layout for " + fx)
    is_t = lambda t: _is_len_minus(t, f, size)
    found, bad = 0, []
    for bi, blk in enumerate(b.blocks):
        t = blk["term"]
        if t["t"] != "switch" or blk.get("cleanup"):
            continue
        fail = none_edges(b, sym, bi, is_t)
        if fail is None and t.get("dty") == "bool":
            a, truth = OL.atom(sym.operand(t["discr"])), True
            while a[0] == "not":
                a, truth = a[1], not truth
            if a[0] == "cmp":
                op = None
                if _is_announced_length(a[2]) and int_value(a[3], f) == size:
                    op = a[1]
                elif _is_announced_length(a[3]) and int_value(a[2], f) == size:
                    op = {"<": ">", "<=": ">=", ">": "<", ">=": "<=", "==": "==", "!=": "!="}[a[1]]
                # op: announced length <op> size
                short_when = {"<": True, ">=": False}.get(op)
                if short_when is not None:
                    fe, te = switch_bool_edges(b, bi)
                    fail = [te if short_when == truth else fe]
        if fail is None:
            continue
        found += 1
        for tb in fail:
            if tb in reach:
                bad.append("bb%d (line %s): the too-short edge → bb%d reaches a success return" % (bi, b.line_of(bi), tb))
    if not found:
        return (False, False, "no test of the announced length against the %d octets of %s in %s" % (size, short(fx), b.name))
    return (True, not bad, bad or None)


def _rem_of(t, f):
    """(dividend, divisor value) of `a % k` (operator or `Rem::rem`)."""
    t = strip_deep(t)
    if t[0] == "bin" and t[1] == "Rem":
        return t[2], int_value(t[3], f)
    if t[0] == "call" and (t[3] or {}).get("name") == "rem" and ((t[3] or {}).get("trait") or "").endswith("ops::Rem") and len(t[2]) == 2:
        return t[2][0], int_value(t[2][1], f)
    return None


def _multiple_lit(f, k, is_value):
    """orderlogic literal `v % k == 0` with is_value(v)."""
    def lit(a):
        if a[0] != "cmp" or a[1] not in ("==", "!="):
            return None
        for x, y in ((a[2], a[3]), (a[3], a[2])):
            r = _rem_of(x, f)
            if r and r[1] == k and int_value(y, f) == 0 and is_value(r[0]):
                return a[1] == "=="
        return None
    return lit


def multiple_of_edges(f, b, sym, bb, fx, k):
    """Edges of the switch at `bb` on which "(announced length − size of the fixed part) % k == 0" is known: the literal
    tested directly on the difference, or the Some/Ok/Continue edge of a value built from
    `len.checked_sub(size).filter(|v| v % k == 0)`."""
    from engine import orderlogic as OL
    t = b.term(bb)
    if t["t"] != "switch":
        return None
    size = (f.adts.get(fx) or {}).get("size")
    is_t = lambda x: _is_len_minus(x, f, size)
    d = strip(sym.operand(t["discr"]))
    if t.get("dty") == "bool":
        a, truth = OL.atom(d), True
        while a[0] == "not":
            a, truth = a[1], not truth
        m = _multiple_lit(f, k, lambda v: payload_of(v, is_t))(a)
        if m is None:
            return None
        fe, te = switch_bool_edges(b, bb)
        return [(bb, te if m == truth else fe)]
    if d[0] != "discr":
        return None

    def is_filtered(x):
        if not (x[0] == "call" and (x[3] or {}).get("name") == "filter" and _OPT_FN.match((x[3] or {}).get("fn") or "") and len(x[2]) == 2):
            return False
        if none_image(x[2][0], is_t, keep_payload=True) != "option":
            return False
        ct = strip(x[2][1])
        cb = f.body(ct[1]) if ct[0] == "closure" else None
        if cb is None or cb.arg_count < 2:
            return False
        elem = strip_deep(K.sym_of(cb).local(2))
        ok, _ = OL.implies(cb, K.sym_of(cb), True, _multiple_lit(f, k, lambda v: strip_deep(v) == elem))
        return ok
    kind = none_image(d[1], is_filtered, keep_payload=True)
    if kind is None:
        return None
    return edges_except(b, bb, _FAIL_DISCR[kind])


# ---------------------------------------------------------------------------------------------------------------
# Deciding branches for one concrete value of one quantity.  The length rules are statements of the form "for every
# announced length L outside the set S, no success return (no body read) can be reached".  Which spelling the code uses
# to cut the bad values off — `L.checked_sub(k)` matched / `?`-ed / `ok_or`-ed / filtered, `L < k`, `k > L`,
# `(L - k) % 4 != 0`, `L % 4 != 0`, `match L { K => … }`, a helper returning Option or Result, a flag kept in a local —
# does not matter: every branch whose condition is an arithmetic expression of L and constants is *evaluated* for a
# sample value of L (the samples surround every constant that occurs in such a condition, for every residue of the
# moduli that occur, so that a predicate piecewise constant between those constants is decided on each piece), the
# edges not taken are removed, and plain graph reachability over what remains answers the question.  A branch that
# cannot be evaluated keeps all its edges (over-approximation: it can only produce an alarm, never hide one).

_FAILED = "failed"          # the value of a None / Err: a checked operation that did not deliver
_INT_BITS = {"u8": 8, "u16": 16, "u32": 32, "u64": 64, "usize": 64, "u128": 128}
_NUM_FN = re.compile(r"^core::num::")
_ARITH = {"Add": lambda a, b: a + b, "Sub": lambda a, b: a - b, "Mul": lambda a, b: a * b,
          "Rem": lambda a, b: a % b if b else None, "Div": lambda a, b: a // b if b else None,
          "BitAnd": lambda a, b: a & b, "BitOr": lambda a, b: a | b, "BitXor": lambda a, b: a ^ b,
          "Shr": lambda a, b: a >> b if 0 <= b < 128 else None, "Shl": lambda a, b: None}


def _flow_sym(b):
    """Reaching-definition resolver (a local assigned on several paths is followed through the definition that reaches
    the point of use); the position-insensitive Sym if that is not available."""
    try:
        from props.C13 import FlowSym
        return FlowSym(b)
    except Exception:       # noqa
        return None


class _Eval:
    """Evaluation of terms for `leaf == v` (see the section comment).  Integer-valued terms give an int; Option /
    Result / ControlFlow valued terms give their payload (an int) or _FAILED; anything else gives None (unknown)."""

    def __init__(self, f, body, leaf, v, depth=0):
        self.f, self.body, self.leaf, self.v, self.depth = f, body, leaf, v, depth

    # -- integers and fallible integers ------------------------------------------------------------------------
    def val(self, t):
        t = strip_deep(t)
        if self.leaf(t):
            return self.v
        iv = int_value(t, self.f)
        if iv is not None:
            return iv
        k = t[0]
        if k == "mvar":
            return self.val(t[3])
        if k == "cast":
            x = self.val(t[1])
            bits = _INT_BITS.get(str(t[2]))
            return x & ((1 << bits) - 1) if isinstance(x, int) and bits and x >= 0 else x
        if k == "bin":
            return self._arith(t[1].replace("WithOverflow", "").replace("Unchecked", ""), t[2], t[3])
        if k == "field" and str(t[2]) == "0":
            base = t[1]
            if base[0] == "bin" and base[1].endswith("WithOverflow"):
                return self.val(base)
            if base[0] == "variant" and base[2] in ("Some", "Ok", "Continue"):
                x = self.val(base[1])
                return x if isinstance(x, int) else None
            return None
        if k == "agg":
            if t[2] in ("Some", "Ok", "Continue") and len(t[3]) == 1:
                return self.val(t[3][0][1])
            if t[2] in ("None", "Err", "Break"):
                return _FAILED
            return None
        if k != "call":
            return None
        info = t[3] or {}
        name, fn, trait = info.get("name"), info.get("fn") or "", info.get("trait") or ""
        a = t[2]
        if name == "branch" and trait.endswith("ops::Try") and a:
            return self.val(a[0])
        if _NUM_FN.match(fn) and len(a) == 2 and name and name.split("_")[0] in ("checked", "saturating", "strict", "unchecked"):
            op = {"add": "Add", "sub": "Sub", "mul": "Mul", "rem": "Rem", "div": "Div"}.get(name.split("_", 1)[1])
            x, y = self.val(a[0]), self.val(a[1])
            if op is None or not isinstance(x, int) or not isinstance(y, int):
                return None
            r = _ARITH[op](x, y)
            if name.startswith("checked"):
                return _FAILED if r is None or r < 0 else r
            if name.startswith("saturating"):
                return None if r is None else max(r, 0)
            return r if r is not None and r >= 0 else None
        if len(a) == 2 and trait.split("::")[-1] in ("Add", "Sub", "Mul", "Rem", "Div") and "::ops::" in trait:
            return self._arith(trait.split("::")[-1], a[0], a[1])
        if len(a) == 2 and name in ("min", "max") and (trait.endswith("cmp::Ord") or (info.get("res") or "").endswith("cmp::" + name)):
            x, y = self.val(a[0]), self.val(a[1])
            return (min if name == "min" else max)(x, y) if isinstance(x, int) and isinstance(y, int) else None
        opt, res = bool(_OPT_FN.match(fn)), bool(_RES_FN.match(fn))
        if (opt or res) and a:
            if name in ("unwrap", "expect", "unwrap_unchecked"):
                x = self.val(a[0])
                return x if isinstance(x, int) else None
            if name in ("unwrap_or", "unwrap_or_default") :
                x = self.val(a[0])
                if x == _FAILED:
                    return self.val(a[1]) if name == "unwrap_or" and len(a) == 2 else (0 if name == "unwrap_or_default" else None)
                return x
            if (opt and name in (_OPT_PAYLOAD_KEEPING - {"filter"}) | {"ok_or", "ok_or_else"}) or \
                    (res and name in _RES_PAYLOAD_KEEPING | {"ok"}):
                return self.val(a[0])
            if opt and name == "filter" and len(a) == 2:
                x = self.val(a[0])
                if not isinstance(x, int):
                    return x
                keep = self.closure_bool(a[1], x)
                return None if keep is None else (x if keep else _FAILED)
            if name in ("map", "and_then") and len(a) == 2:
                x = self.val(a[0])
                if x == _FAILED:
                    return _FAILED          # None stays None, Err stays Err
                return self.closure_val(a[1], x) if isinstance(x, int) else None
            return None
        if len(a) == 1 and name == "try_from" and trait.endswith("TryFrom"):
            return self.val(a[0])
        if len(a) == 1 and name in ("len", "size_of_val"):
            return self._image_len(a[0])
        if not a:
            return _const_fn_value(self.f, info.get("res"))
        return None

    def _arith(self, op, a, b):
        x, y = self.val(a), self.val(b)
        if op not in _ARITH or not isinstance(x, int) or not isinstance(y, int):
            return None
        r = _ARITH[op](x, y)
        return r if r is not None and r >= 0 else None      # an unchecked subtraction below zero panics or wraps: unknown

    def _image_len(self, t):
        """`x.as_ref().len()` / `size_of_val(&x)` of a local whose type has a compiler-computed layout (a packed PDU
        struct is its own byte image)."""
        t = strip_deep(t)
        while t[0] == "mvar":
            l = t[2]
            ty = self.body.local_ty(l) if isinstance(l, int) and l < len(self.body.locals) else None
            rec = self.f.adts.get((ty or "").lstrip("&").replace("mut ", "").strip())
            if rec and rec.get("size") is not None and "pack" in (rec.get("repr") or ""):
                return rec["size"]
            t = strip_deep(t[3])
        return None

    # -- booleans --------------------------------------------------------------------------------------------------
    def truth(self, t):
        from engine import orderlogic as OL
        t = strip_deep(t)
        a = OL.atom(t)
        if a[0] == "const":
            return a[1]
        if a[0] == "not":
            x = self.truth(t[2])
            return None if x is None else not x
        if a[0] == "cmp":
            x, y = self.val(a[2]), self.val(a[3])
            if not isinstance(x, int) or not isinstance(y, int):
                if a[1] in ("==", "!=") and _FAILED in (x, y) and None not in (x, y):
                    return (x == y) == (a[1] == "==")        # `opt == None`, `opt != Some(k)`
                return None
            return {"<": x < y, "<=": x <= y, ">": x > y, ">=": x >= y, "==": x == y, "!=": x != y}[a[1]]
        if t[0] == "mvar":
            return self.truth(t[3])
        if t[0] == "bin" and t[1] in ("BitAnd", "BitOr"):
            x, y = self.truth(t[2]), self.truth(t[3])
            if t[1] == "BitAnd":
                return False if False in (x, y) else (None if None in (x, y) else True)
            return True if True in (x, y) else (None if None in (x, y) else False)
        if t[0] == "call" and t[2]:
            info = t[3] or {}
            name, fn = info.get("name"), info.get("fn") or ""
            if (_OPT_FN.match(fn) or _RES_FN.match(fn)) and name in ("is_some", "is_ok", "is_none", "is_err"):
                st = self.status(t[2][0])
                return None if st is None else (st[1] == (name in ("is_some", "is_ok")))
            if (_OPT_FN.match(fn) or _RES_FN.match(fn)) and name in ("is_some_and", "is_ok_and", "is_none_or") and len(t[2]) == 2:
                x = self.val(t[2][0])
                if x == _FAILED:
                    return name == "is_none_or"
                return self.closure_bool(t[2][1], x) if isinstance(x, int) else None
            if _NUM_FN.match(fn) and name == "is_multiple_of" and len(t[2]) == 2:
                x, y = self.val(t[2][0]), self.val(t[2][1])
                return (x % y == 0 if y else x == 0) if isinstance(x, int) and isinstance(y, int) else None
        return None

    def closure_bool(self, ct, x):
        """Value of a predicate closure (`|v| v % 4 == 0`) on the element value x: its loop-free paths are read off its
        MIR and the one whose conditions hold gives the result."""
        return self._closure(ct, x, lambda ev, ret: ev.truth(ret))

    def _closure(self, ct, x, result):
        from engine import orderlogic as OL
        ct = strip(ct)
        cb = self.f.body(ct[1]) if ct[0] == "closure" else None
        if cb is None or cb.arg_count < 2 or self.depth > 2:
            return None
        sy = K.sym_of(cb)
        elem = strip_deep(sy.local(2))
        inner = _Eval(self.f, cb, lambda t: strip_deep(t) == elem, x, self.depth + 1)
        try:
            ps = OL.paths(cb, sy, max_paths=64)
        except OL.NotComparisonOnly:
            return None
        for conds, ret in ps:
            sat = True
            for a, want in conds:
                if a[0] == "switch":
                    return None
                got = inner._atom_truth(a)
                if got is None:
                    return None
                if got != want:
                    sat = False
                    break
            if sat:
                return None if ret is None else result(inner, ret)
        return None

    def closure_val(self, ct, x):
        """Value (int / _FAILED / None) of a mapping closure (`|l| if l % 4 == 0 { Some(l) } else { None }`) on x."""
        return self._closure(ct, x, lambda ev, ret: ev.val(ret))

    def _atom_truth(self, a):
        if a[0] == "const":
            return a[1]
        if a[0] == "not":
            x = self._atom_truth(a[1])
            return None if x is None else not x
        if a[0] == "cmp":
            return self.truth(("bin", {"<": "Lt", "<=": "Le", ">": "Gt", ">=": "Ge", "==": "Eq", "!=": "Ne"}[a[1]], a[2], a[3]))
        return None

    def ordering(self, t):
        """-1 / 0 / 1 for `a.cmp(&b)` (also `partial_cmp`, whose Some is then projected) of two evaluable integers."""
        t = strip_deep(t)
        while t[0] == "mvar" or (t[0] == "field" and str(t[2]) == "0" and t[1][0] == "variant" and t[1][2] == "Some"):
            t = strip_deep(t[3] if t[0] == "mvar" else t[1][1])
        if t[0] == "call" and len(t[2]) == 2 and (t[3] or {}).get("name") in ("cmp", "partial_cmp") and \
                ((t[3] or {}).get("trait") or "").split("::")[-1] in ("Ord", "PartialOrd"):
            x, y = self.val(t[2][0]), self.val(t[2][1])
            if isinstance(x, int) and isinstance(y, int):
                return (x > y) - (x < y)
        return None

    # -- which variant -------------------------------------------------------------------------------------------------
    def kind(self, t):
        """'option' | 'result' | 'flow' for a term built by std's fallible arithmetic and Option/Result combinators."""
        t = strip_deep(t)
        while t[0] == "mvar":
            t = strip_deep(t[3])
        if t[0] == "agg":
            return "option" if "option::Option" in str(t[1]) else "result" if "result::Result" in str(t[1]) else \
                "flow" if "ControlFlow" in str(t[1]) else None
        if t[0] != "call":
            return None
        info = t[3] or {}
        name, fn = info.get("name"), info.get("fn") or ""
        if name == "branch" and (info.get("trait") or "").endswith("ops::Try"):
            return "flow"
        if _OPT_FN.match(fn):
            return "result" if name in ("ok_or", "ok_or_else") else "option"
        if _RES_FN.match(fn):
            return "option" if name in ("ok", "err") else "result"
        if _NUM_FN.match(fn) and (name or "").startswith("checked_"):
            return "option"
        if name == "try_from" and (info.get("trait") or "").endswith("TryFrom"):
            return "result"
        return None

    def status(self, t):
        """(kind, delivered?) of an Option / Result / ControlFlow valued term; None if unknown.  The announced length
        itself (`pdu_len()?`) is left open."""
        t = strip_deep(t)
        if self.leaf(t):
            return None
        kd = self.kind(t)
        if kd is None:
            return None
        x = self.val(t)
        if isinstance(x, int):
            return (kd, True)
        if x == _FAILED:
            return (kd, False)
        # combinators that keep the variant but not the payload
        u = t
        while u[0] == "mvar":
            u = strip_deep(u[3])
        if u[0] == "call" and u[2]:
            info = u[3] or {}
            name, fn = info.get("name"), info.get("fn") or ""
            keeps = (name == "branch") or (_OPT_FN.match(fn) and name in ("map", "inspect", "ok_or", "ok_or_else")) or \
                (_RES_FN.match(fn) and name in ("map", "map_err", "inspect", "inspect_err", "ok"))
            if keeps:
                st = self.status(u[2][0])
                return None if st is None else (kd, st[1])
        return None


def _const_fn_value(f, res, depth=0):
    """Value of a parameterless function of the crate that returns a constant expression (`T::size()`)."""
    gb = f.body(res) if res else None
    if gb is None or gb.arg_count != 0 or gb.is_coroutine or depth > 2:
        return None
    vals = [v for _, _, v in success_values(gb)]
    return int_value(vals[0], f, depth) if len(vals) == 1 else None


_FLAGS = {}


def flag_threading(b):
    """{block: successor} for blocks that set a flag local to a constant and go straight to the switch on that flag:
    `matches!(x, P)`, `let ok = if c { true } else { false }; if ok { … }` leave `_t = const true` / `_t = const false`
    joined in front of `switchInt(_t)`.  Which arm of that switch runs is decided where the constant is assigned, so the
    assigning block is given the arm as its successor (the join block does nothing else)."""
    ent = _FLAGS.get(id(b))
    if ent is not None and ent[0] is b:
        return ent[1]
    out = {}
    defs = b.defs()
    for j, blk in enumerate(b.blocks):
        t = blk["term"]
        if t["t"] != "switch" or blk.get("cleanup"):
            continue
        l, proj = _operand_local(t.get("discr"))
        if l is None or proj or l <= b.arg_count or any(st["s"] == "assign" for st in blk["stmts"]):
            continue
        ds = defs.get(l, [])
        if len(ds) < 2 or any(d[2] != "assign" for d in ds) or l in K.sym_of(b)._mutb:
            continue
        cand = {}
        for d in ds:
            rv = d[3]["rv"]
            k = rv.get("op", {}).get("k") if rv["r"] == "use" else None
            tt = b.term(d[0])
            if k is None or "v" not in k or isinstance(k["v"], (str, float)) or tt["t"] != "goto" or tt["target"] != j:
                cand = None
                break
            later = [x for x in ds if x[0] == d[0] and x is not d and isinstance(x[1], int) and isinstance(d[1], int) and x[1] > d[1]]
            if later:
                continue
            cand[d[0]] = edge_for(b, j, int(k["v"]))
        if cand:
            out.update(cand)
    _FLAGS[id(b)] = (b, out)
    return out


def reach_threaded(b, removed_blocks=(), removed_edges=()):
    """b.reachable(0, …) with the flag joins of flag_threading() decided."""
    thr = flag_threading(b)
    if not thr:
        return set(b.reachable(0, removed_blocks=removed_blocks, removed_edges=removed_edges))
    rb, re_ = set(removed_blocks), set(removed_edges)
    seen, work = set(), [0]
    while work:
        x = work.pop()
        if x in seen or x in rb:
            continue
        seen.add(x)
        for y in ([thr[x]] if x in thr else b.succs(x)):
            if (x, y) not in re_ and y not in seen:
                work.append(y)
    return seen


class ValueSplit:
    """Reachability in `b` per value of the quantity `leaf` (see the section comment)."""

    def __init__(self, f, b, leaf, extra=()):
        self.f, self.b, self.leaf = f, b, leaf
        self.oc = outcome(b)
        fs = _flow_sym(b)
        self.tests = []             # (block, discriminant term, is_bool)
        consts, moduli = set(extra), {1}
        for bi, blk in enumerate(b.blocks):
            t = blk["term"]
            if t["t"] != "switch" or blk.get("cleanup"):
                continue
            d = None
            if fs is not None:
                try:
                    d = strip_deep(fs.at(bi, "term").operand(t["discr"]))
                except Exception:       # noqa
                    d = None
            if d is None or not any(leaf(x) for x in walk(d)):
                d2 = strip_deep(self.oc.sym.operand(t["discr"]))
                if d is None or any(leaf(x) for x in walk(d2)):
                    d = d2
            if not any(leaf(x) for x in walk(d)):
                continue
            self.tests.append((bi, d, t.get("dty") == "bool"))
            for x in self._subterms(d):
                iv = int_value(x, f)
                if iv is not None and 0 <= iv < (1 << 40):
                    consts.add(iv)
                r = _rem_of(x, f) if x[0] in ("bin", "call") else None
                if r and r[1]:
                    moduli.add(r[1])
                if x[0] == "call" and (x[3] or {}).get("name") in ("is_multiple_of", "checked_rem") and len(x[2]) == 2 and int_value(x[2][1], f):
                    moduli.add(int_value(x[2][1], f))
        span = 1
        for m in moduli:
            if m < 64:
                span = span * m // _gcd(span, m)
        span = min(span, 64)
        self.samples = {0, 1, (1 << 16) - 1, 1 << 16, (1 << 32) - 1}
        for c in consts | {0}:
            for base in (c, c + sum(consts), 2 * c, c + (1 << 20) * span):
                self.samples.update(x for x in range(base - span - 1, base + 2 * span + 2) if 0 <= x < (1 << 32))
        self._memo = {}
        self._taken = {}

    def _subterms(self, d):
        """Sub-terms of a condition, including the body of a predicate closure passed to a combinator."""
        for x in walk(d):
            yield x
            if x[0] == "closure":
                cb = self.f.body(x[1])
                if cb is not None:
                    sy = K.sym_of(cb)
                    for blk in cb.blocks:
                        for st in blk["stmts"]:
                            if st["s"] == "assign":
                                for y in walk(strip_deep(sy.rvalue(st["rv"]))):
                                    yield y

    def decided(self, v):
        """{block: the one edge target taken} for the tests whose outcome is known when leaf == v."""
        if v in self._taken:
            return self._taken[v]
        ev = _Eval(self.f, self.b, self.leaf, v)
        out = {}
        for bi, d, is_bool in self.tests:
            tb = None
            if is_bool:
                x = ev.truth(d)
                if x is not None:
                    fe, te = switch_bool_edges(self.b, bi)
                    tb = te if x else fe
            elif d[0] == "discr":
                st = ev.status(d[1])
                o = ev.ordering(d[1]) if st is None else None
                if st is not None:
                    fail = _FAIL_DISCR[st[0]]
                    tb = edge_for(self.b, bi, (1 - fail) if st[1] else fail)
                elif o is not None:
                    listed = [val for val, _ in self.b.term(bi)["targets"]]
                    tb = edge_for(self.b, bi, next((val for val in listed if (val == o) or (o == -1 and val in (255, -1, (1 << 64) - 1, (1 << 128) - 1))), "other"))
            else:
                x = ev.val(d)
                if isinstance(x, int):
                    tb = edge_for(self.b, bi, x)
            if tb is not None:
                out[bi] = tb
        self._taken[v] = out
        return out

    def reach(self, v, success_only=True):
        dec = self.decided(v)
        removed = frozenset((bi, tb) for bi, keep in dec.items() for _, tb in self.b.switch_edges(bi) if tb != keep)
        key = (removed, success_only)
        if key not in self._memo:
            self._memo[key] = reach_threaded(self.b, removed_blocks=self.oc.fail_blocks if success_only else (), removed_edges=removed)
        return self._memo[key]

    def succeeds(self, v):
        return bool(self.reach(v) & set(self.b.return_blocks()))


def _gcd(a, b):
    while b:
        a, b = b, a % b
    return a


# ---------------------------------------------------------------------------------------------------------------
# dispatch on a one-octet header field

def is_header_field(f, t, field):
    """`h.<field>` of a `Header`, or a call of an accessor of `Header` that returns just that field."""
    t = strip_deep(t)
    while t[0] == "cast":
        t = strip_deep(t[1])
    if t[0] == "field" and t[2] == field:
        return (t[3] if len(t) > 3 else None) in (None, P + "Header")
    if t[0] == "call" and len(t[2]) == 1:
        res = (t[3] or {}).get("res")
        r = f.fns.get(res) or {}
        gb = f.body(res) if r.get("impl_adt") == P + "Header" else None
        if gb is not None and gb.arg_count == 1:
            vals = [v for _, _, v in success_values(gb)]
            return len(vals) == 1 and vals[0][0] == "field" and vals[0][2] == field and strip_deep(vals[0][1])[0] == "param"
    return False


def octet_split(f, b, is_q):
    """{v: blocks reachable from the entry when the octet Q (is_q) has value v, failure assignments removed} for all 256
    values; None if Q is never tested.  Tests understood: a switch on Q, and comparisons of Q with a constant."""
    from engine import orderlogic as OL
    oc = outcome(b)
    sym = oc.sym
    tests = []
    for bi, blk in enumerate(b.blocks):
        t = blk["term"]
        if t["t"] != "switch" or blk.get("cleanup"):
            continue
        d = sym.operand(t["discr"])
        if t.get("dty") == "bool":
            a, truth = OL.atom(d), True
            while a[0] == "not":
                a, truth = a[1], not truth
            if a[0] != "cmp":
                continue
            if is_q(a[2]) and int_value(a[3], f) is not None:
                op, c = a[1], int_value(a[3], f)
            elif is_q(a[3]) and int_value(a[2], f) is not None:
                op, c = {"<": ">", "<=": ">=", ">": "<", ">=": "<=", "==": "==", "!=": "!="}[a[1]], int_value(a[2], f)
            else:
                continue
            tests.append((bi, op, c, truth))
        elif is_q(d):
            tests.append((bi, None, None, None))
    if not tests:
        return None
    out, memo = {}, {}
    for v in range(256):
        removed = set()
        for bi, op, c, truth in tests:
            if op is None:
                taken = edge_for(b, bi, v)
            else:
                val = {"<": v < c, "<=": v <= c, ">": v > c, ">=": v >= c, "==": v == c, "!=": v != c}[op]
                fe, te = switch_bool_edges(b, bi)
                taken = te if val == truth else fe
            removed |= {(bi, tb) for _, tb in b.switch_edges(bi) if tb != taken}
        key = frozenset(removed)
        if key not in memo:
            memo[key] = reach_threaded(b, removed_blocks=oc.fail_blocks, removed_edges=removed)
        out[v] = memo[key]
    return out


def dispatch_by_header_octet(f, b, field, want):
    """`want` = {value: reader}: exactly these values of the header field can end in success, and value v reaches the
    `read_payload` of its own reader and of no other."""
    split = octet_split(f, b, lambda t: is_header_field(f, t, field))
    if split is None:
        return False, "no test of the header's %s in %s" % (field, b.name)
    rets = set(b.return_blocks())
    readers = [(c.bb, c.res) for c in b.calls() if (c.res or "").startswith(P) and (c.res or "").endswith("::read_payload") and not b.is_cleanup(c.bb)]
    accepted = sorted(v for v, r in split.items() if r & rets)
    wrong = {}
    for v, rd in want.items():
        got = sorted({res for bb, res in readers if bb in split[v]})
        if got != [rd]:
            wrong[v] = got
    ok = accepted == sorted(want) and not wrong
    return ok, {"accepted": accepted[:12], "expected": sorted(want), "wrong_reader": wrong}


# ---------------------------------------------------------------------------------------------------------------
# what a function returns, across private helpers

def _tmap(t, fn):
    """Rebuild term `t`, replacing every sub-term x for which fn(x) is not None by fn(x)."""
    r = fn(t)
    if r is not None:
        return r
    k = t[0]
    if k == "field":
        return (k, _tmap(t[1], fn), t[2], t[3] if len(t) > 3 else None)
    if k == "variant":
        return (k, _tmap(t[1], fn), t[2])
    if k == "mvar":
        return (k, t[1], t[2], _tmap(t[3], fn))
    if k == "index":
        return (k, _tmap(t[1], fn), _tmap(t[2], fn))
    if k == "call":
        return (k, t[1], tuple(_tmap(a, fn) for a in t[2]), t[3])
    if k == "bin":
        return (k, t[1], _tmap(t[2], fn), _tmap(t[3], fn))
    if k == "un":
        return (k, t[1], _tmap(t[2], fn))
    if k == "cast":
        return (k, _tmap(t[1], fn), t[2])
    if k in ("discr", "len"):
        return (k, _tmap(t[1], fn))
    if k == "agg":
        return (k, t[1], t[2], tuple((n, _tmap(v, fn)) for n, v in t[3]))
    if k == "closure":
        return (k, t[1], tuple(_tmap(a, fn) for a in t[2]))
    return t


def _split_vars(t, sy, fuel=4, limit=32):
    """A local assigned on several paths (`let x = if c { a } else { b }`, the result slot of a `match`) stands for
    each of its definitions: one alternative of `t` per definition."""
    if fuel <= 0:
        return [t]
    v = next((x for x in walk(t) if x[0] == "var" and len(x) > 2), None)
    if v is None:
        return [t]
    defs = [strip_deep(d) for _, d in sy.defs_of_var(v[2])]
    defs = [d for d in defs if d[0] != "unknown" and not any(x == v for x in walk(d))]
    if not defs:
        return [t]
    out = []
    for d in defs:
        out += _split_vars(_tmap(t, lambda x, d=d: d if x == v else None), sy, fuel - 1, limit)
        if len(out) >= limit:
            break
    return out[:limit]


def _private_callee(f, t):
    if t[0] != "call":
        return None
    res = (t[3] or {}).get("res")
    r = f.fns.get(res) if res else None
    if not r or not r.get("has_body") or r.get("exported") or r.get("async") or r.get("impl_trait"):
        return None
    gb = f.body(res)
    if gb is None or gb.is_coroutine or gb.arg_count != len(t[2]):
        return None
    return gb


def returned_terms(f, name, depth=0, limit=48):
    """Terms `name` may return on success, in the vocabulary of its own parameters.  Locals with several definitions
    are split (one alternative each); a call of a private, non-async function of the crate is replaced by what that
    function returns, its parameters substituted by the arguments (private helpers are not anchors: only what reaches
    the public function's result counts)."""
    b = f.body(name)
    if b is None:
        return []
    sy = K.sym_of(b)
    out = []
    for _, _, t in success_values(b):
        for alt in _split_vars(strip_deep(t), sy):
            out += _expand_private_calls(f, alt, depth, limit, frozenset([name]))
    return out[:limit]


def _expand_private_calls(f, t, depth, limit, stack):
    if depth >= 5:
        return [t]
    c = gb = None
    for x in walk(t):
        g = _private_callee(f, x)
        if g is not None and g.name not in stack:
            c, gb = x, g
            break
    if c is None:
        return [t]
    mapping = {}
    for i in range(1, gb.arg_count + 1):
        mapping[gb.local_name(i) or "_%d" % i] = c[2][i - 1]
    inner = [K._subst(r, mapping) for r in returned_terms(f, gb.name, depth + 1, limit)]
    if not inner:
        return [t]
    out = []
    for r in inner:
        new = _tmap(t, lambda x, r=r: r if x == c else None)
        out += _expand_private_calls(f, new, depth, limit, stack | {gb.name})
        if len(out) >= limit:
            break
    return out[:limit]


def _closure_returns(f, ct, arg):
    """Terms the one-parameter closure `ct` = ('closure', def, captures) may return on success, in the vocabulary of its
    creator: its parameter spelt as `arg`, its captures as the values captured.  None if that cannot be read (no body,
    a capture that is not a plain field of the environment, a local of the closure left unresolved)."""
    cb = f.body(ct[1])
    if cb is None or cb.arg_count != 2 or cb.is_coroutine:
        return None
    sy = K.sym_of(cb)
    elem = strip_deep(sy.local(2))
    caps = {}
    for name, pl in cb.rec.get("upvars", []):
        idx = next((pe[1] for pe in pl.get("p", []) if pe and pe[0] == "f"), None)
        try:
            caps[name] = ct[2][int(idx)]
        except (TypeError, ValueError, IndexError):
            return None
    out = []
    for _, _, t in success_values(cb):
        for alt in _split_vars(strip_deep(t), sy):
            # (a local of the closure that is not resolved to its parameter / captures has no spelling outside it)
            if any(x[0] in ("var", "unknown") or (x[0] == "upvar" and x[1] not in caps) for x in walk(alt)):
                return None
            out.append(strip_deep(_tmap(alt, lambda x: arg if x == elem else caps.get(x[1]) if x[0] == "upvar" else None)))
    return out or None


def through_closures(f, t, fuel=8, limit=32):
    """`t` with the closures of `R.map(|x| e)` and `R.and_then(|x| e)` (Option and Result) read: by the contract of the
    two combinators the closure runs only when R delivered, on what R delivered, so `R.map(|x| e)` is `Ok(e[x := R↓Ok.0])`
    and `R.and_then(|x| e)` is `e[x := R↓Ok.0]` as far as the delivered value goes (that R must have delivered stays
    written in the projection, which canon_checked spells like `R?`).  One alternative per value the closure may return;
    a closure that cannot be read stays as it is."""
    if fuel <= 0:
        return [t]
    for x in walk(t):
        if not (x[0] == "call" and len(x[2]) == 2 and (x[3] or {}).get("name") in ("map", "and_then")):
            continue
        fn = (x[3] or {}).get("fn") or ""
        ok_variant, adt = ("Ok", "std::result::Result") if _RES_FN.match(fn) else ("Some", "std::option::Option") if _OPT_FN.match(fn) else (None, None)
        ct = strip(x[2][1])
        if ok_variant is None or ct[0] != "closure":
            continue
        rets = _closure_returns(f, ct, ("field", ("variant", x[2][0], ok_variant), "0", None))
        if not rets:
            continue
        out = []
        for r in rets:
            v = r if x[3]["name"] == "and_then" else ("agg", adt, ok_variant, (("0", r),))
            out += through_closures(f, strip_deep(_tmap(t, lambda y, v=v: v if y == x else None)), fuel - 1, limit)
            if len(out) >= limit:
                break
        return out[:limit]
    return [t]


# ---------------------------------------------------------------------------------------------------------------
# `remaining -= n` in a cursor loop

def _is_read_count(t):
    """The byte count a plain `AsyncReadExt::read(..).await?` delivered (whatever it is bound to)."""
    t = strip_deep(t)
    if t[0] == "cast":
        t = strip_deep(t[1])
    if t[0] == "call" and (t[3] or {}).get("name") == "read":
        return False            # the future itself, not what it delivers
    r = _peel_ready_ok(t)
    return r[0] == "call" and (r[3] or {}).get("name") == "read" and ((r[3] or {}).get("trait") or "").endswith("AsyncReadExt")


def _peel_ready_ok(t):
    """The value a future / Result / Poll finally delivers: `Try::branch(poll(fut)↓Ready.0)↓Continue.0` → fut."""
    t = strip_deep(t)
    while True:
        if t[0] == "mvar":
            t = strip_deep(t[3])
        elif t[0] == "field" and t[2] == "0" and t[1][0] == "variant" and t[1][2] in ("Continue", "Ok", "Ready"):
            t = strip_deep(t[1][1])
        elif t[0] == "call" and t[2] and (((t[3] or {}).get("name") == "branch" and ((t[3] or {}).get("trait") or "").endswith("ops::Try")) or
                                          ((t[3] or {}).get("name") == "poll" and ((t[3] or {}).get("trait") or "").endswith("Future"))):
            t = strip_deep(t[2][0])
        else:
            return t


def cursor_sub_cannot_wrap(b, bi):
    """The checked subtraction `A - n` ending block `bi` cannot wrap because n is the count returned by
    `AsyncReadExt::read` into a slice cut to `..min(A, _)` (read returns at most the length of the slice it is given —
    tokio's contract, in the trusted base) and A is not assigned between the `min` and the subtraction.  This is the
    arithmetic face of R-FLOW read-is-bounded-by-what-is-missing.  Returns the reason or None."""
    t = b.term(bi)
    if t["t"] != "assert" or t.get("kind") != "Overflow:Sub" or len(t.get("ops", [])) != 2:
        return None
    sy = K.sym_of(b)
    a, n = (strip_deep(sy.operand(o)) for o in t["ops"])
    if a[0] != "var" or len(a) < 3:
        return None
    rd = _peel_ready_ok(n)
    if not (rd[0] == "call" and (rd[3] or {}).get("name") == "read" and ((rd[3] or {}).get("trait") or "").endswith("AsyncReadExt") and len(rd[2]) == 2):
        return None
    buf = strip_deep(rd[2][1])
    while buf[0] == "mvar":
        buf = strip_deep(buf[3])
    if not (buf[0] == "call" and (buf[3] or {}).get("name") in ("get_unchecked_mut", "index_mut", "get_mut") and len(buf[2]) == 2):
        return None
    rng = strip_deep(buf[2][1])
    if not (rng[0] == "agg" and rng[1].endswith("ops::RangeTo") and rng[3] and rng[3][0][0] == "end"):
        return None
    end = strip_deep(rng[3][0][1])
    if not (end[0] == "call" and (end[3] or {}).get("name") == "min" and len(end[2]) == 2 and
            ((end[3] or {}).get("res") in ("std::cmp::min", "core::cmp::min") or ((end[3] or {}).get("trait") or "").endswith("cmp::Ord"))):
        return None
    if not any(strip_deep(x) == a for x in end[2]):
        return None
    mb = (end[3] or {}).get("bb")
    if mb is None:
        return None
    # A keeps its value from the `min` to the subtraction
    between = set(b.reachable(mb, removed_blocks=[bi]))
    for d in b.defs().get(a[2], []):
        if d[0] in between and d[0] != mb and bi in b.reachable(d[0]):
            return None
    return "the subtrahend is the count `read` returned for a slice cut to ..min(%s, _)" % render(a)


def _assigned_locals(t):
    return {z[2] for z in walk(t) if z[0] in ("var", "mvar") and len(z) > 2}


def guarded_sub_cannot_wrap(b, bi):
    """The checked subtraction `A - B` ending block `bi` cannot wrap: the block is entered only over the edge of a test
    on which `B < A` / `B <= A` / `B == A` holds (whichever way the comparison is written, `while B < A { … A - B … }`),
    and nothing is assigned between the test and the subtraction.  Returns the reason or None."""
    from engine import orderlogic as OL
    t = b.term(bi)
    if t["t"] != "assert" or t.get("kind") != "Overflow:Sub" or len(t.get("ops", [])) != 2:
        return None
    sy = K.sym_of(b)
    x, y = (strip_deep(sy.operand(o)) for o in t["ops"])
    preds = [p for p in range(len(b.blocks)) if bi in b.succs(p) and not b.is_cleanup(p)]
    if len(preds) != 1 or b.term(preds[0])["t"] != "switch" or b.term(preds[0]).get("dty") != "bool":
        return None
    p = preds[0]
    a, truth = OL.atom(sy.operand(b.term(p)["discr"])), True
    while a[0] == "not":
        a, truth = a[1], not truth
    fe, te = switch_bool_edges(b, p)
    if a[0] != "cmp" or fe == te or bi not in (fe, te):
        return None
    op = a[1] if truth == (te == bi) else {"<": ">=", "<=": ">", ">": "<=", ">=": "<", "==": "!=", "!=": "=="}[a[1]]
    if not ((a[2] == y and a[3] == x and op in ("<", "<=", "==")) or (a[2] == x and a[3] == y and op in (">", ">=", "=="))):
        return None
    # the operands of the test are the operands of the subtraction: no local they are read from is assigned (and nothing
    # is written through a reference) in the testing block or in the subtracting block
    locs = _assigned_locals(x) | _assigned_locals(y)
    for blk in (p, bi):
        for st in b.blocks[blk]["stmts"]:
            if st["s"] == "assign" and (st["pl"]["l"] in locs or any(pe and pe[0] == "d" for pe in st["pl"]["p"])):
                return None
    return "the subtraction is entered only over the edge on which %s <= %s" % (render(y)[:40], render(x)[:40])


def cursor_add_cannot_wrap(b, bi):
    """The checked addition `S + n` ending block `bi` cannot wrap because n is the count returned by `AsyncReadExt::read`
    into a slice cut to `..min(T - S, _)` (read returns at most the length of the slice it is given — tokio's contract, in
    the trusted base), `T - S` is the overflow-checked difference (so it is exact and S + n <= T), and S is not assigned
    between the `min` and the addition.  The counting-up face of cursor_sub_cannot_wrap.  Returns the reason or None."""
    t = b.term(bi)
    if t["t"] != "assert" or t.get("kind") != "Overflow:Add" or len(t.get("ops", [])) != 2:
        return None
    sy = K.sym_of(b)
    u, v = (strip_deep(sy.operand(o)) for o in t["ops"])
    for s, n in ((u, v), (v, u)):
        if s[0] not in ("var", "mvar") or len(s) < 3:
            continue
        rd = _peel_ready_ok(n)
        if not (rd[0] == "call" and (rd[3] or {}).get("name") == "read" and ((rd[3] or {}).get("trait") or "").endswith("AsyncReadExt") and len(rd[2]) == 2):
            continue
        buf = strip_deep(rd[2][1])
        while buf[0] == "mvar":
            buf = strip_deep(buf[3])
        if not (buf[0] == "call" and (buf[3] or {}).get("name") in ("get_unchecked_mut", "index_mut", "get_mut") and len(buf[2]) == 2):
            continue
        rng = strip_deep(buf[2][1])
        if not (rng[0] == "agg" and str(rng[1]).endswith("ops::RangeTo") and rng[3] and str(rng[3][0][0]) == "end"):
            continue
        end = strip_deep(rng[3][0][1])
        if not _is_min_call(end):
            continue
        mb = (end[3] or {}).get("bb")
        for a in end[2]:
            a = strip_deep(a)
            if mb is not None and a[0] == "field" and str(a[2]) == "0" and a[1][0] == "bin" and a[1][1] == "SubWithOverflow" and strip_deep(a[1][3]) == s:
                # S keeps its value from the `min` to the addition
                between = set(b.reachable(mb, removed_blocks=[bi]))
                if any(d[0] in between and bi in b.reachable(d[0]) for d in b.defs().get(s[2], [])):
                    return None
                return "the addend is the count `read` returned for a slice cut to ..min(_ - %s, _)" % render(s)
    return None


def length_sub_cannot_wrap(f, b, bi):
    """The checked subtraction ending block `bi` is between expressions of the announced PDU length and constants, and
    for every value of the length for which it would go below zero the block cannot be reached (the too-short case has
    been turned away before, however that test is spelt).  Returns the reason or None."""
    t = b.term(bi)
    if t["t"] != "assert" or t.get("kind") != "Overflow:Sub" or len(t.get("ops", [])) != 2:
        return None
    fs = _flow_sym(b)
    sy = fs.at(bi, "term") if fs is not None else K.sym_of(b)
    x, y = (strip_deep(sy.operand(o)) for o in t["ops"])
    if not any(_is_announced_length(z) for z in walk(x)) and not any(_is_announced_length(z) for z in walk(y)):
        return None
    vs = ValueSplit(f, b, _is_announced_length)
    if not vs.tests:
        return None
    n = 0
    for v in sorted(vs.samples):
        ev = _Eval(f, b, _is_announced_length, v)
        xv, yv = ev.val(x), ev.val(y)
        if not isinstance(xv, int) or not isinstance(yv, int):
            if bi in vs.reach(v, success_only=False):
                return None
            continue
        if xv < yv:
            n += 1
            if bi in vs.reach(v, success_only=False):
                return None
    return "for every announced length that would make it wrap (%d sampled) the subtraction is unreachable" % n if n else None


def _prefix_within_own_length(base, rng):
    rng = strip_deep(rng)
    if not (rng[0] == "agg" and str(rng[1]).split("::")[-1] == "RangeTo" and rng[3] and str(rng[3][0][0]) == "end"):
        return False
    end = _value_keeping(rng[3][0][1])
    if not _is_min_call(end):
        return False

    def peel(x):
        x = strip_deep(x)
        while x[0] == "mvar":
            x = strip_deep(x[3])
        return x
    for a in end[2]:
        a = _value_keeping(a)
        if a[0] == "call" and len(a[2]) == 1 and (a[3] or {}).get("name") == "len" and peel(a[2][0]) == peel(base):
            return True
    return False


class _CursorSub:
    """What C04's site discipline sees of the context: an arithmetic-overflow site it cannot discharge by its own rules
    or its reviewed table is given to cursor_sub_cannot_wrap (every subtraction at that place must be of that form)."""

    def __init__(self, ctx, f):
        self._ctx, self._f = ctx, f

    def __getattr__(self, name):
        return getattr(self._ctx, name)

    def _asserts_at(self, fn, kind, where):
        """(body, block) of every assert of that kind at that source position in (the bodies of) function `fn`."""
        out = []
        for name, b in self._f.bodies.items():
            if root_fn(self._f, name) != fn:
                continue
            for bi, blk in enumerate(b.blocks):
                tt = blk["term"]
                if tt["t"] == "assert" and tt.get("kind") == kind and not blk.get("cleanup") and b.where(bi) == where:
                    out.append((b, bi))
        return out

    def ob(self, rule, key, ok, what, where=None, detail=None, nontrivial=True):
        if not ok and rule == "R-PANIC" and "|assert:Overflow:Sub|" in key and where:
            fn = key.split("|", 1)[0]
            why, n = [], 0
            for name, b in self._f.bodies.items():
                if root_fn(self._f, name) != fn:
                    continue
                for bi, blk in enumerate(b.blocks):
                    tt = blk["term"]
                    if tt["t"] == "assert" and tt.get("kind") == "Overflow:Sub" and not blk.get("cleanup") and b.where(bi) == where:
                        n += 1
                        why.append(cursor_sub_cannot_wrap(b, bi))
            if n and all(why):
                ok = True
                what = "%s [C07 cursor rule: %s]" % (what, why[0])
            elif n and not any(why):
                # `announced_length - k` where every length below k has been turned away before (ValueSplit)
                why = []
                for name, b in self._f.bodies.items():
                    if root_fn(self._f, name) != fn:
                        continue
                    for bi, blk in enumerate(b.blocks):
                        tt = blk["term"]
                        if tt["t"] == "assert" and tt.get("kind") == "Overflow:Sub" and not blk.get("cleanup") and b.where(bi) == where:
                            why.append(length_sub_cannot_wrap(self._f, b, bi))
                if why and all(why):
                    ok = True
                    what = "%s [C07 length rule: %s]" % (what, why[0])
                else:
                    # `A - B` entered only over the edge of a test on which B <= A
                    why = [guarded_sub_cannot_wrap(b, bi) for b, bi in self._asserts_at(fn, "Overflow:Sub", where)]
                    if why and all(why):
                        ok = True
                        what = "%s [C07 guard rule: %s]" % (what, why[0])
        if not ok and rule == "R-PANIC" and "|assert:Overflow:Add|" in key and where:
            # `skipped += n` in a cursor loop that counts up
            why = [cursor_add_cannot_wrap(b, bi) for b, bi in self._asserts_at(key.split("|", 1)[0], "Overflow:Add", where)]
            if why and all(why):
                ok = True
                what = "%s [C07 cursor rule: %s]" % (what, why[0])
        if not ok and rule == "R-PANIC" and where and re.search(r"\|call:index(_mut)?\|", key):
            # `buf[..min(n, buf.len())]` / `buf[a..min(..)]`-free form: a prefix cut at the minimum of something and the
            # buffer's own length is within bounds
            fn = key.split("|", 1)[0]
            res = []
            for name, b in self._f.bodies.items():
                if root_fn(self._f, name) != fn:
                    continue
                for c in b.calls():
                    if c.name in ("index", "index_mut") and not b.is_cleanup(c.bb) and c.where() == where and len(c.args) == 2:
                        base, rng = K.arg_terms(c)
                        res.append(_prefix_within_own_length(base, rng))
            if res and all(res):
                ok = True
                what = "%s [C07: prefix cut at min(_, the buffer's own length)]" % what
        m = re.search(r"\|assert:(RemainderByZero|DivisionByZero)\|", key) if (not ok and rule == "R-PANIC" and where) else None
        if m:
            # `x % size_of::<u32>()`, `x / LIMIT`: the divisor is a non-zero constant expression
            fn = key.split("|", 1)[0]
            res = []
            for name, b in self._f.bodies.items():
                if root_fn(self._f, name) != fn:
                    continue
                sy = K.sym_of(b)
                for bi, blk in enumerate(b.blocks):
                    tt = blk["term"]
                    if tt["t"] == "assert" and tt.get("kind") == m.group(1) and not blk.get("cleanup") and b.where(bi) == where:
                        c = strip_deep(sy.operand(tt["cond"]))
                        d = None
                        if c[0] == "bin" and c[1] == "Eq" and tt.get("expected") is False:
                            d = int_value(c[2], self._f) if int_value(c[3], self._f) == 0 else \
                                (int_value(c[3], self._f) if int_value(c[2], self._f) == 0 else None)
                        res.append(d not in (None, 0))
            if res and all(res):
                ok = True
                what = "%s [C07: the divisor is a non-zero constant]" % what
        return self._ctx.ob(rule, key, ok, what, where=where, detail=detail, nontrivial=nontrivial)


# ---------------------------------------------------------------------------------------------------------------
# integer-linear reading of a length expression

def _value_keeping(t):
    """Peel wrappers that deliver the number they are given when they deliver at all: casts, `try_from(x).unwrap()`,
    `opt.expect(..)`, `x?`, the `.0` of a checked operation."""
    while True:
        t = strip_deep(t)
        if t[0] == "cast":
            t = t[1]
        elif t[0] == "call" and t[2] and (t[3] or {}).get("name") in ("unwrap", "expect", "unwrap_unchecked") and \
                (_OPT_FN.match((t[3] or {}).get("fn") or "") or _RES_FN.match((t[3] or {}).get("fn") or "")):
            t = t[2][0]
        elif t[0] == "call" and len(t[2]) == 1 and (t[3] or {}).get("name") == "try_from" and ((t[3] or {}).get("trait") or "").endswith("TryFrom"):
            t = t[2][0]
        elif t[0] == "call" and t[2] and (t[3] or {}).get("name") == "branch" and ((t[3] or {}).get("trait") or "").endswith("ops::Try"):
            t = t[2][0]
        elif t[0] == "field" and t[2] == "0" and t[1][0] == "variant" and t[1][2] in ("Some", "Ok", "Continue"):
            t = t[1][1]
        elif t[0] == "field" and t[2] == "0" and t[1][0] == "bin" and t[1][1].endswith("WithOverflow"):
            t = t[1]
        else:
            return t


def linear(t, f):
    """{leaf term: coefficient, None: constant} for an expression built from integer constants, `+`, `-`, `*` by a
    constant (operators, checked_* and the overflow-checking forms alike) and opaque leaves; None if it is not linear."""
    t = _value_keeping(t)
    v = int_value(t, f)
    if v is not None:
        return {None: v}
    op = a = b = None
    if t[0] == "bin":
        op, a, b = t[1].replace("WithOverflow", ""), t[2], t[3]
    elif t[0] == "call" and len(t[2]) == 2 and ((t[3] or {}).get("fn") or "").startswith("core::num::") and \
            (t[3] or {}).get("name") in ("checked_add", "checked_sub", "checked_mul", "saturating_add", "wrapping_add"):
        op, a, b = {"add": "Add", "sub": "Sub", "mul": "Mul"}[t[3]["name"].split("_")[1]], t[2][0], t[2][1]
    if op in ("Add", "Sub", "Mul"):
        x, y = linear(a, f), linear(b, f)
        if x is None or y is None:
            return None
        if op == "Mul":
            if set(x) <= {None}:
                x, y = y, x
            if not set(y) <= {None}:
                return None
            k = y.get(None, 0)
            return {key: c * k for key, c in x.items()}
        out = dict(x)
        for key, c in y.items():
            out[key] = out.get(key, 0) + (c if op == "Add" else -c)
        return {key: c for key, c in out.items() if c != 0 or key is None}
    if op is not None:
        return None
    return {t: 1}


def _is_len_of_param(leaf, body, idx):
    """`<param idx>.len()` (any `len` method of the parameter's type; conversions such as as_ref() are transparent)."""
    return leaf[0] == "call" and (leaf[3] or {}).get("name") == "len" and len(leaf[2]) == 1 and \
        strip_deep(leaf[2][0]) == K.sym_of(body).local(idx)


_TRY_BRANCH = ("<std::result::Result<T, E> as std::ops::Try>::branch",
               {"fn": "std::ops::Try::branch", "res": "<std::result::Result<T, E> as std::ops::Try>::branch", "name": "branch",
                "trait": "std::ops::Try", "ga": (), "bb": None, "krate": "core"})


def canon_checked(t):
    """One spelling for "the value a fallible expression R delivers when it succeeds": `R?`, `R.map_err(f)?`,
    `match R { Ok(v) => v, Err(e) => return … }`, `let Ok(v) = R else { … }`, `R.ok_or(e)?` all become
    `Try::branch(R)↓Continue.0` (error-side adapters do not touch the value)."""
    from engine.sym import _Info

    def peel(x):
        x = strip_deep(x)
        while x[0] == "call" and x[2] and (
                ((x[3] or {}).get("name") in _RES_PAYLOAD_KEEPING and _RES_FN.match((x[3] or {}).get("fn") or "")) or
                ((x[3] or {}).get("name") in (_OPT_PAYLOAD_KEEPING - {"filter"}) | {"ok_or", "ok_or_else"} and _OPT_FN.match((x[3] or {}).get("fn") or ""))):
            x = strip_deep(x[2][0])
        return x

    def fn(x):
        if x[0] == "field" and x[2] == "0" and x[1][0] == "variant":
            v, base = x[1][2], strip_deep(x[1][1])
            root = None
            if v == "Continue" and base[0] == "call" and base[2] and (base[3] or {}).get("name") == "branch" and \
                    ((base[3] or {}).get("trait") or "").endswith("ops::Try"):
                root = peel(base[2][0])
            elif v in ("Ok", "Some"):
                root = peel(base)
                if root[0] != "call":
                    root = None         # a pattern binding of a parameter / field, not the result of a fallible call
            if root is not None:
                br = ("call", _TRY_BRANCH[0], (_tmap(root, fn),), _Info(_TRY_BRANCH[1]))
                return ("field", ("variant", br, "Continue"), "0", None)
        return None
    return _tmap(strip_deep(t), fn)
