"""C12 — URIs: faithful parse, eq/hash agree, path algebra consistent
(structural clauses; DESIGN §2 C12.a–e)."""
import re
from engine import absint
from engine.rules import (MustPass, guard_edges, eq_matcher, pred_matcher, outcome, aggregates_of, is_derived,
                          root_fn, switch_bool_edges, bool_atom)
from engine.sym import Sym, strip, strip_deep, render, walk, short, substituting
from props import common as K
from engine.rules import success_values

META = {
    "level": "other",
    "technique": "static analysis of type-checked MIR (rustc_private driver): construction-site enumeration, byte-class extraction by abstract interpretation, must-pass rules, sibling rule on case-fold boundaries, separator dominance rule",
    "explanation": "Construction-site enumeration for Rsync/Https (all literals go through the validating constructors or copy "
                   "validated offsets), byte-class extraction of the permitted URI characters, must-pass rules for the "
                   "character and path checks on every caller-supplied byte, a sibling rule that every case-insensitive "
                   "comparison / lower-casing in eq, hash, canonical_* and the module comparison is bounded by the same "
                   "offset field per type, hash ⊆ eq, and a path rule that caller bytes are only appended after a '/'.",
    "not_decided": ["equivalence / irreflexivity / transitivity of the relations over all pairs",
                    "parent/join re-parse equality for all inputs", "relative_to/join round trip as a value identity"],
    "trusted_base": ["std slice/str primitives (eq_ignore_ascii_case, ends_with, to_ascii_lowercase)"],
}

URI_CLASS_SPEC = set(b"!$%&'()*+,-./0123456789:;=ABCDEFGHIJKLMNOPQRSTUVWXYZ_abcdefghijklmnopqrstuvwxyz~")
TYPES = {"uri::Rsync": ("bytes", "module_start"), "uri::Https": ("uri", "path_idx")}


def bodies_of(f, adt):
    """Non-derived bodies of inherent and trait impls for `adt` (with closures)."""
    out = []
    for n, b in f.bodies.items():
        rb = f.body(b.rec.get("root", n)) or b
        if rb.rec.get("impl_adt") == adt and not is_derived(rb):
            out.append(b)
    return out


def run(ctx):
    f = ctx.facts()
    ctx.rule("R-SIB", "sibling operations agree")
    K.check_scheme_tests_ignore_case(ctx, f)
    ctx.rule("R-WHO", "construction / mutation sites of a type are exactly the confirmed ones")
    ctx.rule("R-CLS", "byte class extracted by abstract interpretation equals the RFC table")
    ctx.rule("R-CHK", "every success path passes a checked call to the sink")
    ctx.rule("R-SIB", "case-insensitive operations in sibling functions share one boundary field")
    ctx.rule("R-FLOW", "operand provenance")
    check_accessors_are_views(ctx, f)

    # ---- C12.a constructor discipline -----------------------------------------
    for adt, (bytes_f, bound_f) in TYPES.items():
        rec = f.adts.get(adt)
        if rec is None:
            ctx.missing("R-WHO", adt, adt)
            continue
        priv = all(fl["vis"] != "pub" for v in rec["variants"] for fl in v["fields"])
        ctx.ob("R-WHO", "%s:fields-private" % short(adt), priv, "all fields of %s are private" % adt)
        sites = [x for x in aggregates_of(f, adt) if not is_derived(x[0])]
        fns = sorted({root_fn(f, x[0].name) for x in sites})
        off = "path_start" if adt.endswith("Rsync") else "path_idx"
        # Who may write `Adt { .. }`: the parsing constructor, join (checked extension, offsets copied: rules below) —
        # and code that only re-wraps self's buffer, or a prefix of it cut at or after the path offset, with self's
        # offsets (a `parent` that slices instead of truncating a clone).  The latter are recognised by what they build.
        allowed = {adt + "::from_bytes", adt + "::join"}
        # A private function that exists only as a part of one reviewed writer (every reference to it is made by that
        # writer or by another part of it) is that writer: what it builds or modifies, the writer builds or modifies,
        # and the writer's rules are asked of it (offsets copied from the writer's self, checks before, separator).
        fixed = {adt + "::unshare", adt + "::path_into_dir", adt + "::join"}        # the reviewed writers of the buffer
        part_of = private_parts(f, allowed | fixed)
        lit_cuts = {}
        for bd, bi, si, st in sites:
            w = root_fn(f, bd.name)
            if part_of.get(w, w) in allowed or "arbitrary::Arbitrary" in w or "::arbitrary" in w:
                continue
            ok_, det_ = literal_cut(f, bd, st, adt, bytes_f, off)
            prev = lit_cuts.get(w)
            lit_cuts[w] = (ok_ and (prev is None or prev[0]), det_ if prev is None or prev[0] else prev[1])
        extra = [x for x, (ok_, _) in sorted(lit_cuts.items()) if not ok_]
        ctx.ob("R-WHO", "%s:literal-sites" % short(adt), not extra and adt + "::from_bytes" in fns,
               "%s {..} is built only in from_bytes, join (and the test-support Arbitrary impl), or as a prefix of self "
               "cut at or after the path offset with self's offsets" % short(adt),
               detail={"sites": fns, "not a prefix copy of self": {x: lit_cuts[x][1] for x in extra} or None})
        # join copies the offsets of self (in a part of join: of the part's self, which is join's self at every call)
        for bd, bi, si, st in sites:
            w = root_fn(f, bd.name)
            if part_of.get(w, w) != adt + "::join":
                continue
            t = K.sym_of(bd).rvalue(st["rv"])
            flds = {k: render(strip_deep(v)) for k, v in t[3]}
            offs = {k: v for k, v in flds.items() if k != bytes_f}
            ok = all(v == "self." + k for k, v in offs.items()) and (w == adt + "::join" or self_is_roots_self(f, w, part_of))
            if w != adt + "::join":
                flds["built in"] = w
            ctx.ob("R-FLOW", "%s::join:offsets-copied" % short(adt), ok,
                   "%s::join keeps self's offsets (only appends after them)" % short(adt), where=bd.where(bi, si), detail=flds)
        # who writes the fields after construction
        writers = {}
        for b in f.bodies.values():
            if is_derived(b):
                continue
            for bi, blk in enumerate(b.blocks):
                for st in blk["stmts"]:
                    if st["s"] == "assign":
                        for p in st["pl"]["p"]:
                            if p[0] == "f" and p[2] == adt:
                                writers.setdefault(p[1], set()).add(root_fn(f, b.name))
                        rv = st["rv"]
                        if rv["r"] == "ref" and rv.get("mut"):
                            for p in rv["pl"]["p"]:
                                if p[0] == "f" and p[2] == adt:
                                    writers.setdefault(p[1] + " (&mut)", set()).add(root_fn(f, b.name))
        off_writers = {k: v for k, v in writers.items() if not k.startswith(bytes_f)}
        ctx.ob("R-WHO", "%s:offset-fields-never-reassigned" % short(adt), not off_writers,
               "the offset fields of %s are set only in the struct literals" % short(adt),
               detail={k: sorted(v) for k, v in off_writers.items()} or None)
        bw = set()
        for k, v in writers.items():
            if k.startswith(bytes_f):
                bw |= v
        # Who may touch the buffer: unshare (copy), path_into_dir (append '/'), join (a clone whose buffer is replaced by
        # the checked, extended one) — and any function that does nothing to it but cut it at or after the path offset
        # (parent is one; a new `to_module` would be another).  The latter are recognised by what they do.  (`fixed`,
        # above; a private part of one of the three is that function.)
        cutters = {}
        for w in sorted(x for x in bw if part_of.get(x, x) not in fixed):
            wb = f.body(w)
            cutters[w] = shrinks_only(f, wb, adt, bytes_f, off) if wb is not None else (False, "no body")
        for w, (ok_, det_) in lit_cuts.items():
            if w in cutters:
                cutters[w] = (cutters[w][0] and ok_, {"buffer": cutters[w][1], "literal": det_})
            else:
                cutters[w] = (ok_, det_)
        # parent itself must cut somewhere (the obligation is not to pass for want of anything to look at)
        pn = adt + "::parent"
        if f.body(pn) is not None and not (pn in lit_cuts and "cut" in lit_cuts[pn][1]):
            r = shrinks_only(f, f.body(pn), adt, bytes_f, off, need_site=True)
            cutters[pn] = r if pn not in lit_cuts else (r[0] and lit_cuts[pn][0], {"buffer": r[1], "literal": lit_cuts[pn][1]})
        ctx.ob("R-WHO", "%s:bytes-mutators" % short(adt), all(ok for ok, _ in cutters.values()),
               "the byte buffer of %s is modified after construction only by unshare (copy), path_into_dir (append '/'), "
               "join (checked extension) and functions that only truncate it at ≥ the path offset" % short(adt),
               detail={"writers": sorted(bw), "not only truncating at or after the path offset":
                       {k: d for k, (ok, d) in cutters.items() if not ok} or None})
        if f.body(adt + "::parent") is None:
            ctx.missing("R-FLOW", short(adt) + "::parent", adt + "::parent")
        for w, (ok, detail) in sorted(cutters.items()):
            ctx.saw_fn(w)
            ctx.ob("R-FLOW", "%s:truncate-at-or-after-path-offset" % w, ok,
                   "%s truncates the copy at %s or later" % (w, off), where=f.body(w).loc if f.body(w) else None, detail=detail)

    # ---- C12.b permitted characters ---------------------------------------------
    # What check_uri_ascii (public) accepts is computed as a language from its MIR — C* for the class C of permitted
    # bytes — whatever the test looks like (all / any / loop, closure / helper predicate of any name).  The form-specific
    # rules remain as a fallback for constructs the shape interpreter has no transfer function for.
    from props.C14 import ShapeExec, LangFail, lang_diff, fmt_shape
    cbody = f.body("uri::check_uri_ascii")
    shapes = None
    if cbody is not None:
        try:
            shapes = ShapeExec(f).language(cbody, 0)
            diff = lang_diff(shapes, [(("S", frozenset(URI_CLASS_SPEC)),)])
        except LangFail as e:
            shapes = None
            ctx.note("check_uri_ascii: language interpreter gave up (%s); form-specific rules used" % e)
        except (RecursionError, IndexError, KeyError, TypeError, ValueError) as e:
            shapes = None
            ctx.note("check_uri_ascii: language interpreter failed (%s); form-specific rules used" % type(e).__name__)
    if shapes is not None:
        ctx.saw_fn(cbody.name)
        det = {"accepted (union of)": sorted({fmt_shape(x) for x in shapes})[:12],
               "distinguishing string": None if diff is None else
               {"bytes": repr(diff[0]), "accepted by the code": diff[1], "in the specification": diff[2]}}
        ctx.ob("R-CLS", "uri-byte-class", diff is None,
               "the permitted URI bytes are exactly ! $-; = A-Z _ a-z ~ (no space, control, \" # < > ? [ \\ ] ^ ` { | }, no non-ASCII)",
               where=cbody.loc, detail=det)
        ctx.ob("R-CHK", "check_uri_ascii:all-bytes", diff is None,
               "check_uri_ascii succeeds only if every byte of its argument is a permitted URI byte", where=cbody.loc, detail=det)
    else:
        ub = f.body("uri::is_u8_uri_ascii")
        if ub is None:
            ctx.missing("R-CLS", "is_u8_uri_ascii", "uri::is_u8_uri_ascii")
        else:
            cls, pr = absint.byte_class(f, "uri::is_u8_uri_ascii")
            ctx.ob("R-CLS", "uri-byte-class", cls == URI_CLASS_SPEC and not pr,
                   "is_u8_uri_ascii accepts exactly ! $-; = A-Z _ a-z ~ (no space, control, \" # < > ? [ \\ ] ^ ` { | }, no non-ASCII)",
                   where=ub.loc, detail={"extracted": absint.fmt_class(cls), "problems": pr})
        cb = f.find_bodies(r"^uri::check_uri_ascii$")
        if len(cb) != 1:
            ctx.missing("R-CHK", "check_uri_ascii", "uri::check_uri_ascii")
        else:
            cb = cb[0]
            ctx.saw_fn(cb.name)
            alls = [c for c in cb.calls() if c.name in ("all", "any") and c.trait == "std::iter::Iterator" and not cb.is_cleanup(c.bb)]
            ok = False
            detail = None
            if len(alls) == 1:
                a = K.arg_terms(alls[0])
                # the whole argument (first parameter) is tested: `all(p)` must hold or, the same thing, `any(¬p)` must not;
                # p may be a closure, a crate function or a std u8 predicate
                arg_rx = r"(^|⟵)(Iterator::(copied|cloned)\()?%s\)?$" % re.escape(cb.local_name(1) or "_1")
                if cb.arg_count == 1 and re.search(arg_rx, render(a[0])):
                    from props.C14 import predicate_class
                    ccls, pr = predicate_class(f, strip(a[1]))
                    if alls[0].name == "any" and ccls is not None:
                        ccls = set(range(256)) - ccls
                    g = pred_matcher(r"::%s$" % alls[0].name, (arg_rx,), positive=(alls[0].name == "all"))
                    mp = MustPass(f, lambda c: False, guard_fn=lambda bd, s, bb: guard_edges(bd, s, bb, g), name="all bytes permitted")
                    ok = ccls == URI_CLASS_SPEC and not pr and mp.holds(cb.name)
                    detail = {"closure_class": absint.fmt_class(ccls), "problems": pr}
            ctx.ob("R-CHK", "check_uri_ascii:all-bytes", ok,
                   "check_uri_ascii succeeds only if every byte of its argument is a permitted URI byte", where=cb.loc, detail=detail)

    def call_sink(res_rx, arg_rx):
        def p(c):
            if not re.search(res_rx, c.res or ""):
                return False
            # named constants and lengths of literals are their values (`bytes[PREFIX.len()..]` is `bytes[8..]`)
            return re.search(arg_rx, render(K.fold_consts(K.arg_terms(c)[0], f.consts))) is not None
        return p
    PATH_CHECK = "^(%s)$" % "|".join(re.escape(n) for n in path_checkers(f))
    reqs = [
        ("uri::Rsync::from_bytes", "check_uri_ascii(bytes)", call_sink(r"^uri::check_uri_ascii$", r"^bytes$")),
        ("uri::Rsync::from_bytes", "check_path(bytes[8..])", call_sink(PATH_CHECK, r"^(Index::index\(bytes, ops::RangeFrom::RangeFrom\{start: 8\}\)|slice::split_at\(bytes, 8\)\.1|Bytes::slice\(bytes, ops::RangeFrom::RangeFrom\{start: 8\}\))$")),
        ("uri::Https::from_bytes", "check_uri_ascii(bytes)", call_sink(r"^uri::check_uri_ascii$", r"^bytes$")),
        ("uri::Https::join", "check_uri_ascii(path)", call_sink(r"^uri::check_uri_ascii$", r"^path$")),
    ]
    for fn, what, sink in reqs:
        b = f.body(fn)
        if b is None:
            ctx.missing("R-CHK", fn, fn)
            continue
        ctx.saw_fn(fn)
        mp = MustPass(f, sink, name=what)
        ok = mp.holds(fn)
        ctx.ob("R-CHK", "%s→%s" % (short(fn), what), ok, "%s succeeds only after %s" % (short(fn), what), where=b.loc,
               detail=None if ok else K.why(f, mp, fn))
    # Rsync::join: either the path is empty (clone of self) or both checks ran
    jb = f.body("uri::Rsync::join")
    if jb is None:
        ctx.missing("R-CHK", "Rsync::join", "uri::Rsync::join")
    else:
        ctx.saw_fn(jb.name)
        from props.C14 import value_edges
        from engine.rules import any_of
        is_empty = pred_matcher(r"is_empty$", (r"^path$",))
        empty_edges = any_of(lambda bd, s_, bb: guard_edges(bd, s_, bb, is_empty),
                             lambda bd, s_, bb: value_edges(f, bd, s_, bb, r"(^|::)len\(path\)$", 0))
        for what, sink in (("check_uri_ascii(path)", call_sink(r"^uri::check_uri_ascii$", r"^path$")),
                           ("check_path(path)", call_sink(PATH_CHECK, r"^path$"))):
            mp = MustPass(f, sink, guard_fn=empty_edges, name=what)
            ok = mp.holds(jb.name)
            ctx.ob("R-CHK", "Rsync::join→%s" % what, ok,
                   "Rsync::join succeeds only after %s, or with an empty path (returning a clone of self)" % what,
                   where=jb.loc, detail=None if ok else K.why(f, mp, jb.name))
        # the empty-path shortcut returns self unchanged
        oc = outcome(jb)
        from engine.rules import success_values
        vals = [render(t) for _, _, t in success_values(jb, oc)]
        okv = bool(vals) and all(re.match(r"^result::Result::Ok\{0: (\w+⟵)?self\}$", v) or v.startswith("result::Result::Ok{0: uri::Rsync::Rsync{") for v in vals)
        ctx.ob("R-FLOW", "Rsync::join:results", okv, "Rsync::join returns either a clone of self (empty path) or the extended URI",
               where=jb.loc, detail=vals)
    # scheme guards: the constructor succeeds only for bytes that start with its scheme, compared ignoring case.  The
    # fact is asked of the *value* tested, however the test is spelt: the ignore-case prefix test on `bytes` itself,
    # or a test of the Scheme value a classifier made from `bytes` (a `match` on it, a variant predicate, `==`), where
    # a classifier is any function shown to build that variant only under the same prefix test on its argument.
    for ty, lit, what in (("Rsync", "b'rsync://'", "the rsync:// prefix (case-insensitive)"),
                          ("Https", "b'https://'", "the https:// prefix")):
        b = f.body("uri::%s::from_bytes" % ty)
        if b is None:
            continue
        direct = pred_matcher(r"starts_with_ignore_case$", (r"^bytes$", "^%s$" % re.escape(lit)))
        by_value = scheme_value_edges(f, lit, r"^bytes$")
        g = any_of(lambda bd, s, bb, m=direct: guard_edges(bd, s, bb, m), by_value)
        mp = MustPass(f, lambda c: False, guard_fn=g, name="scheme " + ty.lower())
        ok = mp.holds(b.name)
        ctx.ob("R-GRD", "%s::from_bytes:scheme" % ty, ok, "%s::from_bytes requires %s" % (ty, what),
               where=b.loc, detail=None if ok else {"why": K.why(f, mp, b.name), "classifiers": by_value.classifiers})
    ctx.rule("R-GRD", "success requires the guard literal")

    # ---- C12.c one case-insensitive boundary per type ----------------------------
    for adt, (bytes_f, bound_f) in TYPES.items():
        n = 0
        for b in bodies_of(f, adt):
            if b.name.endswith("::arbitrary") or "Arbitrary" in b.name:
                continue
            for c in b.calls():
                if b.is_cleanup(c.bb) or c.name not in ("eq_ignore_ascii_case", "to_ascii_lowercase", "make_ascii_lowercase",
                                                        "to_ascii_uppercase", "make_ascii_uppercase", "to_lowercase"):
                    continue
                n += 1
                # a closure handed to for_each / map / … is read in the vocabulary of the function that applies it: its
                # element parameter is an element of the receiver
                with substituting(_closure_context(f, b)):
                    a = K.arg_renders(c)
                ok = False
                why = None
                ops = a[:2] if c.name == "eq_ignore_ascii_case" else a[:1]
                verdicts = []
                for o in ops:
                    # the head of the buffer up to an offset: `x[..n]` or `x.split_at(n).0`
                    m = re.search(r"Index::index\((\w+)\.%s, ops::RangeTo::RangeTo\{end: (\w+)\.(\w+)\}\)" % bytes_f, o) or \
                        re.search(r"slice::split_at\((\w+)\.%s, (\w+)\.(\w+)\)\.0" % bytes_f, o)
                    oa = K.alpha(o, b)
                    if m:
                        verdicts.append(m.group(3) == bound_f and m.group(1) == m.group(2))
                    elif re.search(r"Index::index\(%%2, ops::RangeTo::RangeTo\{end: self\.%s\}\)" % bound_f, oa) or \
                            re.search(r"slice::split_at\(%%2, self\.%s\)\.0" % bound_f, oa):
                        # Rsync == AsRef<[u8]>: self's offset is a boundary of the other byte string only if both have the
                        # same length, which must have been established on every way here
                        gs = K.dominating_guards(f, b, c.bb)
                        same_len = any(re.match(r"^(\w+::)*len\(self\.%s\) == (\w+::)*len\(%%2\)$" % bytes_f, g) or
                                       re.match(r"^(\w+::)*len\(%%2\) == (\w+::)*len\(self\.%s\)$" % bytes_f, g) for g in gs)
                        verdicts.append(same_len)
                    elif re.search(r"^(%s)::authority\((self|other)\)$" % short(adt).split("::")[-1], o):
                        verdicts.append(True)         # authority() lies inside [8, bound)
                    elif c.name == "make_ascii_lowercase" and re.search(r"^res⟵String::with_capacity", o):
                        verdicts.append(_lowercase_before_module(f, b, c))
                    else:
                        verdicts.append(False)
                ok = bool(verdicts) and all(verdicts)
                ctx.ob("R-SIB", "%s:case-fold-boundary[%s]" % (short(root_fn(f, b.name)), c.name), ok,
                       "in %s the case-insensitive operation covers exactly scheme+authority (bounded by %s)"
                       % (short(root_fn(f, b.name)), bound_f), where=c.where(), detail=a)
        ctx.floor("R-SIB", "%s case-insensitive operations" % short(adt), n, 5 if adt.endswith("Rsync") else 4)
        # hash ⊆ eq: the exactly-hashed part starts at the boundary
        hb = f.body("<%s as std::hash::Hash>::hash" % adt)
        if hb is None:
            ctx.missing("R-SIB", short(adt) + "::hash", "Hash for " + adt)
        else:
            ctx.saw_fn(hb.name)
            hbs = [hb] + [f.body(n) for n in f.children(hb.name) if f.body(n) is not None]
            for c in [c for x in hbs for c in x.calls()]:
                if c.name != "hash" or c.body.is_cleanup(c.bb):
                    continue
                with substituting(_closure_context(f, c.body)):
                    a = K.arg_renders(c)[0]
                ok = a.startswith("num::to_ascii_lowercase(") and re.search(r"RangeTo\{end: self\.%s\}" % bound_f, a) is not None \
                    or re.match(r"^self\.%s\[self\.%s\]$" % (bytes_f, bound_f), a) is not None \
                    or re.match(r"^Index::index\(self\.%s, ops::RangeFrom::RangeFrom\{start: self\.%s\}\)$" % (bytes_f, bound_f), a) is not None
                ctx.ob("R-SIB", "%s::hash⊆eq[%s]" % (short(adt), "folded" if "lowercase" in a else "exact"), ok,
                       "Hash feeds only data that Eq compares, case-folded exactly where Eq folds", where=c.where(), detail=a)
    # accessors of the boundary
    for fn, lo, hi in (("uri::Rsync::authority", "8", r"SubWithOverflow\(self\.module_start, 1\)\.0"),
                       ("uri::Https::authority", None, r"self\.path_idx")):
        b = f.body(fn)
        if b is None:
            ctx.missing("R-FLOW", fn, fn)
            continue
        idx = [c for c in b.calls() if c.name == "index"]
        ok = len(idx) == 1 and re.search(r"Range\{start: .*, end: %s\}$" % hi, K.arg_renders(idx[0])[1]) is not None
        ctx.ob("R-FLOW", "%s:ends-before-boundary" % short(fn), ok, "%s() ends at the boundary offset" % short(fn), where=b.loc,
               detail=K.arg_renders(idx[0]) if idx else None)

    # ---- C12.d separator before appended caller bytes ----------------------------
    for fn in ("uri::Rsync::join", "uri::Https::join"):
        b = f.body(fn)
        if b is None:
            continue
        oc = outcome(b)
        sym = oc.sym
        appends = []
        slash_blocks = set()
        chosen = []
        for c in b.calls():
            if b.is_cleanup(c.bb) or c.name not in ("extend_from_slice", "put_slice", "put", "extend"):
                continue
            a = K.arg_renders(c)
            if len(a) > 1 and a[1] == "path":
                appends.append(c)
            elif len(a) > 1 and a[1] == "b'/'":
                slash_blocks.add(c.bb)
            elif len(a) > 1 and K.arg_terms(c)[1][0] == "var":
                chosen.append((c, K.arg_terms(c)[1]))
        # A separator chosen first and appended later (`sep = if … { b"" } else { b"/" }; buf.extend(sep)`): the append
        # writes '/' on exactly the paths that come through a definition `sep = b"/"`.  Such a definition stands for
        # the append of '/' when, from it, the caller's path can only be appended after `sep` was, and `sep` cannot
        # have been given another value on the way (no other definition of it is reachable from this one).
        for c, t in chosen:
            if len(appends) != 1 or t[2] in getattr(sym, "_mutb", ()):
                continue
            defs = sym.defs_of_var(t[2])
            for d_bb, d_t in defs:
                if render(strip_deep(d_t)) != "b'/'" or b.is_cleanup(d_bb):
                    continue
                after = b.reachable(d_bb)
                if any(o_bb != d_bb and o_bb in after for o_bb, _ in defs):
                    continue
                if d_bb == c.bb or appends[0].bb not in b.reachable(d_bb, removed_blocks={c.bb}):
                    slash_blocks.add(d_bb)
        # Rsync URIs always contain "<module>/", so a trailing '/' of the whole URI is a path separator; an Https URI may
        # be path-less ("https://host", "https://"), there only a trailing '/' of the *path* counts
        recv = r"^(self\.bytes|\w+::path(_bytes)?\(self\))$" if fn.endswith("Rsync::join") else r"^\w+::path(_bytes)?\(self\)$"
        ew = pred_matcher(r"ends_with$", (recv, r"^(b'/'|47)$"))
        # the same fact spelt on the last byte: `x.last() == Some(&b'/')` (either operand order, `!=` with swapped arms)
        lastb = eq_matcher(r"^slice::last\((?:%s)\)$" % recv.strip("^$"), r"^option::Option::Some\{0: 47\}$")
        edges = set()
        for bi, blk in enumerate(b.blocks):
            if blk["term"]["t"] == "switch":
                for g_ in (ew, lastb):
                    e = guard_edges(b, sym, bi, g_)
                    if e:
                        edges.update(e)
        ok = len(appends) == 1
        detail = None
        if ok:
            reach = b.reachable(0, removed_blocks=slash_blocks, removed_edges=edges)
            ok = appends[0].bb not in reach
            if not ok:
                p = b.path(0, [appends[0].bb], slash_blocks, edges)
                detail = {"path_without_separator": [b.line_of(x) for x in p]}
        ctx.ob("R-CHK", "%s:separator-before-path" % short(fn), ok,
               "%s appends the caller's path only after a '/' (appended, or already ending the URI)" % short(fn),
               where=b.loc, detail=detail)

    # ---- module comparison used by relative_to / is_parent_of ---------------------
    rb = f.body("uri::Rsync::relative_to")
    if rb is not None:
        mods = [n for n, bd in f.bodies.items() if bd.rec.get("impl_adt") == "uri::Rsync" and bd.arg_count == 2 and
                "{closure" not in n and bd.ret_ty == "bool" and not is_derived(bd) and
                any(c.name == "eq_ignore_ascii_case" for x in [bd] + [f.body(k) for k in f.children(n) if f.body(k)] for c in x.calls()) and
                any(c.res == n for c in rb.calls())]
        g = pred_matcher("^(%s)$" % "|".join(re.escape(n) for n in mods) if mods else r"Rsync::eq_module$", (r"^self$", r"^other$"))
        mp = MustPass(f, lambda c: False, guard_fn=lambda bd, s, bb: guard_edges(bd, s, bb, g), name="same module")
        # relative_to returns Option: None = failure
        ok = mp.holds(rb.name)
        ctx.ob("R-GRD", "Rsync::relative_to:same-module", ok, "relative_to returns Some only for URIs of the same module",
               where=rb.loc, detail=None if ok else K.why(f, mp, rb.name))




SCHEME = "uri::Scheme"
_STD_VARIANT_KEEPING = {"branch", "map_err", "as_ref", "copied", "cloned", "inspect", "inspect_err", "ok", "ok_or", "ok_or_else"}


def _bare_ty(ty):
    ty = (ty or "").strip()
    while ty.startswith("&"):
        ty = ty[1:].strip()
        if ty.startswith("mut "):
            ty = ty[4:].strip()
    return ty


def scheme_classifiers(f, lit):
    """{G: variants}: the functions that make Scheme values from bytes, with the variants (by index) that G builds only
    where `starts_with_ignore_case(<G's first parameter>, lit)` holds.  G qualifies only if every Scheme it can return
    is built in G itself (no Scheme comes in by parameter or from a call) and its result holds exactly one Scheme."""
    rec = f.adts.get(SCHEME)
    if rec is None:
        return {}
    index = {v["name"]: i for i, v in enumerate(rec["variants"])}
    built = {}
    for bd, bi, si, st in aggregates_of(f, SCHEME):
        if not is_derived(bd):
            built.setdefault(bd.name, []).append((bi, st["rv"].get("variant")))
    out = {}
    for name, sites in built.items():
        gb = f.body(name)
        if gb is None or "{closure" in name or "rbitrary" in name or gb.arg_count < 1 or (gb.ret_ty or "").count(SCHEME) != 1:
            continue
        if any(SCHEME in (gb.local_ty(i) or "") for i in range(1, gb.arg_count + 1)):
            continue
        if any(SCHEME in (gb.local_ty(c.dest["l"]) or "") for c in gb.calls() if not gb.is_cleanup(c.bb)):
            continue
        if any(f.children(name)):
            continue
        p1 = gb.local_name(1) or "_1"
        g = pred_matcher(r"^uri::starts_with_ignore_case$", ("^%s$" % re.escape(p1), "^%s$" % re.escape(lit)))
        sym = K.sym_of(gb)
        edges = set()
        for bi, blk in enumerate(gb.blocks):
            if blk["term"]["t"] == "switch" and not blk.get("cleanup"):
                edges.update(guard_edges(gb, sym, bi, g) or ())
        reach = gb.reachable(0, removed_edges=edges)
        vs = {index[v] for _, v in sites if v in index and all(bi not in reach for bi, v2 in sites if v2 == v)}
        if vs:
            out[name] = vs
    return out


def scheme_variant_tests(f):
    """{P: variants}: functions `fn(Scheme) -> bool` with the variants (by index) for which they answer true, read off
    their bodies: a switch on the discriminant of the argument leading to constant answers."""
    rec = f.adts.get(SCHEME)
    out = {}
    if rec is None:
        return out
    for name, bd in f.bodies.items():
        if bd.arg_count != 1 or bd.ret_ty != "bool" or _bare_ty(bd.local_ty(1)) != SCHEME or is_derived(bd) or any(True for _ in bd.calls()):
            continue
        sym = K.sym_of(bd)
        p1 = ("param", bd.local_name(1) or "_1")
        yes = set()
        for v in range(len(rec["variants"])):
            bb, val = 0, None
            for _ in range(60):
                for st in bd.blocks[bb]["stmts"]:
                    if st["s"] == "assign" and st["pl"]["l"] == 0 and not st["pl"]["p"]:
                        t = strip_deep(sym.rvalue(st["rv"]))
                        val = bool(t[1]) if t[0] == "const" and t[1] in (0, 1, True, False) else "?"
                t = bd.term(bb)
                if t["t"] == "goto":
                    bb = t["target"]
                elif t["t"] == "switch":
                    d = strip(sym.operand(t["discr"]))
                    if d[0] != "discr" or strip_deep(d[1]) != p1:
                        val = "?"
                        break
                    bb = dict((x, y) for x, y in t["targets"]).get(v, t["otherwise"])
                else:
                    if t["t"] != "return":
                        val = "?"
                    break
            if val is True:
                yes.add(v)
            elif val is not False:
                yes = None
                break
        if yes is not None:
            out[name] = yes
    return out


def scheme_value_edges(f, lit, arg_rx):
    """guard_fn for MustPass: the edges of a switch on which the Scheme value made from the bytes `arg_rx` by a classifier
    (scheme_classifiers) is known to be a variant that the classifier builds only under the prefix `lit`."""
    cls = scheme_classifiers(f, lit)
    tests = scheme_variant_tests(f) if cls else {}
    rec = f.adts.get(SCHEME) or {"variants": []}
    index = {v["name"]: i for i, v in enumerate(rec["variants"])}
    every = set(range(len(rec["variants"])))

    def origin(t):
        """The classifier whose result (applied to the bytes) the term is a part of."""
        t = strip_deep(t)
        for _ in range(16):
            if t[0] in ("field", "variant"):
                t = strip_deep(t[1])
            elif t[0] == "call":
                info = t[3] or {}
                g = info.get("res") or t[1]
                if g in cls:
                    return g if t[2] and re.search(arg_rx, render(strip_deep(t[2][0]))) else None
                if (info.get("krate") or "") in _STD and info.get("name") in _STD_VARIANT_KEEPING and t[2]:
                    t = strip_deep(t[2][0])
                else:
                    return None
            else:
                return None
        return None

    def discriminated_ty(body, op):
        pl = op.get("m") or op.get("c")
        if pl is None or pl["p"]:
            return None
        ds = [st for blk in body.blocks for st in blk["stmts"] if st["s"] == "assign" and st["pl"]["l"] == pl["l"] and not st["pl"]["p"]]
        if len(ds) != 1 or ds[0]["rv"]["r"] != "discr":
            return None
        src = ds[0]["rv"]["pl"]
        for pe in reversed(src["p"]):
            if pe[0] == "d":
                continue
            return _bare_ty(pe[3]) if pe[0] == "f" and len(pe) > 3 else None
        return _bare_ty(body.local_ty(src["l"]))

    def implied(bb, yes_edge, no_edge, true_for, wanted):
        """The test is true exactly for the variants `true_for`: the edge on which the variant is one of `wanted`."""
        if true_for and true_for <= wanted:
            return [(bb, yes_edge)]
        if (every - true_for) and (every - true_for) <= wanted:
            return [(bb, no_edge)]
        return None

    def g(body, sym, bb):
        if not cls:
            return None
        t = body.term(bb)
        if t["t"] != "switch":
            return None
        if t.get("dty") != "bool":
            d = strip(sym.operand(t["discr"]))
            if d[0] != "discr" or discriminated_ty(body, t["discr"]) != SCHEME:
                return None
            src = origin(d[1])
            if src is None:
                return None
            wanted = cls[src]
            edges = [(bb, tb) for v, tb in t["targets"] if v in wanted]
            rest = every - {v for v, _ in t["targets"]}
            if rest and rest <= wanted:
                edges.append((bb, t["otherwise"]))
            return edges or None
        e = switch_bool_edges(body, bb)
        at = bool_atom(sym.operand(t["discr"]))
        if e is None or at is None:
            return None
        rel, a, b_, pos = at
        no_edge, yes_edge = e if pos else (e[1], e[0])
        if isinstance(rel, tuple) and rel[0] == "pred" and rel[1] in tests and len(a) == 1:
            src = origin(a[0])
            return implied(bb, yes_edge, no_edge, tests[rel[1]], cls[src]) if src else None
        if rel == "eq" and b_ is not None:
            for x, y in ((a, b_), (b_, a)):
                y = strip_deep(y)
                if y[0] == "agg" and y[1] == SCHEME and y[2] in index:
                    src = origin(x)
                    return implied(bb, yes_edge, no_edge, {index[y[2]]}, cls[src]) if src else None
        return None
    g.classifiers = {k: sorted(rec["variants"][i]["name"] for i in v) for k, v in cls.items()}
    return g


_USERS = {}


def _users(f):
    """{function: the functions (closures counted with their creator) that call it or use it as a value}."""
    ent = _USERS.get(id(f))
    if ent is None or ent[0] is not f:
        from engine.callgraph import CallGraph
        cg = CallGraph(f)
        users = {}
        for n in list(f.bodies.keys()):
            for m in cg.edges(n):
                if m in f.bodies:
                    users.setdefault(root_fn(f, m), set()).add(root_fn(f, n))
        ent = (f, users)
        _USERS[id(f)] = ent
    return ent[1]


def private_parts(f, roots):
    """{helper: root}: functions that exist only as a part of one of the functions `roots` — private (not exported, not a
    trait method, not async) and referenced, by call or as a value, only by that root or by other parts of it."""
    users = _users(f)
    parts = {}
    changed = True
    while changed:
        changed = False
        for h, us in users.items():
            r = f.fns.get(h)
            if h in parts or h in roots or r is None or not r.get("has_body") or r.get("exported") or r.get("impl_trait") \
                    or r.get("async") or f.body(h) is None:
                continue
            owners = {parts.get(u, u if u in roots else None) for u in us if u != h}
            if len(owners) == 1 and None not in owners:
                parts[h] = owners.pop()
                changed = True
    return parts


def self_is_roots_self(f, h, part_of, depth=0):
    """Every call of the part `h` hands on the caller's own `self` as `h`'s self, up to the root it is a part of."""
    hb = f.body(h)
    if hb is None or depth > 6 or hb.arg_count < 1 or hb.local_name(1) != "self":
        return False
    n = 0
    for u in _users(f).get(h, ()):
        for ub in [f.body(u)] + [f.body(x) for x in f.children(u)]:
            if ub is None:
                continue
            for c in ub.calls():
                if c.res != h or ub.is_cleanup(c.bb):
                    continue
                n += 1
                a = K.arg_terms(c)
                if not a or a[0] != ("param", "self") or ub.name != u:
                    return False
        if u in part_of and not self_is_roots_self(f, u, part_of, depth + 1):
            return False
    return n > 0


def path_checkers(f):
    """The function(s) that answer uri::Error::DotSegments — the segment check of rsync paths, whatever it is called."""
    out = set()
    for n, bd in f.bodies.items():
        if is_derived(bd) or not (bd.file or "").endswith("uri.rs"):
            continue
        for blk in bd.blocks:
            for st in blk["stmts"]:
                if st["s"] == "assign" and st["rv"]["r"] == "agg" and st["rv"].get("adt") == "uri::Error" and st["rv"].get("variant") == "DotSegments":
                    out.add(root_fn(f, n))
    return sorted(out) or ["uri::Rsync::check_path"]


_SHRINK = {"truncate": 1, "split_off": 1}


class _Frame:
    """A body together with what its parameters / captures stand for: {("param"|"upvar", name): (term, frame that
    term is written in)}.  The root frame (the function under inspection) has no bindings: its `self` is the URI."""

    def __init__(self, f, body, env=None, parent=None):
        self.f, self.body, self.sym, self.env, self.parent = f, body, K.sym_of(body), env or {}, parent
        self.depth = 0 if parent is None else parent.depth + 1

    def resolve(self, t):
        """(frame, term): a parameter / capture read as the value handed in by the creating / calling frame."""
        fr = self
        t = strip_deep(t)
        n = 0
        while t[0] in ("param", "upvar") and (t[0], t[1]) in fr.env and n < 12:
            t, fr = fr.env[(t[0], t[1])]
            t = strip_deep(t)
            n += 1
        return fr, t

    def is_self(self, t):
        fr, t = self.resolve(t)
        return fr.parent is None and t[0] == "param" and fr.body.arg_count >= 1 and \
            t[1] == (fr.body.local_name(1) or "_1") and t[1] == "self"


def _fn_frame(fr, fn_t, args):
    """Frame for applying the function value `fn_t` (a closure, or a crate function passed by name) to `args` (terms of
    frame `fr`; None = an unknown value)."""
    fn_t = strip_deep(fn_t)
    if fr.depth > 5:
        return None
    if fn_t[0] == "closure":
        cb = fr.f.body(fn_t[1])
        if cb is None:
            return None
        env = {}
        for name, pl in cb.rec.get("upvars", []):
            idx = None
            for pe in pl.get("p", []):
                if pe and pe[0] == "f":
                    try:
                        idx = int(pe[1])
                    except (TypeError, ValueError):
                        idx = None
                    break
            if idx is not None and idx < len(fn_t[2]):
                env[("upvar", name)] = (fn_t[2][idx], fr)
        first = 2
    elif fn_t[0] == "fnref":
        cb = fr.f.body(fn_t[1])
        if cb is None or "{closure" in cb.name:
            return None
        env = {}
        first = 1
    else:
        return None
    for i, a in enumerate(args):
        if a is not None and first + i <= cb.arg_count:
            env[("param", cb.local_name(first + i) or "_%d" % (first + i))] = (a, fr)
    return _Frame(fr.f, cb, env, fr)


def _frame_of(f, b, depth=0):
    """The frame of body `b`: a closure body is read with its captures bound to the values at its creation site (in
    the frame of the function that creates it, recursively)."""
    if "::{closure" not in b.name or not b.rec.get("root") or depth > 4:
        return _Frame(f, b)
    pb = f.body(b.name.rsplit("::{closure", 1)[0])
    if pb is None:
        return _Frame(f, b)
    pfr = _frame_of(f, pb, depth + 1)
    for blk in pb.blocks:
        for st in blk["stmts"]:
            if st["s"] == "assign" and st["rv"]["r"] == "agg" and st["rv"].get("def") == b.name:
                fr = _fn_frame(pfr, pfr.sym.rvalue(st["rv"]), [])
                if fr is not None:
                    return fr
    return _Frame(f, b, {}, pfr)


_STD = ("core", "std", "alloc")
_PAYLOAD_VARIANTS = ("Some", "Ok", "Continue")


def _payload_of(o):
    """The term `o↓Some.0`: the payload of an Option / Result value, as a match arm reads it."""
    return ("field", ("variant", o, "Some"), "0", None)


def _ge_fn(fr, fn_t, args, off, seen, payload=False):
    sub = _fn_frame(fr, fn_t, args)
    if sub is None:
        return False
    r = sub.sym.local(0)
    return _ge_payload(sub, r, off, seen) if payload else _ge(sub, r, off, seen)


def _ge(fr, t, off, seen):
    """Is the unsigned integer `t` (a term of frame fr) ≥ self.<off> for all inputs?  Decided on the value, not on the
    spelling: a sum with an addend that is (usize arithmetic cannot wrap), the larger of two, every arm of a `match` /
    `if` / every definition of a local, what `map_or` / `unwrap_or` / `map` / `then` … yield for each input variant (the
    closures' return values, read with their captures), what a crate helper returns."""
    from props.C14 import fold_accessors
    f = fr.f
    t = fold_accessors(f, K.fold_consts(strip_deep(t), f.consts))
    k = t[0]
    if k in ("param", "upvar"):
        fr2, t2 = fr.resolve(t)
        if t2 is t or (fr2 is fr and t2 == t):
            return False
        return _ge(fr2, t2, off, seen)
    if k == "field":
        if str(t[2]) == off and fr.is_self(t[1]):
            return True
        base = strip_deep(t[1])
        if str(t[2]) == "0":
            # checked addition: `(a + b)` is `AddWithOverflow(a, b).0` under an overflow assertion
            if base[0] == "bin" and base[1] == "AddWithOverflow":
                return _ge(fr, base[2], off, seen) or _ge(fr, base[3], off, seen)
            if base[0] == "variant" and base[2] in _PAYLOAD_VARIANTS:
                return _ge_payload(fr, base[1], off, seen)
        return False
    if k == "bin":
        if t[1] in ("Add", "AddWithOverflow", "AddUnchecked"):
            return _ge(fr, t[2], off, seen) or _ge(fr, t[3], off, seen)
        return False
    if k == "var":
        key = (id(fr.body), t[2])
        if key in seen:
            return True                 # inductive: a definition in terms of the local itself (`len = len + 1`)
        ds = fr.sym.defs_of_var(t[2])
        return bool(ds) and all(_ge(fr, x, off, seen | {key}) for _, x in ds)
    if k == "call":
        info = t[3] or {}
        name, a = info.get("name"), t[2]
        std = (info.get("krate") or "") in _STD
        if std and name in ("saturating_add", "strict_add", "unchecked_add") and len(a) == 2:
            return _ge(fr, a[0], off, seen) or _ge(fr, a[1], off, seen)
        if std and name == "max" and len(a) == 2:
            return _ge(fr, a[0], off, seen) or _ge(fr, a[1], off, seen)
        if std and name == "min" and len(a) == 2:
            return _ge(fr, a[0], off, seen) and _ge(fr, a[1], off, seen)
        if std and name == "clamp" and len(a) == 3:
            return _ge(fr, a[1], off, seen)
        if std and name == "map_or" and len(a) == 3:
            return _ge(fr, a[1], off, seen) and _ge_fn(fr, a[2], [_payload_of(a[0])], off, seen)
        if std and name == "map_or_else" and len(a) == 3:
            return _ge_fn(fr, a[1], [None], off, seen) and _ge_fn(fr, a[2], [_payload_of(a[0])], off, seen)
        if std and name == "unwrap_or" and len(a) == 2:
            return _ge(fr, a[1], off, seen) and _ge_payload(fr, a[0], off, seen)
        if std and name == "unwrap_or_else" and len(a) == 2:
            return _ge_fn(fr, a[1], [None], off, seen) and _ge_payload(fr, a[0], off, seen)
        if std and name in ("unwrap", "expect", "unwrap_unchecked") and len(a) >= 1:
            return _ge_payload(fr, a[0], off, seen)
        if std and name in ("copied", "cloned") and len(a) == 1:
            return _ge(fr, a[0], off, seen)
        # a crate helper: what it returns for these arguments
        hb = f.body(info.get("res") or t[1])
        if hb is not None and "{closure" not in hb.name and not std:
            return _ge_fn(fr, ("fnref", hb.name), list(a), off, seen)
        return False
    return False


def _ge_payload(fr, o, off, seen):
    """Is every Some / Ok payload the Option / Result `o` can carry ≥ self.<off>?  (None / Err carry nothing.)"""
    from props.C14 import fold_accessors
    f = fr.f
    o = fold_accessors(f, K.fold_consts(strip_deep(o), f.consts))
    k = o[0]
    if k in ("param", "upvar"):
        fr2, o2 = fr.resolve(o)
        if fr2 is fr and o2 == o:
            return False
        return _ge_payload(fr2, o2, off, seen)
    if k == "agg":
        if o[2] in ("None", "Err", "Break"):
            return True
        if o[2] in _PAYLOAD_VARIANTS and len(o[3]) == 1:
            return _ge(fr, o[3][0][1], off, seen)
        return False
    if k == "var":
        key = (id(fr.body), o[2], "payload")
        if key in seen:
            return True
        ds = fr.sym.defs_of_var(o[2])
        return bool(ds) and all(_ge_payload(fr, x, off, seen | {key}) for _, x in ds)
    if k == "call":
        info = o[3] or {}
        name, a = info.get("name"), o[2]
        std = (info.get("krate") or "") in _STD
        if std and name == "map" and len(a) == 2:
            return _ge_fn(fr, a[1], [_payload_of(a[0])], off, seen)
        if std and name == "and_then" and len(a) == 2:
            return _ge_fn(fr, a[1], [_payload_of(a[0])], off, seen, payload=True)
        if std and name in ("filter", "ok_or", "ok_or_else", "ok", "map_err", "copied", "cloned", "inspect", "take",
                            "branch") and len(a) >= 1:
            return _ge_payload(fr, a[0], off, seen)
        if std and name in ("or", "xor") and len(a) == 2:
            return _ge_payload(fr, a[0], off, seen) and _ge_payload(fr, a[1], off, seen)
        if std and name == "or_else" and len(a) == 2:
            return _ge_payload(fr, a[0], off, seen) and _ge_fn(fr, a[1], [None], off, seen, payload=True)
        if std and name == "checked_add" and len(a) == 2:
            return _ge(fr, a[0], off, seen) or _ge(fr, a[1], off, seen)
        if std and name == "then_some" and len(a) == 2:
            return _ge(fr, a[1], off, seen)
        if std and name == "then" and len(a) == 2:
            return _ge_fn(fr, a[1], [], off, seen)
        hb = f.body(info.get("res") or o[1])
        if hb is not None and "{closure" not in hb.name and not std:
            return _ge_fn(fr, ("fnref", hb.name), list(a), off, seen, payload=True)
        return False
    return False


def at_or_after(f, b, term, off, depth=0):
    """Is the usize `term` of body `b` ≥ self.<off> whatever the inputs (see _ge)."""
    return _ge(_frame_of(f, b), term, off, frozenset())


def prefix_cut(f, b, term, bytes_f):
    """If `term` is a prefix of self's byte buffer — `self.bytes.slice(..n)`, `.slice(0..n)`, `&self.bytes[..n]` (copied),
    `split_at(n).0`, `clone().split_to(n)` — the length term n; else None."""
    fr = _frame_of(f, b)
    t = strip_deep(term)
    while t[0] == "mvar":
        t = strip_deep(t[3])

    def is_buf(x):
        x = strip_deep(x)
        while x[0] == "mvar":
            x = strip_deep(x[3])
        return x[0] == "field" and str(x[2]) == bytes_f and fr.is_self(x[1])

    def range_end(r):
        r = K.fold_consts(strip_deep(r), f.consts)
        if r[0] != "agg":
            return None
        flds = {str(k): v for k, v in r[3]}
        if r[1].endswith("RangeTo") and "end" in flds:
            return flds["end"]
        if r[1].endswith("::Range") and flds.get("start") == ("const", 0) and "end" in flds:
            return flds["end"]
        return None
    if t[0] == "call":
        info = t[3] or {}
        name, a = info.get("name"), t[2]
        if name == "copy_from_slice" and len(a) == 1:
            return prefix_cut(f, b, a[0], bytes_f)
        if name in ("slice", "index", "get_unchecked") and len(a) == 2 and is_buf(a[0]):
            return range_end(a[1])
        if name == "split_to" and len(a) == 2 and is_buf(a[0]) and (info.get("krate") or "") == "bytes":
            return a[1]
    if t[0] == "field" and str(t[2]) == "0":
        base = strip_deep(t[1])
        if base[0] == "call" and (base[3] or {}).get("name") == "split_at" and len(base[2]) == 2 and is_buf(base[2][0]):
            return base[2][1]
    return None


def _copy_of_self(f, b, t, adt, bytes_f):
    """Is the `adt` value `t` self or a copy of it: `self`, `self.clone()`, or a literal repeating every field of self."""
    fr = _frame_of(f, b)
    t = strip_deep(t)
    while t[0] == "mvar":
        t = strip_deep(t[3])
    if fr.is_self(t):
        return True
    if t[0] == "agg" and t[1] == adt:
        return all(strip_deep(v)[0] == "field" and str(strip_deep(v)[2]) == str(k) and fr.is_self(strip_deep(v)[1])
                   for k, v in t[3])
    return False


def literal_cut(f, b, st, adt, bytes_f, off):
    """(ok, detail) for a struct literal of `adt` outside the parsing constructor: it repeats self's offsets and its
    buffer is self's buffer, or a prefix of it cut at or after the path offset."""
    fr = _frame_of(f, b)
    t = K.sym_of(b).rvalue(st["rv"])
    flds = {str(k): strip_deep(v) for k, v in t[3]}
    det = {"literal": {k: render(v)[:160] for k, v in flds.items()}, "problems": []}
    for k, v in flds.items():
        if k == bytes_f:
            continue
        if not (v[0] == "field" and str(v[2]) == k and fr.is_self(v[1])):
            det["problems"].append("offset %s is not self.%s" % (k, k))
    bv = flds.get(bytes_f)
    if bv is None:
        det["problems"].append("no buffer field")
    else:
        x = bv
        while x[0] == "mvar":
            x = strip_deep(x[3])
        if not (x[0] == "field" and str(x[2]) == bytes_f and fr.is_self(x[1])):
            n = prefix_cut(f, b, bv, bytes_f)
            if n is None:
                det["problems"].append("buffer is not a prefix of self.%s" % bytes_f)
            else:
                ok = at_or_after(f, b, n, off)
                det["cut"] = {"length": render(strip_deep(n))[:200], "at or after self.%s" % off: ok}
                if not ok:
                    det["problems"].append("prefix length not shown to be ≥ self.%s" % off)
    return (not det["problems"], det)


def shrinks_only(f, b, adt, bytes_f, off, need_site=False):
    """(ok, detail): everything this function (with its closures) does to the byte buffer of an `adt` value is cutting
    the buffer of (a copy of) self at a length that is at or after the path offset of self — Bytes::truncate /
    split_off, or replacing it by such a prefix of itself."""
    detail = {"cuts": [], "problems": []}
    for bd in [b] + [f.body(n) for n in f.children(b.name) if f.body(n) is not None]:
        _shrinks_scan(f, bd, adt, bytes_f, off, detail)
    if need_site and not detail["cuts"]:
        detail["problems"].append("no truncation found")
    return (not detail["problems"], detail)


def _shrinks_scan(f, b, adt, bytes_f, off, detail):
    from props.C14 import _root_local
    s = K.sym_of(b)
    mut_locals = set()

    def is_buf_place(pl):
        return any(p[0] == "f" and p[1] == bytes_f and p[2] == adt for p in pl["p"])

    def owner_term(pl):
        """The `adt` value whose buffer the place is."""
        i = [j for j, p in enumerate(pl["p"]) if p[0] == "f" and p[1] == bytes_f and p[2] == adt][0]
        return s.place({"l": pl["l"], "p": pl["p"][:i]})
    for bi, blk in enumerate(b.blocks):
        if b.is_cleanup(bi):
            continue
        for st in blk["stmts"]:
            if st["s"] != "assign":
                continue
            if is_buf_place(st["pl"]):
                if not _copy_of_self(f, b, owner_term(st["pl"]), adt, bytes_f):
                    detail["problems"].append("modifies a URI that is not (a copy of) self")
                n = prefix_cut(f, b, s.rvalue(st["rv"]), bytes_f)
                if n is None:
                    detail["problems"].append("assigns the buffer (line %s)" % (st.get("sp") or ["?"])[0])
                else:
                    ok = at_or_after(f, b, n, off)
                    detail["cuts"].append({"assign": "prefix of self.%s" % bytes_f, "length": render(strip_deep(n))[:200],
                                           "at or after self.%s" % off: ok})
                    if not ok:
                        detail["problems"].append("prefix length not shown to be ≥ self.%s" % off)
            rv = st["rv"]
            if rv["r"] == "ref" and rv.get("mut") and is_buf_place(rv["pl"]):
                mut_locals.add(st["pl"]["l"])
                if not _copy_of_self(f, b, owner_term(rv["pl"]), adt, bytes_f):
                    detail["problems"].append("modifies a URI that is not (a copy of) self")
    for c in b.calls():
        if b.is_cleanup(c.bb):
            continue
        roots = set()
        for a in c.args:
            pl = a.get("m") or a.get("c")
            if pl is not None:
                roots.add(_root_local(b, pl["l"]))
                roots.add(pl["l"])
        if not (roots & mut_locals):
            continue
        if c.name in _SHRINK and (c.krate or "") in ("bytes", "alloc", "std", "core"):
            t = K.arg_terms(c)[_SHRINK[c.name]]
            ok = at_or_after(f, b, t, off)
            detail["cuts"].append({"call": c.name, "length": render(strip_deep(t))[:200], "at or after self.%s" % off: ok})
            if not ok:
                detail["problems"].append("%s at a length not shown to be ≥ self.%s" % (c.name, off))
        elif c.name in ("deref_mut", "as_mut", "borrow_mut"):
            mut_locals.add(c.dest["l"])
        else:
            detail["problems"].append("hands the buffer to %s" % (c.res or c.name))


_ELEMENTWISE = {"for_each", "map", "inspect", "all", "any", "filter", "find", "position", "take_while", "skip_while",
                "filter_map", "flat_map", "try_for_each", "find_map"}


def _closure_context(f, b):
    """Rendering context for a closure body that some function passes to an element-wise std iterator combinator: the
    element parameter reads as (an element of) the receiver, captures as the captured values.  {} for anything else."""
    if "::{closure" not in b.name:
        return {}
    parent = f.body(b.name.rsplit("::{closure", 1)[0])
    if parent is None:
        return {}
    for c in parent.calls():
        if c.trait != "std::iter::Iterator" or c.name not in _ELEMENTWISE or len(c.args) != 2 or parent.is_cleanup(c.bb):
            continue
        with substituting(_closure_context(f, parent)):
            a = K.arg_terms(c)
            ct = strip(a[1])
            if ct[0] != "closure" or ct[1] != b.name:
                continue
            cb, m = K.closure_env(f, ct, render(a[0]))
        if cb is not None:
            if cb.arg_count >= 2 and not cb.local_name(2):
                m[("param", "_2")] = render(a[0])
            return m
    return {}


def _lowercase_before_module(f, b, c):
    """canonical_module: make_ascii_lowercase happens before the module name is pushed."""
    later = []
    for c2 in b.calls():
        if c2.name == "push_str":
            a = K.arg_renders(c2)
            if "module_name" in a[1] or "path" in a[1]:
                later.append(c2.bb)
    if not later:
        return False
    reach_from_later = set()
    for l in later:
        reach_from_later |= b.reachable(l)
    return c.bb not in reach_from_later


def check_accessors_are_views(ctx, f):
    """A component accessor hands out a piece of the URI's own text: every value `path()`, `authority()`, `module_name()`
    … returns is a sub-slice of `self` (an `Index::index` / `get` / `split_at` view of the value's own bytes) — never a
    literal standing in for a component that is absent (the one exception: the empty string, which *is* the empty slice).
    `join`, `parent`, `relative_to` and the equality tests are written in terms of these accessors: a path-less
    `https://host` whose `path()` answers "/" is joined without a separator."""
    n = 0
    for fn in ("uri::Https::path", "uri::Rsync::path", "uri::Https::authority", "uri::Rsync::authority", "uri::Rsync::module_name",
               "uri::Https::canonical_authority", "uri::Rsync::canonical_authority"):
        b = f.body(fn)
        if b is None:
            continue
        ctx.saw_fn(fn)
        vals = [strip_deep(t) for _, _, t in success_values(b)]
        bad = []
        for v in vals:
            t = v
            # wrappers that keep the text: Cow::Borrowed(x), Cow::Owned(lowercased copy) are judged by their payload
            while t[0] == "agg" and len(t[3]) == 1:
                t = strip_deep(t[3][0][1])
            txt = K.alpha(render(t), b)
            if t[0] == "bytes" and len(t[1]) == 0:
                continue
            if t[0] in ("const", "bytes", "konst"):
                bad.append(txt[:120])
                continue
            if not re.search(r"(^|[(, ])(\w+⟵)?self\b", txt):
                bad.append(txt[:120])
        n += 1
        ctx.ob("R-FLOW", "%s:own-text" % short(fn), bool(vals) and not bad,
               "%s returns a piece of the URI's own text on every path (no literal in place of an absent component)" % short(fn),
               where=b.loc, detail=bad or None)
    ctx.floor("R-FLOW", "component accessors of Rsync / Https returning views", n, 5)
