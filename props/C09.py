"""C09 — RRDP files round-trip; hostile XML is rejected within fixed bounds
(structural clauses; DESIGN §2 C09.a–f)."""
import re
from engine import absint
from engine.absint import region_constraints as RC, outcome_str
from engine.rules import (MustPass, guard_edges, eq_matcher, pred_matcher, outcome, is_derived, root_fn, calls_to,
                          success_values, slice_patterns, loop_each_checked, bool_atom, switch_bool_edges)
from engine.sym import strip, strip_deep, render, walk, short
from props import common as K
from props.common import is_derived_body

META = {
    "level": "other",
    "technique": "static analysis of type-checked MIR (rustc_private driver): dominance of limit resets over event pulls, who-may-reset enumeration, decision-tree extraction of writer/reader name tables, abstract interpretation of the counting reader",
    "explanation": "Limit discipline: every XML event pull in the RRDP parsers is dominated by a reset of the byte counter "
                   "with a non-zero constant limit and every loop that pulls events resets it per element; only "
                   "Reader::reset_and_limit zeroes the counter and never inside an event-skipping loop; the counting "
                   "reader's decision table (fails iff limit > 0 and trip > limit; consume adds saturating; reset zeroes) by "
                   "abstract interpretation; quick-xml is only ever given the counting reader; the attribute/element names "
                   "written by write_xml equal the literal patterns the parsers accept (decision-tree extraction); escaping "
                   "byte classes; the delta-chain and origin checks' guards; unescaped text (Text::write_raw) reaches the output only through Content::raw and the base64 encoder; piecewise base64 encoding uses pieces of a multiple of 3 octets.",
    "not_decided": ["value round trip parse(write(x)) == x", "the exact byte bound (limit plus quick-xml's internal buffer)",
                    "quick-xml's own parsing and buffering"],
    "trusted_base": ["quick-xml pulls all input through BufRead::fill_buf/consume of the reader it is given"],
}

D = "xml::decode::"


def pullers(f):
    """decode.rs functions that pull events directly / after resetting the limit."""
    raw, limited = set(), set()
    RL = (_methods(f, D + "Reader", "reset_and_limit") or [D + "Reader::<R>::reset_and_limit"])[0]
    for n, b in f.bodies.items():
        if not n.startswith(D) or "::{closure" in n:
            continue
        cs = [c for c in b.calls() if not b.is_cleanup(c.bb) and c.is_static]
        pulls = [c for c in cs if re.search(r"read_(resolved_)?event_into$", c.res or "")]
        resets = [c for c in cs if c.res == RL]
        inner = [c for c in cs if (c.res or "").startswith(D) and c.res != RL and c.res in f.bodies]
        if pulls:
            raw.add(n)
        elif resets and inner:
            # wrapper: the reset dominates the delegated pull
            ok = all(i.bb not in b.reachable(0, removed_blocks={r.bb for r in resets}) for i in inner)
            if ok:
                limited.add(n)
    # functions delegating to raw pullers without a reset are raw as well (skip_opt_text …)
    changed = True
    while changed:
        changed = False
        for n, b in f.bodies.items():
            if not n.startswith(D) or "::{closure" in n or n in raw or n in limited:
                continue
            if any(c.res in raw for c in b.calls() if not b.is_cleanup(c.bb) and c.is_static):
                raw.add(n)
                changed = True
    return raw, limited


def run(ctx):
    f = ctx.facts()
    ctx.rule("R-CHK", "every event pull is dominated by a limit reset; loops reset per element")
    ctx.rule("R-REG", "decision table by abstract interpretation equals the spec")
    ctx.rule("R-WHO", "call sites are exactly the confirmed ones")
    ctx.rule("R-SIB", "writer and reader name tables agree")
    ctx.rule("R-CLS", "byte classes by abstract interpretation")
    ctx.rule("R-GRD", "success requires the guard literal")
    ctx.rule("R-PANIC", "arithmetic that hostile input can drive to overflow")

    raw, limited = pullers(f)
    RL_ = (_methods(f, D + "Reader", "reset_and_limit") or [D + "Reader::<R>::reset_and_limit"])[0]
    ctx.floor("R-CHK", "raw event pullers in xml::decode", len(raw), 6)
    ctx.floor("R-CHK", "limit-resetting wrappers in xml::decode", len(limited), 4)
    lim_values = {}

    # ---- C09.a limit discipline in the RRDP parsers ----------------------------------
    nbodies = 0
    for n, b in f.bodies.items():
        if not n.startswith("rrdp::") or is_derived(b):
            continue
        cs = [c for c in b.calls() if not b.is_cleanup(c.bb) and c.is_static]
        pulls = [c for c in cs if c.res in raw]
        lims = [c for c in cs if c.res in limited or c.res == RL_]
        if not pulls and not lims:
            continue
        nbodies += 1
        ctx.saw_fn(n)
        lim_blocks = {c.bb for c in lims}
        # limits are the named constants
        for c in lims:
            a = K.arg_renders(c)
            lv = K.fold_consts(strip_deep(K.arg_terms(c)[-1]), f.consts)
            ok = lv[0] == "const" and isinstance(lv[1], int) and not isinstance(lv[1], bool) and lv[1] > 0
            lim_values.setdefault(lv[1] if lv[0] == "const" else render(lv), []).append(c.where())
            ctx.ob("R-CHK", "%s:limit-constant@%s" % (short(root_fn(f, n)), short(c.res)), ok,
                   "%s limits %s with a non-zero constant" % (short(root_fn(f, n)), short(c.res)), where=c.where(), detail=a[-1])
        for c in pulls:
            # ObjectReader::process and helpers receive an already-limited reader from their caller
            inherits = root_fn(f, n).startswith("rrdp::ObjectReader")
            ok = inherits or c.bb not in b.reachable(0, removed_blocks=lim_blocks)
            ctx.ob("R-CHK", "%s:pull-after-limit[%s@%d]" % (short(root_fn(f, n)), short(c.res), _ord(b, c)), ok,
                   "%s pulls XML events with %s only after the byte counter was reset with a limit" % (short(root_fn(f, n)), short(c.res)),
                   where=c.where())
        for comp in b.cycles_sccs():
            comp = set(comp)
            inl = [c for c in pulls + lims if c.bb in comp]
            if not inl:
                continue
            ok = any(c.bb in comp for c in lims)
            ctx.ob("R-CHK", "%s:loop-resets-limit" % short(root_fn(f, n)), ok,
                   "the element loop in %s resets the byte counter on every iteration (limit per element, not per document)"
                   % short(root_fn(f, n)), where=b.where(min(comp)))
    ctx.floor("R-CHK", "RRDP bodies pulling XML events", nbodies, 4)
    ctx.ob("R-CHK", "limit-constants-nonzero", len(lim_values) >= 2 and all(isinstance(v, int) and v > 0 for v in lim_values),
           "the header and file size limits the RRDP parsers pass are non-zero constants (0 would disable the limit)",
           detail={str(k): len(v) for k, v in lim_values.items()})
    # ObjectReader::process is only called right after a limited pull
    for c in calls_to(f, lambda c: (c.res or "").startswith("rrdp::ObjectReader") and (c.res or "").endswith("::process")):
        b = c.body
        if b.is_cleanup(c.bb):
            continue
        lims = {x.bb for x in b.calls() if x.res in limited}
        ok = c.bb not in b.reachable(0, removed_blocks=lims)
        ctx.ob("R-CHK", "%s:ObjectReader-after-limited-element" % short(root_fn(f, b.name)), ok,
               "ObjectReader::process (which reads the object text) is entered only after the enclosing element was taken "
               "with a limit", where=c.where())

    # ---- C09.b the trip computer ------------------------------------------------------------
    # The counting reader and its two counters are found by what they do, not by their (private) names: the type
    # quick-xml is instantiated with inside the public xml::decode::Reader; "trip" is the integer field its
    # BufRead::consume accumulates into, "limit" the other one.
    cm = counter_model(f)
    BR = cm["adt"]
    RL = cm["reset_and_limit"]
    TRIP, LIMIT, INNER = cm["trip"], cm["limit"], cm["inner"]
    fb = cm["fill_buf"]
    if fb is None or TRIP is None or LIMIT is None:
        ctx.missing("R-REG", "BufReadCounter::fill_buf", "fill_buf of the counting reader / its two counters (%s)" % cm["problem"])
    else:
        ctx.saw_fn(fb.name)
        paths, it, err = K.run_absint(f, fb.name, sym_names={"self.%s" % LIMIT: "limit", "self.%s" % TRIP: "trip"},
                                      inline=lambda n: _is_counter_helper(f, cm, n))
        if paths is None:
            ctx.ob("R-REG", "fill_buf:analysable", False, "cannot establish: " + err, where=fb.loc)
        else:
            inner_rx = re.compile(r"^return \w+::fill_buf\(self\.%s\)" % re.escape(INNER or "reader"))
            ok_ret = lambda p: inner_rx.match(outcome_str(p.outcome)) is not None
            err_ret = lambda p: outcome_str(p.outcome).startswith("return Err(")
            K.check_regions(ctx, "R-REG", "BufReadCounter::fill_buf", paths, it, [
                ("limit=0", RC("limit", 0, 0), ok_ret, "delegates to the inner reader (no limit)"),
                ("limit>0, trip≤limit", RC("limit", 1, None) + RC(("trip", "limit"), None, 0), ok_ret, "delegates to the inner reader"),
                ("limit>0, trip>limit", RC("limit", 1, None) + RC(("trip", "limit"), 1, None), err_ret, "Err (limit exceeded)"),
            ], fb.loc)
    cb = cm["consume"]
    if cb is not None and TRIP is not None:
        amt = ("param", cb.local_name(2) or "_2")
        ws = [w for w in counter_writes(f, cm, cb) if w["field"] == TRIP]
        ok = len(ws) == 1 and _is_saturating_accumulate(ws[0]["value"], TRIP, amt)
        fw = [[strip_deep(a) for a in K.arg_terms(c)] for c in cb.calls() if c.name == "consume" and not cb.is_cleanup(c.bb)]
        okf = len(fw) == 1 and len(fw[0]) == 2 and render(fw[0][0]) == "self.%s" % INNER and fw[0][1] == amt
        ctx.ob("R-REG", "BufReadCounter::consume", ok and okf,
               "consume adds the consumed amount to trip (saturating) and forwards it to the inner reader", where=cb.loc,
               detail=[[render(w["value"]) for w in ws], [[render(a) for a in x] for x in fw]])
    # what Reader::reset_and_limit does to the counter, through whatever helpers (merged, split, renamed, folded in):
    # on every path it writes trip := 0 and limit := its parameter, and writes nothing else into them
    rl = f.body(RL) if RL else None
    if rl is None or TRIP is None or LIMIT is None:
        for meth in ("reset", "limit"):
            ctx.missing("R-REG", "BufReadCounter::" + meth, "Reader::reset_and_limit / the counters of the counting reader")
    else:
        ctx.saw_fn(rl.name)
        ws = counter_writes(f, cm, rl)
        must = counter_must_write(f, cm, rl)
        lim_param = ("param", rl.local_name(2) or "_2")
        per = {}
        for fld, label, want, text in ((TRIP, "reset", lambda v: _const_is(v, 0), "0"),
                                       (LIMIT, "limit", lambda v: _unmut(v) == lim_param, "the limit argument")):
            mine = [w for w in ws if w["field"] == fld]
            good = bool(mine) and all(want(w["value"]) for w in mine) and fld in must
            per[label] = good
            ctx.ob("R-REG", "BufReadCounter::" + label, good,
                   "resetting sets %s := %s (on every path of Reader::reset_and_limit, and nothing else is ever written there)"
                   % ("trip" if label == "reset" else "limit", text), where=rl.loc,
                   detail=[(w["field"], render(w["value"]), w["via"]) for w in mine] + [{"written_on_every_path": sorted(must)}])
        own = all(w["base_roots"] == {"self"} for w in ws)
        ctx.ob("R-REG", "Reader::reset_and_limit", all(per.values()) and own and len(per) == 2,
               "reset_and_limit zeroes the counter of its own reader and installs the given limit", where=rl.loc,
               detail=[(w["field"], render(w["value"]), w["via"], sorted(w["base_roots"])) for w in ws])
    # "parsing any byte stream returns an error or a value without panicking"; the chain and origin checks for any limit
    from props import C04
    entries = [n for n, r in f.fns.items() if r.get("has_body") and r.get("exported") and
               (n.startswith("rrdp::") or n.startswith("<rrdp::") or n.startswith("xml::decode::"))]
    C04.check_reachable_sites(ctx, f, entries, "the RRDP parsers, processors and notification-file checks", 120, 150)
    K.check_attribute_arms(ctx, f, "R-SIB", "rrdp::", 5)
    K.check_element_slots_fresh(ctx, f, "R-SIB", "rrdp::", 3)
    K.check_attr_values_unescaped(ctx, f)
    K.check_attr_ascii_after_unescape(ctx, f)
    check_text_impls_escape(ctx, f)
    K.check_raw_text_writers(ctx, f)
    K.check_base64_chunking(ctx, f)
    # the root element of the three RRDP documents is read under one and the same (header) limit
    roots_ = {}
    elems = {}
    for n, b in sorted(f.bodies.items()):
        if not n.startswith("rrdp::"):
            continue
        for c in b.calls():
            if b.is_cleanup(c.bb) or not (c.name or "").endswith("_with_limit"):
                continue
            lim = K.arg_renders(c)[-1]
            (roots_ if c.name == "start_with_limit" else elems).setdefault(short(root_fn(f, n)), []).append(lim)
    vals = {v for vs in roots_.values() for v in vs}
    okr = len(roots_) >= 3 and len(vals) == 1 and all(v.isdigit() for v in vals) and \
        all(int(next(iter(vals))) <= int(e) for es in elems.values() for e in es if e.isdigit())
    ctx.ob("R-SIB", "rrdp:root-element-limit-agrees", okr,
           "notification, snapshot and delta parsers read their root element under the same byte limit, which is not larger than "
           "any per-element limit", detail={"root": roots_, "elements": elems})
    # who may zero the counter: only reset_and_limit, and never from inside a loop of the event pullers (a reset per
    # skipped comment / declaration would make the limit per event instead of per element)
    # Direct writers: every body of the crate that assigns one of the two counters of an existing counting reader, other
    # than consume's accumulation.  A private (inherent) method of the counting reader is plumbing: it counts for
    # whoever calls it.  What remains must be Reader::reset_and_limit alone.
    who, resetters = counter_resetters(f, cm)
    ctx.ob("R-WHO", "BufReadCounter::reset/limit-callers", bool(RL) and who == [RL],
           "the byte counter is zeroed / re-limited only by Reader::reset_and_limit", detail=who)
    inloop = []
    nres = 0
    for n, b in f.bodies.items():
        if not n.startswith(D) or is_derived_body(b):
            continue
        sccs = b.cycles_sccs()
        sites = [(c.bb, c.where()) for c in b.calls() if not b.is_cleanup(c.bb) and c.res in resetters]
        sites += [(w["bb"], b.where(w["bb"])) for w in counter_writes(f, cm, b, depth=0) if w["reset"]]
        for bb, where in sites:
            nres += 1
            if any(bb in comp for comp in sccs):
                inloop.append("%s @ %s" % (short(root_fn(f, n)), where))
    ctx.ob("R-CHK", "xml::decode:no-reset-inside-a-puller-loop", not inloop,
           "no function of xml::decode resets the byte counter inside one of its own event-skipping loops (the limit covers "
           "everything up to and including the element it is set for)", detail=inloop or None)
    ctx.floor("R-CHK", "counter resets in xml::decode", nres, 4)
    # quick-xml is only ever handed the counting reader
    mk = calls_to(f, lambda c: re.search(r"quick_xml::.*(NsReader|Reader).*::from_reader$", c.res or "") is not None)
    sites = sorted({root_fn(f, c.body.name) for c in mk})
    ok = bool(sites) and sites == _methods(f, D + "Reader", "new") and all(_is_counter_over_param(f, cm, c) for c in mk)
    ctx.ob("R-WHO", "quick_xml-reader-construction", ok,
           "the only quick-xml reader in the crate is built in xml::decode::Reader::new over a BufReadCounter", detail=sites)

    # ---- C09.c writer / reader name tables ---------------------------------------------------
    pairs = [
        ("notification", [r"^rrdp::NotificationFile::write_xml"], [r"^rrdp::NotificationFile::_parse::"]),
        ("snapshot", [r"^rrdp::Snapshot::write_xml", r"^rrdp::PublishElement::write_xml"], [r"^rrdp::ProcessSnapshot::process::"]),
        ("delta", [r"^rrdp::Delta::write_xml", r"^rrdp::(Publish|Update|Withdraw|Delta)Element::write_xml"], [r"^rrdp::ProcessDelta::process::"]),
    ]
    for label, wrx, rrx in pairs:
        wsets = {}
        wbodies = _with_private_helpers(f, [n for n in f.bodies if any(re.search(x, n) for x in wrx)])
        rbodies = _with_private_helpers(f, [n for n in f.bodies if any(re.search(x, n) for x in rrx)])
        for n, b in f.bodies.items():
            if n not in wbodies:
                continue
            for c in b.calls():
                if b.is_cleanup(c.bb) or not (c.res or "").startswith("xml::encode::Element") or c.name != "attr":
                    continue
                a = K.arg_terms(c)
                # the element this attribute is written on: the nearest `element(..)` call of the receiver chain
                el = next((x for x in walk(strip_deep(a[0])) if x[0] == "call" and (x[3] or {}).get("name") == "element"
                           and ((x[3] or {}).get("res") or "").startswith("xml::encode::") and len(x[2]) == 2), None)
                elname = _name_bytes(f, el[2][1]) if el is not None else None
                at = strip_deep(a[1])
                nm = at[1] if at[0] == "bytes" else _const_bytes(f, at[1]) if at[0] == "cdef" else None
                wsets.setdefault(elname if elname is not None else b"?" + render(el[2][1] if el else a[0])[:60].encode(), set()).add(
                    nm if nm is not None else b"?" + render(at).encode())
        for el in wsets:
            wsets[el].discard(b"xmlns")
        rsets = []
        for n, b in f.bodies.items():
            if n not in rbodies or "::{closure" not in n:
                continue
            if b.arg_count < 2 or not b.local_ty(2).startswith("&[u8]"):
                continue
            words, wild_ok = accepted_names(f, b, 2)
            rsets.append((frozenset(words), wild_ok, n))
        ws = sorted(sorted(v) for v in wsets.values() if v)
        rs = sorted(sorted(w) for w, _, _ in rsets if w)
        ok = bool(ws) and all(w in rs for w in ws) and not any(wild for _, wild, _ in rsets)
        ctx.ob("R-SIB", "%s:attribute-names" % label, ok,
               "every attribute-name set written for the %s file is exactly a set its parser accepts, and the parser rejects "
               "unknown attribute names" % label, detail={"written": [[x.decode() for x in w] for w in ws],
                                                          "accepted": [[x.decode() for x in r] for r in rs]})
        # element names: the local names written are literal patterns / constants the parser matches
        def const_local(cname):
            return _name_bytes(f, ("cdef", cname))
        wnames = {None if x.startswith(b"?") else x for x in wsets}
        rnames = set()
        for n, b in f.bodies.items():
            if n not in rbodies:
                continue
            oc = outcome(b)
            for w, leaf in slice_patterns(b, None, "local"):
                if w is not None and leaf not in oc.fail_blocks:
                    rnames.add(w)
            for c in b.calls():
                if c.name in ("eq", "ne") and not b.is_cleanup(c.bb):
                    for a in K.arg_terms(c):
                        a = strip_deep(a)
                        if a[0] == "cdef" or (a[0] == "call" and ((a[3] or {}).get("res") or "").startswith("xml::decode::Name")):
                            rnames.add(_name_bytes(f, a))
        ctx.ob("R-SIB", "%s:element-names" % label, bool(wnames) and None not in wnames and wnames <= rnames,
               "every element name written for the %s file is a name its parser matches" % label,
               detail={"written": sorted(x.decode() if x else "?" for x in wnames), "parsed": sorted(x.decode() for x in rnames if x)})

    # ---- C09.d escaping ---------------------------------------------------------------------
    rep = escape_table(f)
    if rep["body"] is None:
        ctx.missing("R-CLS", "TextEscape::replace_char", "xml::encode::TextEscape::replace_char")
    else:
        rb = rep["body"]
        ctx.saw_fn(rb.name)
        for mode, want, text in (("Attr", b"<>\"'&", "in attribute values exactly < > \" ' & are replaced"),
                                 ("Pcdata", b"<&", "in character data exactly < & are replaced")):
            ok, det = escape_class_ok(rep, mode, want)
            ctx.ob("R-CLS", "replace_char:" + mode, ok, text + " (each by a reference to itself)", where=rb.loc, detail=det)

    # ---- C09.e origin and delta-chain checks --------------------------------------------------
    hb = f.body("rrdp::NotificationFile::has_matching_origins")
    if hb is None:
        ctx.missing("R-GRD", "has_matching_origins", "rrdp::NotificationFile::has_matching_origins")
    else:
        ctx.saw_fn(hb.name)
        base = re.escape(hb.local_name(2) or "_2") if hb.arg_count >= 2 else "base"
        snap = _uri_of(r"(?:NotificationFile::snapshot\(self\)|self\.snapshot)")
        g = _sym_pred_matcher(r"Https::eq_authority$", "^%s$" % base, "^%s$" % snap)
        mp = MustPass(f, lambda c: False, guard_fn=lambda bd, s, bb: guard_edges(bd, s, bb, g), name="snapshot authority",
                      ret_guard=lambda t: _ret_is_literal(t, g))
        ok = mp.holds(hb.name) and _ret_guard_final(hb, lambda t: _ret_is_literal(t, g))
        if not ok:
            # the snapshot URI as one more element of an iteration all of whose elements are tested
            # (`once(snapshot).chain(deltas).all(..)`)
            def snap_lit(shape, elem, bd):
                if shape != "single" or not re.match("^%s$" % snap, elem):
                    return None
                return K.pred_lit(r"^Https::eq_authority\((?:%s, %s|%s, %s)\)$" % (base, re.escape(elem), re.escape(elem), base))
            ok = _forall_deltas(f, hb, snap_lit, about_list=False)[0]
        ctx.ob("R-GRD", "has_matching_origins:snapshot", ok, "true only if the snapshot URI has the base's authority", where=hb.loc,
               detail=None if ok else K.why(f, mp, hb.name))
        # deltas: every element of the delta list is tested (loop, all / any / find …); an absent (Err) or empty list has
        # nothing to test
        def origin_lit(shape, elem, bd):
            if shape != "each":
                return None
            # the element itself, or already its URI (`.map(|d| d.uri())` in front of the quantifier)
            u = re.escape(elem) if re.match("^%s$" % _uri_of("‹e›"), elem) else _uri_of(re.escape(elem))
            return K.pred_lit(r"^Https::eq_authority\((?:%s, %s|%s, %s)\)$" % (base, u, u, base))
        okd, det = _forall_deltas(f, hb, origin_lit)
        ctx.ob("R-GRD", "has_matching_origins:every-delta", okd,
               "true only if no delta URI has another authority (every delta is tested)", where=hb.loc, detail=None if okd else det)
    sb = f.body("rrdp::NotificationFile::sort_and_verify_deltas")
    if sb is None:
        ctx.missing("R-GRD", "sort_and_verify_deltas", "rrdp::NotificationFile::sort_and_verify_deltas")
    else:
        ctx.saw_fn(sb.name)
        oc = outcome(sb)
        s = oc.sym
        carried = _carried_serials(f, sb)

        def chain_lit(shape, elem, bd):
            e = re.escape(elem)
            if shape == "windows":
                return _succ_lit(_serial_of(e + r"\[0\]"), _serial_of(e + r"\[1\]"))
            if shape == "zip":
                return _succ_lit(_serial_of(e + r"\.0"), _serial_of(e + r"\.1"))
            if shape == "tail" and bd is sb and carried:
                return _succ_lit(r"(?:%s)" % "|".join(r"\$" + re.escape(n) for n in sorted(carried)), _serial_of(e))
            return None
        okg, det = _forall_deltas(f, sb, chain_lit, need_update=carried)
        ctx.ob("R-GRD", "sort_and_verify_deltas:consecutive", okg,
               "sort_and_verify_deltas returns true only if each retained delta's serial is the previous one plus 1", where=sb.loc,
               detail=None if okg else det)
        # "serial + 1" as a panicking addition: an Add overflow assert one of whose operands is a delta's serial (read
        # through the accessor / field, or carried in a local)
        ser_rx = re.compile(r"\b\w+::serial\(|\.serial\b" + ("|\\$(?:%s)\\b" % "|".join(map(re.escape, sorted(carried))) if carried else ""))
        overflow = []
        for bi, blk in enumerate(sb.blocks):
            t = blk["term"]
            if t["t"] == "assert" and t["kind"].startswith("Overflow:Add"):
                ops = [render(strip_deep(s.operand(o))) for o in t["ops"]]
                if any(ser_rx.search(o) for o in ops):
                    overflow.append(sb.where(bi))
        ctx.ob("R-PANIC", "sort_and_verify_deltas:serial+1-cannot-overflow", not overflow,
               "the successor of a delta serial taken from the (untrusted) notification file is computed without an "
               "overflowing addition", where=overflow[0] if overflow else sb.loc, detail=overflow or None)
        srt = [c for c in sb.calls() if re.match(r"^sort", c.name or "") and not sb.is_cleanup(c.bb)]
        after = sb.reachable(srt[0].bb) if len(srt) == 1 else set()
        uses = [x.bb for x in sb.calls() if x.name == "serial" and not sb.is_cleanup(x.bb)] + list(det.get("check_blocks", ()))
        ctx.ob("R-CHK", "sort_and_verify_deltas:sorted-first", len(srt) == 1 and all(bb in after for bb in uses),
               "the deltas are sorted by serial before the chain is checked", where=sb.loc)


# ---------------------------------------------------------------------------------------------
# C09.e: quantified checks over the notification's delta list, whatever their spelling
#
#   "returns true only if every delta d satisfies L(d)"        (origin check)
#   "returns true only if every adjacent pair (p, n) of the retained deltas satisfies L(p, n)"   (chain check)
#
# is established from three facts read off the MIR, none of which depends on local / parameter / helper names:
#   (1) WHAT is iterated: the receiver of the loop's `next` / of the combinator denotes the delta list
#       (`self.deltas↓Ok.0`, or an accessor of `self` returning it — and nothing for an Err list), possibly through an
#       adjacent-pair adapter (`windows(2)`, `zip(skip(1))`, the tail `[1..]` with the predecessor carried in a local);
#   (2) the per-element decision: the loop continues / the predicate closure reports "passed" only when the literal
#       holds (engine.orderlogic.implies on the closure; guard edges in the loop form);
#   (3) the function's own decision: every path to a `true` return crosses "list is Err", "list is empty", "the
#       combinator said every element passed" (as a branch or as the returned value itself) or the exhausted-iterator
#       exit of a loop whose every iteration is guarded.
# Newly extracted private helpers are folded back by the engine's views before this is looked at.

from engine import orderlogic as _OL
from engine import sym as _symmod
from engine.sym import Sym as _Sym
from engine.rules import variant_edge, any_of, bool_place_edge, switch_on_locals

_QUANT = {"all": True, "any": False, "find": False, "position": False}


def _uri_of(x):
    """regex: the URI of the UriAndHash / DeltaInfo rendered as (regex) x, by accessor or by field."""
    return r"(?:\w+::uri\(%s(?:\.\w+)?\)|%s(?:\.\w+)?\.uri)" % (x, x)


def _serial_of(x):
    return r"(?:\w+::serial\(%s\)|%s\.serial)" % (x, x)


def _sym_pred_matcher(name_rx, a_rx, b_rx):
    """guard matcher for a symmetric binary predicate `name(A, B)` / `name(B, A)`."""
    rn, ra, rb = re.compile(name_rx), re.compile(a_rx), re.compile(b_rx)

    def m(rel, a, b):
        if not (isinstance(rel, tuple) and rel[0] == "pred") or len(a) != 2:
            return None
        if not (rn.search(rel[1]) or rn.search(short(rel[1]))):
            return None
        x, y = render(a[0]), render(a[1])
        if (ra.search(x) and rb.search(y)) or (ra.search(y) and rb.search(x)):
            return True
        return None
    return m


def _ret_is_literal(t, matcher):
    """the returned bool is the guard literal itself (`a && b` returns b on the a-edge)."""
    at = bool_atom(t)
    if at is None:
        return False
    rel, a, b, pos = at
    m = matcher(rel, a, b)
    return m is not None and m == pos


def _ret_guard_final(b, ret_guard):
    """A returned value that *is* the guard only counts if it stays the returned value: no other (non-guard) success
    value may be assigned to the return place after it."""
    vals = success_values(b)
    for bi, _, t in vals:
        if not ret_guard(t):
            continue
        later = b.reachable(bi) - {bi}
        for bj, _, tj in vals:
            if bj in later and not ret_guard(tj):
                return False
    return True


def _alts(b, t, depth=0):
    """the values a (possibly multiply assigned) term stands for."""
    t = strip_deep(t)
    if t[0] == "var" and depth < 3:
        out = []
        for _, v in outcome(b).sym.defs_of_var(t[2]):
            out += _alts(b, v, depth + 1)
        return out
    # `r.unwrap_or(d)` is the payload of r or d; `r.unwrap_or_default()` the payload or the empty value (std contract)
    if t[0] == "call" and depth < 3 and (t[3] or {}).get("krate") in ("core", "std", "alloc") and \
            (t[3] or {}).get("name") in ("unwrap_or", "unwrap_or_default") and \
            re.search(r"(result::Result|option::Option)::<.*>::unwrap_or(_default)?$", (t[3] or {}).get("res") or ""):
        vn = "Ok" if "result::Result" in t[3]["res"] else "Some"
        payload = ("field", ("variant", strip_deep(t[2][0]), vn), "0", None)
        other = strip_deep(t[2][1]) if t[3]["name"] == "unwrap_or" and len(t[2]) == 2 else ("agg", "array", "", ())
        return _alts(b, payload, depth + 1) + _alts(b, other, depth + 1)
    return [t]


def _unmut(t):
    t = strip_deep(t)
    while t[0] == "mvar":
        t = strip_deep(t[3])
    return t


def _deltas_field(f):
    """name of the field of NotificationFile that holds the list of deltas (found by its type)."""
    adt = f.adts.get("rrdp::NotificationFile")
    for fl in (adt["variants"][0]["fields"] if adt and adt.get("variants") else ()):
        if "DeltaInfo" in fl["ty"]:
            return fl["name"]
    return "deltas"


def _is_delta_list(f, t, depth=0):
    """term denotes the notification's list of deltas (the Ok payload of `self.deltas`, directly or via an accessor of
    `self` every result of which is that payload or an empty slice)."""
    t = _unmut(t)
    if render(t) == "self.%s↓Ok.0" % _deltas_field(f):
        return True
    if t[0] == "call" and len(t[2]) == 1 and render(t[2][0]) == "self" and depth < 2:
        cb = f.body((t[3] or {}).get("res") or t[1])
        if cb is None or cb.arg_count != 1 or cb.local_name(1) != "self" or cb.cycles_sccs():
            return False
        vals = [v for _, _, x in success_values(cb) for v in _alts(cb, x)]
        real = [v for v in vals if _is_delta_list(f, v, depth + 1)]
        rest = [v for v in vals if not _is_delta_list(f, v, depth + 1)]
        return bool(real) and all(v[0] == "agg" and v[1] == "array" and not v[3] for v in rest)
    return False


def _const_is(t, n):
    t = strip_deep(t)
    return t[0] == "const" and not isinstance(t[1], bool) and t[1] == n


def _split_first_call(f, t):
    """t is `list.split_first()` on the delta list (std: None iff the list is empty, else (first, rest))."""
    t = _unmut(t)
    return t[0] == "call" and (t[3] or {}).get("name") == "split_first" and len(t[2]) == 1 and \
        (t[3] or {}).get("krate") in ("core", "std", "alloc") and _is_delta_list(f, t[2][0])


def _split_first_of(f, t):
    """t is the `Some` payload of `list.split_first()`."""
    t = _unmut(t)
    return t[0] == "field" and str(t[2]) == "0" and _unmut(t[1])[0] == "variant" and _unmut(t[1])[2] == "Some" and \
        _split_first_call(f, _unmut(t[1])[1])


def _receiver_shape(f, t):
    """How the iterated value relates to the delta list: 'each' (its elements), 'windows' (adjacent pairs as 2-slices),
    'zip' (adjacent pairs as tuples), 'tail' (all but the first element); None if it is something else."""
    t = _unmut(t)
    if _is_delta_list(f, t):
        return "each"
    # `let Some((first, rest)) = list.split_first()`: `rest` is the list without its first element
    if t[0] == "field" and str(t[2]) == "1" and _split_first_of(f, t[1]):
        return "tail"
    if t[0] != "call":
        return None
    name = (t[3] or {}).get("name")
    a = t[2]
    if name == "windows" and len(a) == 2 and _is_delta_list(f, a[0]) and _const_is(a[1], 2):
        return "windows"
    if name == "zip" and len(a) == 2 and _is_delta_list(f, a[0]) and _receiver_shape(f, a[1]) == "tail":
        return "zip"
    if name == "skip" and len(a) == 2 and _is_delta_list(f, a[0]) and _const_is(a[1], 1):
        return "tail"
    if name == "index" and len(a) == 2 and _is_delta_list(f, a[0]) and \
            re.match(r"^ops::RangeFrom::RangeFrom\{start: 1\}$", render(strip_deep(a[1]))):
        return "tail"
    return None


def _sources(f, t, depth=0):
    """What an iterator expression yields, as a list of sources [(shape, element text)]: `chain(a, b)` yields what a and b
    yield, `once(x)` the single value x (shape 'single', text = x), `map(it, g)` the image under g of what `it` yields
    (g read in the vocabulary of the iteration: its parameter is the element), anything else is classified by
    _receiver_shape.  None if some part is not understood."""
    t = _unmut(t)
    if depth > 4:
        return None
    if t[0] == "call":
        name = (t[3] or {}).get("name")
        a = t[2]
        if name == "chain" and len(a) == 2 and (t[3] or {}).get("trait") == "std::iter::Iterator":
            x, y = _sources(f, a[0], depth + 1), _sources(f, a[1], depth + 1)
            return None if x is None or y is None else x + y
        if name == "once" and len(a) == 1 and re.search(r"iter::(sources::once::)?once$", (t[3] or {}).get("res") or ""):
            return [("single", render(strip_deep(a[0])))]
        if name == "map" and len(a) == 2 and (t[3] or {}).get("trait") == "std::iter::Iterator" and strip(a[1])[0] == "closure":
            inner = _sources(f, a[0], depth + 1)
            if inner is None:
                return None
            out = []
            for shape, elem in inner:
                gb, gm = K.closure_env(f, strip(a[1]), elem)
                if gb is None or gb.cycles_sccs():
                    return None
                if gb.arg_count >= 2 and not gb.local_name(2):
                    gm[("param", "_2")] = elem
                vals = success_values(gb)
                if len(vals) != 1:
                    return None
                with _symmod.substituting(gm):
                    out.append((shape, render(strip_deep(vals[0][2]))))
            return out
    shape = _receiver_shape(f, t)
    return None if shape is None else [(shape, "‹e›")]


def _carried_serials(f, b):
    """names of the locals that carry "the previous element's serial" round a loop: assigned more than once, and only
    ever the serial of an element of the delta list."""
    s = outcome(b).sym
    out = set()
    for l, ds in b.defs().items():
        if l <= b.arg_count or len([d for d in ds if d[2] in ("assign", "call")]) < 2:
            continue
        vals = [strip_deep(v) for _, v in s.defs_of_var(l)]
        ok = bool(vals)
        for v in vals:
            fld = None
            if v[0] == "call" and (v[3] or {}).get("name") == "serial" and len(v[2]) == 1:
                fld = _unmut(v[2][0])
            elif v[0] == "field" and v[2] == "serial":
                fld = _unmut(v[1])
            if fld is None:
                ok = False
                break
            # an element: list[i] / Index::index(list, i) / the item of an iteration over (part of) the list
            r = render(fld)
            if not ("self.%s↓Ok.0" % _deltas_field(f) in r or re.search(r"\bNotificationFile::\w+\(self\)", r)):
                ok = False
                break
        if ok:
            out.add(b.local_name(l) or "_%d" % l)
    return out


def _succ_lit(prev_rx, next_rx):
    """orderlogic literal "next == prev + 1" in any of its spellings (prev_rx / next_rx: regexes of the two serials)."""
    P, N = prev_rx, next_rx
    forms = [
        (r"num::checked_add\(%s, 1\)" % P, r"option::Option::Some\{0: %s\}" % N),
        (r"(?:AddWithOverflow|Add)\(%s, 1\)(?:\.0)?" % P, N),
        (r"(?:AddWithOverflow|Add)\(1, %s\)(?:\.0)?" % P, N),
        (r"(?:SubWithOverflow|Sub)\(%s, %s\)(?:\.0)?" % (N, P), r"1"),
        (r"num::checked_sub\(%s, %s\)" % (N, P), r"option::Option::Some\{0: 1\}"),
        (r"num::checked_sub\(%s, 1\)" % N, r"option::Option::Some\{0: %s\}" % P),
    ]
    forms = [(re.compile("^" + l + "$"), re.compile("^" + r + "$")) for l, r in forms]

    def lit(a):
        if a[0] != "cmp" or a[1] not in ("==", "!="):
            return None
        x, y = render(a[2]), render(a[3])
        for l, r in forms:
            if (l.match(x) and r.match(y)) or (l.match(y) and r.match(x)):
                return a[1] == "=="
        return None
    return lit


def _lit_guard(lit):
    """guard_fn for MustPass / loop_each_checked from an orderlogic literal: the edges on which the literal holds."""
    def g(bd, s, bb):
        t = bd.term(bb)
        if t["t"] != "switch" or t.get("dty") != "bool":
            return None
        e = switch_bool_edges(bd, bb)
        if e is None:
            return None
        a = _OL.atom(s.operand(t["discr"]))
        truth = True
        while a[0] == "not":
            a, truth = a[1], not truth
        if a[0] in ("const", "switch"):
            return None
        m = lit(a)
        if m is None:
            return None
        return [(bb, e[1] if m == truth else e[0])]
    return g


def _forall_deltas(f, b, lit_for, need_update=None, about_list=True):
    """(ok, detail): `b` returns true only if the delta list is absent / empty or every element (adjacent pair) of it
    satisfies the literal.  lit_for(shape, element text, body) -> orderlogic literal, or None when the shape does not
    suit the property.  need_update: names of the carried locals (tail shape): they must be re-assigned on every
    continuing path of the loop."""
    oc = outcome(b)
    sy = oc.sym
    det = {"sites": []}
    passing_edges = set()
    ret_ok = []           # renderings of returned values that mean "every element passed"
    sites = []

    # -- combinator form ------------------------------------------------------------------------------------------
    for c in b.calls():
        pairwise = c.name == "is_sorted_by" and (c.trait == "std::iter::Iterator" or re.search(r"slice::<impl \[T\]>::is_sorted_by$", c.res or ""))
        if not pairwise and (c.name not in _QUANT or c.trait != "std::iter::Iterator"):
            continue
        if len(c.args) != 2 or b.is_cleanup(c.bb):
            continue
        a = K.arg_terms(c)
        srcs = _sources(f, a[0])
        ct = strip(a[1])
        if not srcs or ct[0] != "closure":
            continue
        if pairwise:
            # `list.is_sorted_by(|p, n| ..)`: true iff the closure holds for every adjacent pair — the pairs of `zip`
            if srcs != [("each", "‹e›")]:
                continue
            srcs = [("zip", "‹e›")]
        # the source this obligation is about (what else the iteration runs over only adds conditions)
        shape, elem = srcs[0]
        lit = None
        for shape, elem in srcs:
            lit = lit_for(shape, elem, None)
            if lit is not None:
                break
        if lit is None:
            det["sites"].append({"at": c.where(), "form": c.name, "over": shape, "problem": "this iteration cannot establish the fact"})
            continue
        cb, m = K.closure_env(f, ct, elem)
        if cb is None:
            det["sites"].append({"at": c.where(), "form": c.name, "problem": "closure body not found"})
            continue
        if cb.arg_count >= 2 and not cb.local_name(2):
            m[("param", "_2")] = elem           # destructuring parameter pattern (`|(a, b)|`): the parameter has no name
        cname = "all" if pairwise else c.name
        if pairwise:
            if cb.arg_count != 3:
                continue
            m.pop(("param", cb.local_name(2)), None)
            m[("param", cb.local_name(2) or "_2")] = elem + ".0"
            m[("param", cb.local_name(3) or "_3")] = elem + ".1"
        with _symmod.substituting(m):
            ok1, d1 = _OL.implies(cb, _Sym(cb), _QUANT[cname], lit)
        if not ok1:
            det["sites"].append({"at": c.where(), "form": "%s(closure) over %s" % (c.name, shape), "closure": cb.name,
                                 "closure_can_pass_without_the_test": d1})
            continue
        if c.dest is None or c.dest["p"]:
            continue
        call_text = render(strip_deep(sy.call(b.term(c.bb), c.bb)))
        sites.append((c.bb, cname, call_text))
        det["sites"].append({"at": c.where(), "form": "%s(closure) over %s" % (c.name, shape), "closure": "ok"})

    def comb_edges(bd, s, bb):
        t = bd.term(bb)
        if t["t"] != "switch":
            return None
        out = []
        for _, name, text in sites:
            rx = "^" + re.escape(text) + "$"
            if name in ("all", "any"):
                e = bool_place_edge(bd, s, bb, rx, name == "all")
            else:
                e = variant_edge(bd, s, bb, rx, 0)
                if not e and t.get("dty") == "bool":
                    at = bool_atom(s.operand(t["discr"]))
                    if at and isinstance(at[0], tuple) and at[0][2] in ("is_none", "is_some") and len(at[1]) == 1 \
                            and re.match(rx, render(at[1][0])):
                        fe, te = switch_bool_edges(bd, bb)
                        e = [(bb, te if (at[0][2] == "is_none") == at[3] else fe)]
            if e:
                out += e
        return out or None

    def ret_guard(t):
        t = strip_deep(t)
        pos = True
        while t[0] == "un" and t[1] == "Not":
            pos = not pos
            t = strip_deep(t[2])
        if t[0] == "call" and (t[3] or {}).get("name") in ("is_none", "is_some") and len(t[2]) == 1:
            inner = strip_deep(t[2][0])
            for _, name, text in sites:
                if name in ("find", "position") and render(inner) == text:
                    return ((t[3] or {}).get("name") == "is_none") == pos
            return False
        for _, name, text in sites:
            if name in ("all", "any") and render(t) == text:
                return (name == "all") == pos
        return False

    # -- loop form ----------------------------------------------------------------------------------------------------
    loop_exit_edges = set()
    for c in b.calls():
        if c.name != "next" or c.trait != "std::iter::Iterator" or b.is_cleanup(c.bb) or not c.args:
            continue
        recv = K.arg_terms(c)[0]
        shape = _receiver_shape(f, recv)
        if shape is None:
            continue
        call_text = render(strip_deep(sy.call(b.term(c.bb), c.bb)))
        elem = call_text + "↓Some.0"
        lit = lit_for(shape, elem, b)
        if lit is None:
            det["sites"].append({"at": c.where(), "form": "loop", "over": shape, "problem": "this iteration cannot establish the fact"})
            continue
        g = _lit_guard(lit)
        res = loop_each_checked(b, lambda x, c=c: x.bb == c.bb, g, oc=oc)
        okl = bool(res) and all(ok for _, ok, _ in res)
        upd = None
        if okl and shape == "tail" and need_update:
            # the predecessor is carried in a local: it has to become the current element's serial before the next round
            names = set(need_update)
            asg = set()
            for l, ds in b.defs().items():
                if (b.local_name(l) or "_%d" % l) not in names:
                    continue
                for bi, v in sy.defs_of_var(l):
                    if re.match("^" + _serial_of(re.escape(elem)) + "$", render(strip_deep(v))):
                        asg.add(bi)
            res2 = loop_each_checked(b, lambda x, c=c: x.bb == c.bb, None, oc=oc, require_for_return=False, pass_blocks=asg)
            upd = bool(asg) and bool(res2) and all(ok for _, ok, _ in res2)
            okl = okl and upd
        det["sites"].append({"at": c.where(), "form": "loop over %s" % shape, "each_iteration_guarded": [d for _, _, d in res],
                             "predecessor_updated": upd})
        if not okl:
            continue
        sites.append((c.bb, "loop", call_text))
        for sw in switch_on_locals(b, {c.dest["l"]}) if c.dest is not None and not c.dest["p"] else ():
            for v, tb in b.switch_edges(sw):
                if v == 0:
                    loop_exit_edges.add((sw, tb))

    if not sites:
        det["problem"] = "no loop or all/any/find over the delta list with the required test found"
        return False, det

    def guard_fn(bd, s, bb):
        out = []
        e = variant_edge(bd, s, bb, r"^self\.%s$" % re.escape(_deltas_field(f)), 1) if about_list else None
        if e:
            out += e
        t = bd.term(bb)
        if about_list and t["t"] == "switch" and t.get("dty") == "bool":
            at = bool_atom(s.operand(t["discr"]))
            if at and isinstance(at[0], tuple) and at[0][2] == "is_empty" and len(at[1]) == 1 and _is_delta_list(f, at[1][0]):
                fe, te = switch_bool_edges(bd, bb)
                out.append((bb, te if at[3] else fe))
        if about_list and t["t"] == "switch" and t.get("dty") != "bool":
            # `list.split_first()` is None: the list is empty, there is nothing to test
            d = _unmut(s.operand(t["discr"]))
            if d[0] == "discr" and _split_first_call(f, d[1]):
                out += [(bb, tb) for v, tb in bd.switch_edges(bb) if v != 1]
        e = comb_edges(bd, s, bb)
        if e:
            out += e
        out += [x for x in loop_exit_edges if x[0] == bb]
        return out or None
    mp = MustPass(f, lambda c: False, guard_fn=guard_fn, ret_guard=ret_guard, name="every element tested")
    ok = mp.holds(b.name) and _ret_guard_final(b, ret_guard)
    if not ok:
        det["true_reachable_without_the_test"] = K.why(f, mp, b.name)
    det["check_blocks"] = sorted(bb for bb, _, _ in sites)
    return ok, det



# ---------------------------------------------------------------------------------------------
# C09.b: the counting reader, by role
#
# Nothing here depends on the private names `BufReadCounter`, `trip`, `limit`, `reset`, `restart` …: the counting reader
# is the type quick-xml is instantiated with in the (public) xml::decode::Reader; `trip` is the integer field its
# BufRead::consume accumulates into and `limit` its other integer field; "what reset_and_limit does" is the set of
# writes to those two fields in reset_and_limit and in everything of xml::decode it calls with the reader or counter.

_INT_TY = re.compile(r"^[ui](8|16|32|64|128|size)$")


def _methods(f, adt, name, trait=None):
    """def paths of the methods `name` of `adt` (inherent, or of the given trait) — whatever its type parameters are called."""
    return sorted(n for n, r in f.fns.items() if r.get("name") == name and r.get("impl_adt") == adt and r.get("has_body")
                  and (r.get("impl_trait") or None) == trait)


def counter_model(f):
    m = {"adt": D + "BufReadCounter", "trip": None, "limit": None, "inner": None, "fill_buf": None, "consume": None,
         "reset_and_limit": None, "problem": None}
    rd = f.adts.get(D + "Reader")
    for fl in (rd["variants"][0]["fields"] if rd and rd.get("variants") else ()):
        mm = re.search(r"quick_xml::[\w:]*Reader<(xml::decode::\w+)\b", fl["ty"])
        if mm:
            m["adt"] = mm.group(1)
    rl = _methods(f, D + "Reader", "reset_and_limit")
    m["reset_and_limit"] = rl[0] if len(rl) == 1 else None
    adt = f.adts.get(m["adt"])
    if not adt or not adt.get("variants"):
        m["problem"] = "counting reader type not found"
        return m
    ints = [fl["name"] for fl in adt["variants"][0]["fields"] if _INT_TY.match(fl["ty"])]
    other = [fl["name"] for fl in adt["variants"][0]["fields"] if not _INT_TY.match(fl["ty"])]
    m["inner"] = other[0] if len(other) == 1 else None
    for key in ("fill_buf", "consume"):
        bs = _methods(f, m["adt"], key, "std::io::BufRead")
        m[key] = f.body(bs[0]) if len(bs) == 1 else None
    if len(ints) != 2 or m["consume"] is None:
        m["problem"] = "expected two integer counters and a BufRead::consume, found %r" % (ints,)
        return m
    m["fields"] = set(ints)
    acc = {w["field"] for w in counter_writes(f, m, m["consume"], depth=0)}
    if len(acc) == 1:
        m["trip"] = next(iter(acc))
        m["limit"] = [x for x in ints if x != m["trip"]][0]
    else:
        m["problem"] = "consume writes %r" % sorted(acc)
    return m


def _is_counter_helper(f, cm, n):
    r = f.fns.get(n) or {}
    return n in f.bodies and r.get("impl_adt") == cm["adt"] and not r.get("impl_trait")


def _counter_field(cm, t):
    """name of the counter field a (place) term denotes, else None."""
    t = _unmut(t)
    if t[0] == "field" and len(t) > 3 and t[3] == cm["adt"] and str(t[2]) in cm.get("fields", ()):
        return str(t[2])
    return None


def _reads_field(cm, v, fld):
    return any(_counter_field(cm, x) == fld for x in walk(v))


def _takes_reader(f, cm, callee):
    r = f.fns.get(root_fn(f, callee)) or {}
    return any(i.startswith("&mut ") and (cm["adt"] + "<" in i or cm["adt"] == i[5:] or D + "Reader<" in i) for i in r.get("inputs", ()))


def _leaf_names(body, s, t, depth=0):
    """names of the parameters / captures / multiply-defined locals a term is made of.  A reference local that is only
    ever written *through* (`(*p).f = v` is not a definition of `p`) is followed to its one definition."""
    out = set()
    for x in walk(strip_deep(t)):
        if x[0] in ("param", "upvar"):
            out.add(x[1])
        elif x[0] == "var":
            full = [d for d in body.defs().get(x[2], ()) if d[2] in ("assign", "call")]
            thru = [d for d in body.defs().get(x[2], ()) if d[2] == "partial"]
            if len(full) == 1 and depth < 6 and body.local_ty(x[2]).startswith("&") and \
                    all(d[1] != "term" and d[3]["s"] == "assign" and d[3]["pl"]["p"] and d[3]["pl"]["p"][0][0] == "d" for d in thru):
                d = full[0]
                v = s.rvalue(d[3]["rv"], 1) if d[2] == "assign" else s.call(d[3], d[0], 1)
                out |= _leaf_names(body, s, v, depth + 1)
            else:
                out.add(x[1])
    return out


def _counter_effects(f, cm, body, depth=4, seen=()):
    """(writes, fields written on every path to a return) of `body` on the two counters of a counting reader that
    already exists (reached through a reference), in the vocabulary of `body`'s parameters.  Calls into xml::decode
    that are handed the reader / the counter mutably are followed."""
    s = K.sym_of(body)
    writes = []
    blocks_of = {}          # field -> blocks after which it has certainly been written
    consts = getattr(f, "consts", {})

    def add(bb, fld, base, val, via, certain=True):
        val = K.fold_consts(strip_deep(val), consts)
        base = strip_deep(base)
        writes.append({"field": fld, "value": val, "bb": bb, "via": via,
                       "base_roots": _leaf_names(body, s, base),
                       "reset": not _reads_field(cm, val, fld)})
        if certain:
            blocks_of.setdefault(fld, set()).add(bb)

    for bi, blk in enumerate(body.blocks):
        if body.is_cleanup(bi):
            continue
        for st in blk["stmts"]:
            if st["s"] != "assign":
                continue
            pl = st["pl"]
            prj = pl["p"]
            if prj and prj[-1][0] == "f" and len(prj[-1]) > 2 and prj[-1][2] == cm["adt"] and prj[-1][1] in cm.get("fields", ()):
                if not any(p[0] == "d" for p in prj) and not body.local_ty(pl["l"]).startswith("&"):
                    continue            # a value under construction, not an existing reader
                add(bi, prj[-1][1], s.place({"l": pl["l"], "p": prj[:-1]}), s.rvalue(st["rv"]), short(body.name))
            elif prj == [["d"]] or (len(prj) == 1 and prj[0][0] == "d"):
                fld = _counter_field(cm, s.local(pl["l"]))
                if fld:                 # `*r = v` with r = &mut counter.field
                    t = _unmut(s.local(pl["l"]))
                    add(bi, fld, t[1], s.rvalue(st["rv"]), short(body.name))
        t = blk["term"]
        if t["t"] != "call":
            continue
        c = next((x for x in body.calls() if x.bb == bi), None)
        if c is None:
            continue
        # a counter field lent mutably to a call
        for k, a in enumerate(t["args"]):
            pl = a.get("m") or a.get("c") if isinstance(a, dict) else None
            if not pl or pl["p"] or not body.local_ty(pl["l"]).startswith("&mut "):
                continue
            at = s.operand(a)
            fld = _counter_field(cm, at)
            if not fld:
                continue
            base = _unmut(at)[1]
            if (c.res or "").endswith("mem::take") and k == 0:
                add(bi, fld, base, ("const", 0), "mem::take")
            elif (c.res or "").endswith("mem::replace") and k == 0 and len(t["args"]) == 2:
                add(bi, fld, base, s.operand(t["args"][1]), "mem::replace")
            else:
                add(bi, fld, base, ("unknown", "lent to " + short(c.res or "?")), short(c.res or "?"))
        callee = c.res if c.is_static else None
        if callee and depth > 0 and callee in f.bodies and callee not in seen and callee != body.name and \
                (callee.startswith(D) or callee.startswith("<" + D)) and _takes_reader(f, cm, callee):
            cb = f.bodies[callee]
            cw, cmust = _counter_effects(f, cm, cb, depth - 1, tuple(seen) + (body.name,))
            mapping = {}
            for i, a in enumerate(t["args"]):
                nm = cb.local_name(i + 1) or "_%d" % (i + 1)
                mapping[nm] = s.operand(a)
            for w in cw:
                base_roots = set()
                for r_ in w["base_roots"]:
                    mt = mapping.get(r_)
                    base_roots |= _leaf_names(body, s, mt) if mt else {r_}
                val = K.fold_consts(strip_deep(K._subst(w["value"], mapping)), consts)
                writes.append({"field": w["field"], "value": val, "bb": bi, "via": short(callee) + "←" + w["via"],
                               "base_roots": base_roots, "reset": w["reset"]})
            for fld in cmust:
                blocks_of.setdefault(fld, set()).add(bi)
    rets = set(body.return_blocks())
    must = set()
    for fld, bbs in blocks_of.items():
        if not (rets & set(body.reachable(0, removed_blocks=bbs))):
            must.add(fld)
    return writes, must


def counter_writes(f, cm, body, depth=4):
    return _counter_effects(f, cm, body, depth)[0]


def counter_must_write(f, cm, body, depth=4):
    return _counter_effects(f, cm, body, depth)[1]


def counter_resetters(f, cm):
    """(who, resetters): the functions that set a counter of an existing counting reader to a value not derived from
    the counter itself, with private plumbing (non-exported inherent functions) resolved to its callers; and all the
    functions on the way (a call to any of them resets)."""
    adt_short = cm["adt"].rsplit("::", 1)[-1]
    direct = set()
    for n, b in f.bodies.items():
        if not any(adt_short in (l.get("ty") or "") for l in b.rec.get("locals", ())):
            continue
        if any(w["reset"] for w in counter_writes(f, cm, b, depth=0)):
            direct.add(root_fn(f, n))
    RL = cm["reset_and_limit"]
    who, resetters, seen, work = set(), set(), set(), sorted(direct)
    while work:
        n = work.pop()
        if n in seen:
            continue
        seen.add(n)
        resetters.add(n)
        r = f.fns.get(n) or {}
        if n != RL and r and not r.get("exported") and not r.get("impl_trait") and r.get("vis") != "pub(crate)" and \
                (n.startswith(D) or n.startswith("<" + D)):
            work += sorted({root_fn(f, c.body.name) for c in calls_to(f, lambda c, n=n: c.res == n) if not c.body.is_cleanup(c.bb)})
        else:
            who.add(n)
    return sorted(who), resetters


def _is_saturating_accumulate(v, trip, amt):
    """v is `self.trip ⊕ amt` with ⊕ an addition that saturates, whatever the conversion of amt to the counter's type."""
    def is_amt(t):
        t = _unmut(strip_deep(t))
        if t == amt:
            return True
        if t[0] == "cast":
            return is_amt(t[1])
        if t[0] == "call":
            nm = (t[3] or {}).get("name")
            if nm in ("unwrap_or_default", "try_from", "try_into", "from", "into") and len(t[2]) == 1:
                return is_amt(t[2][0])
            if nm == "unwrap_or" and len(t[2]) == 2 and strip_deep(t[2][1])[0] in ("const", "cdef"):
                return is_amt(t[2][0])
        return False

    def is_trip(t):
        return render(_unmut(strip_deep(t))) == "self.%s" % trip

    def sum_of(t, names):
        t = _unmut(strip_deep(t))
        return t[0] == "call" and (t[3] or {}).get("name") in names and len(t[2]) == 2 and \
            ((is_trip(t[2][0]) and is_amt(t[2][1])) or (is_trip(t[2][1]) and is_amt(t[2][0])))
    v = _unmut(strip_deep(v))
    if sum_of(v, ("saturating_add",)):
        return True
    if v[0] == "call" and (v[3] or {}).get("name") == "unwrap_or" and len(v[2]) == 2 and sum_of(v[2][0], ("checked_add",)):
        top = strip_deep(v[2][1])
        return (top[0] == "const" and top[1] in (2 ** 64 - 1, 2 ** 32 - 1, 2 ** 128 - 1)) or (top[0] == "cdef" and top[1].endswith("::MAX"))
    return False


def _is_counter_over_param(f, cm, c):
    """the argument of this call is a counting reader freshly built over a parameter of the calling function."""
    t = strip_deep(K.arg_terms(c)[0])
    if not any(cm["adt"] in g for g in (c.ga or ())):
        return False
    over = any(x[0] == "param" for x in walk(t))
    if t[0] == "agg":
        return t[1] == cm["adt"] and over
    if t[0] == "call":
        r = f.fns.get((t[3] or {}).get("res") or t[1]) or {}
        return (r.get("output") or "").startswith(cm["adt"]) and over
    return False


# ---------------------------------------------------------------------------------------------
# C09.d / C11.b: the escaping table of xml::encode, as a function (mode, byte) -> replacement
#
# The table is read off the abstract interpretation of the replacement function as a total map over
# {variants of TextEscape} × {0..255}: a path that does not look at the mode speaks for every mode, a path that does not
# look at the byte for every byte — `match self { Attr => match ch {..}, .. }`, `match (self, ch)`, `match ch { b'>' if
# attr => .. }`, if-chains, `matches!`, helpers per mode are the same table.  The function is found by name and, failing
# that, by what it is: the function of xml::encode from an escape mode and a byte to an optional replacement text.

_ENTITY = {0x3c: b"lt", 0x3e: b"gt", 0x22: b"quot", 0x27: b"apos", 0x26: b"amp"}


def _is_reference_to(text, byte):
    """`text` (bytes) is an XML reference that a parser resolves to `byte`: named, decimal or hexadecimal."""
    if _ENTITY.get(byte) is not None and text == b"&" + _ENTITY[byte] + b";":
        return True
    m = re.match(rb"^&#(?:(\d+)|[xX]([0-9a-fA-F]+));$", text)
    if not m:
        return False
    return (int(m.group(1)) if m.group(1) else int(m.group(2), 16)) == byte


def _unrender_bytes(txt):
    """bytes of a rendered byte-string literal b'...'."""
    import ast
    try:
        v = ast.literal_eval(txt)
        return v if isinstance(v, bytes) else None
    except Exception:
        return None


_OPT = r"(?:None|Some\(b'(?:[^'\\]|\\.)*'\))"


def _simplify_option(o):
    """`a.or(b)` of two known options is a known option (the interpreter has no summary for Option::or)."""
    for _ in range(8):
        o2 = re.sub(r"Option::or\(None, (%s)\)" % _OPT, r"\1", o)
        o2 = re.sub(r"Option::or\((Some\(b'(?:[^'\\]|\\.)*'\)), %s\)" % _OPT, r"\1", o2)
        if o2 == o:
            break
        o = o2
    return o


def escape_table(f):
    ENUM = "xml::encode::TextEscape"
    out = {"body": None, "table": {}, "problems": [], "modes": []}
    adt = f.adts.get(ENUM)
    modes = [v["name"] for v in adt["variants"]] if adt and adt.get("variants") else ["Attr", "Pcdata"]
    out["modes"] = modes
    rb = f.body(ENUM + "::replace_char")

    def unref(t):
        return re.sub(r"^&(?:'\w+ )?(?:mut )?", "", t)
    if rb is None:
        cands = []
        for n, r in f.fns.items():
            if not r.get("has_body") or not n.startswith("xml::encode::") or n not in f.bodies:
                continue
            ins = [unref(i) for i in r.get("inputs", ())]
            if sorted(ins) == sorted([ENUM, "u8"]) and re.match(r"^(std|core)::option::Option<&", r.get("output") or ""):
                cands.append(n)
        if len(cands) == 1:
            rb = f.body(cands[0])
    if rb is None:
        return out
    out["body"] = rb
    mode_p = ch_p = None
    for i in range(1, rb.arg_count + 1):
        ty = unref(rb.local_ty(i))
        if ty == ENUM:
            mode_p = rb.local_name(i) or "_%d" % i
        elif ty == "u8":
            ch_p = rb.local_name(i) or "_%d" % i
    if mode_p is None or ch_p is None:
        out["problems"].append("parameters are not (escape mode, byte)")
        return out
    paths, it, err = K.run_absint(f, rb.name, inline=lambda n: n in f.bodies and n.startswith("xml::encode::") and
                                  not (f.fns.get(n) or {}).get("exported"))
    if paths is None:
        out["problems"].append("cannot establish: %s" % err)
        return out
    out["problems"] += list(it.imprecise)
    table = {}
    for p in paths:
        allowed = set(modes)
        for text, truth in p.conds:
            m = re.match(r"^(.+) is (\w+)$", text)
            if m and m.group(1) == mode_p and m.group(2) in modes:
                allowed = (allowed & {m.group(2)}) if truth else (allowed - {m.group(2)})
            else:
                out["problems"].append("condition not understood: %s" % (text,))
        lo, hi = (0, 255)
        chsym = [sname for sname in p.zone.syms if sname == ch_p or sname == "*" + ch_p]
        if chsym:
            lo, hi = p.zone.bounds(chsym[0])
            lo, hi = max(0, int(lo)), min(255, int(hi))
        o = _simplify_option(outcome_str(p.outcome))
        if o == "return None":
            val = None
        else:
            m = re.match(r"^return Some\((b'.*'|b\".*\")\)$", o)
            val = _unrender_bytes(m.group(1)) if m else None
            if val is None:
                out["problems"].append("result not a literal: %s" % o[:80])
                val = b"?"
        for md in allowed:
            for c in range(lo, hi + 1):
                if (md, c) in table and table[(md, c)] != val:
                    out["problems"].append("two results for (%s, %d)" % (md, c))
                table[(md, c)] = val
    for md in modes:
        miss = [c for c in range(256) if (md, c) not in table]
        if miss:
            out["problems"].append("%s: no result for %d byte values" % (md, len(miss)))
    out["table"] = table
    return out


def escape_class_ok(rep, mode, want):
    """(ok, detail): in `mode` exactly the bytes `want` are replaced, each by a reference to itself."""
    cls = {c for (md, c), v in rep["table"].items() if md == mode and v is not None}
    wrong = {chr(c): rep["table"][(mode, c)].decode(errors="replace") for c in sorted(cls)
             if not _is_reference_to(rep["table"][(mode, c)], c)}
    ok = not rep["problems"] and mode in rep["modes"] and cls == set(want) and not wrong
    return ok, {"replaced": absint.fmt_class(cls), "wrong_replacement": wrong or None, "problems": rep["problems"][:4] or None}


# ---------------------------------------------------------------------------------------------
# C09.c / C11.a: the names an attribute callback accepts

def _const_bytes(f, cname):
    cb = f.body(cname)
    if cb is None:
        return None
    for x in walk(strip_deep(K.sym_of(cb).local(0))):
        if x[0] == "bytes":
            return x[1]
    return None


def _name_bytes(f, t, depth=0):
    """local name (bytes) of an xml Name-valued term: a constant of the crate, `Name::unqualified(b"..")`,
    `Name::qualified(ns, b"..")`, `X.into_unqualified()`."""
    t = strip_deep(t)
    if t[0] == "bytes":
        return t[1]
    if depth > 4:
        return None
    if t[0] == "cdef":
        cb = f.body(t[1])
        return _name_bytes(f, K.sym_of(cb).local(0), depth + 1) if cb is not None else None
    if t[0] == "agg" and t[1] == "xml::decode::Name":
        d = dict(t[3])
        return _name_bytes(f, d["local"], depth + 1) if "local" in d else None
    if t[0] == "call":
        nm = (t[3] or {}).get("name")
        res = (t[3] or {}).get("res") or ""
        if res.startswith("xml::decode::Name"):
            if nm in ("qualified", "unqualified") and t[2]:
                return _name_bytes(f, t[2][-1], depth + 1)
            if nm == "into_unqualified" and len(t[2]) == 1:
                return _name_bytes(f, t[2][0], depth + 1)
    return None


def accepted_names(f, b, local=2):
    """(words, wildcard_ok): the byte strings for which the callback `b` can succeed when its slice parameter `local`
    equals them, and whether it can succeed for a name that equals none of those it tests.  The test may be a `match`
    on literal patterns (rustc's decision tree: engine.rules.slice_patterns), a chain of `name == b".."` /
    `name != b".."` comparisons with early returns or else-ifs, or a mixture."""
    oc = outcome(b)
    s = oc.sym
    reach = oc.success_reach()
    pname = ("param", b.local_name(local) or "_%d" % local)
    words, wild = set(), [False]
    seen = set()

    def passes(bb):
        return bb in reach and bb not in oc.fail_blocks

    def name_test(bb):
        """(word, equal-target, other-target) if the switch at bb compares the name with a constant byte string."""
        t = b.term(bb)
        if t["t"] != "switch" or t.get("dty") != "bool":
            return None
        at = bool_atom(s.operand(t["discr"]))
        e = switch_bool_edges(b, bb)
        if not at or at[0] != "eq" or e is None:
            return None
        x, y = _unmut(at[1]), _unmut(at[2])
        other = y if x == pname else x if y == pname else None
        if other is None:
            return None
        w = other[1] if other[0] == "bytes" else _const_bytes(f, other[1]) if other[0] == "cdef" else None
        if w is None:
            return None
        fe, te = e
        return (w, te, fe) if at[3] else (w, fe, te)

    def explore(bb, depth=0):
        """bb is reached without the name having been found equal to anything."""
        if bb in seen or depth > 400:
            return
        seen.add(bb)
        nt = name_test(bb)
        if nt is not None:
            w, eq_t, ne_t = nt
            if passes(eq_t):
                words.add(w)
            explore(ne_t, depth + 1)
            return
        t = b.term(bb)
        if t["t"] in ("goto", "call", "drop") and t.get("target") is not None and bb not in oc.fail_blocks:
            nxt = t["target"]
            # keep following straight-line code while a name test can still come
            if any(name_test(x) is not None for x in b.reachable(nxt)):
                explore(nxt, depth + 1)
                return
        if passes(bb):
            wild[0] = True

    for w, leaf in slice_patterns(b, local):
        if w is not None:
            if passes(leaf):
                words.add(w)
        else:
            explore(leaf)
    return words, wild[0]


def _with_private_helpers(f, names, mod="rrdp::"):
    """The bodies `names` together with the code they delegate to inside the module: their closures and the private
    (not exported) functions of the module they call, transitively.  A parser / writer is the same parser / writer when
    part of it is moved into a private helper; public functions are other entry points and are not followed."""
    from engine.callgraph import CallGraph
    cg = CallGraph(f)
    seen = set(names)
    roots = {root_fn(f, n) for n in seen}
    work = list(seen)
    while work:
        n = work.pop()
        for m in cg.edges(n):
            if m in seen or m not in f.bodies:
                continue
            rm = root_fn(f, m)
            rec = f.fns.get(rm) or {}
            if "::{closure" in m and rm in roots:
                pass
            elif m.startswith(mod) and "::{closure" not in m and rec and rec.get("vis") != "pub" and not rec.get("exported"):
                roots.add(m)
            else:
                continue
            seen.add(m)
            work.append(m)
    return seen


# ---------------------------------------------------------------------------------------------
# "this value is a failure", by meaning
#
# The engine's Outcome knows a failure assigned to the return place only as the literal `Err(..)` / `None` / `false` /
# `from_residual(..)`.  The same value spelt with combinators — `r.and_then(|()| Err(e))`, `Err(e).map_err(g)`,
# `opt.map_or(Err(a), |_| Err(b))`, a private helper / closure all of whose results are failures — is the same failure.

_KEEPS_FAILURE = {"map", "map_err", "inspect", "inspect_err", "as_ref", "as_mut", "as_deref", "as_deref_mut", "copied", "cloned",
                  "and_then", "and", "branch", "into", "from"}
_STD_CARRIER = re.compile(r"^(std|core)::(option::Option|result::Result)::<")


def _fn_always_fails(f, g, kind, depth=0):
    """the function-valued term g (closure, fn item) yields a failure whenever it returns."""
    g = strip(g)
    if g[0] == "fnref":
        if re.search(r"result::Result::(<.*>::)?Err$", g[1]):
            return True
        name = g[1]
    elif g[0] == "closure":
        name = g[1]
    else:
        return False
    cb = f.body(name)
    if cb is None or depth > 4:
        return False
    oc = outcome(cb)
    if oc.kind not in ("result", "option"):
        return False
    vals = success_values(cb, oc)
    return bool(oc.fail_blocks or vals) and all(_always_fails(f, cb, t, oc.kind, depth + 1) for _, _, t in vals)


def _always_fails(f, b, t, kind, depth=0):
    """the Result / Option valued term t (of body b) is `Err` / `None` whatever happens."""
    t = _unmut(t)
    if depth > 6:
        return False
    if t[0] == "agg":
        return (t[1] == "std::result::Result" and t[2] == "Err") or (t[1] == "std::option::Option" and t[2] == "None")
    if t[0] == "var":
        vs = [v for _, v in outcome(b).sym.defs_of_var(t[2])]
        return bool(vs) and all(_always_fails(f, b, v, kind, depth + 1) for v in vs)
    if t[0] != "call":
        return False
    info = t[3] or {}
    name, a = info.get("name"), t[2]
    if name == "from_residual":
        return True
    std = bool(_STD_CARRIER.match(info.get("fn") or "")) or (info.get("trait") or "").endswith(("ops::Try", "convert::Into", "convert::From"))
    if std and a:
        if name in _KEEPS_FAILURE and _always_fails(f, b, a[0], kind, depth + 1):
            return True
        if name == "and_then" and len(a) == 2 and _fn_always_fails(f, a[1], kind, depth + 1):
            return True
        if name == "and" and len(a) == 2 and _always_fails(f, b, a[1], kind, depth + 1):
            return True
        if name in ("or", "xor") and len(a) == 2:
            return name == "or" and _always_fails(f, b, a[0], kind, depth + 1) and _always_fails(f, b, a[1], kind, depth + 1)
        if name == "or_else" and len(a) == 2:
            return _always_fails(f, b, a[0], kind, depth + 1) and _fn_always_fails(f, a[1], kind, depth + 1)
        if name == "map_or" and len(a) == 3:
            return _always_fails(f, b, a[1], kind, depth + 1) and _fn_always_fails(f, a[2], kind, depth + 1)
        if name == "map_or_else" and len(a) == 3:
            return _fn_always_fails(f, a[1], kind, depth + 1) and _fn_always_fails(f, a[2], kind, depth + 1)
        if name in ("ok_or", "ok_or_else", "ok", "err", "transpose"):
            return False
        return False
    # a function of the crate that can only fail
    callee = info.get("res") or t[1]
    r = f.fns.get(callee) or {}
    if callee in f.bodies and not r.get("exported"):
        return _fn_always_fails(f, ("fnref", callee), kind, depth + 1)
    return False


class _semantic_failures:
    """While active, the Outcome of `body` also counts as failure blocks those that put a value into the return place
    which is a failure by meaning (see above).  Only ever adds failures that are failures."""

    def __init__(self, f, body):
        self.f, self.body = f, body
        self.added = set()

    def __enter__(self):
        b, oc = self.body, outcome(self.body)
        if oc.kind in ("result", "option"):
            for bi, _, t in success_values(b, oc):
                if bi not in oc.fail_blocks and _always_fails(self.f, b, t, oc.kind):
                    # (a block that also assigns a success value elsewhere keeps that assignment: only whole-value failures)
                    if all(_always_fails(self.f, b, t2, oc.kind) for bj, _, t2 in success_values(b, oc) if bj == bi):
                        self.added.add(bi)
            oc.fail_blocks |= self.added
            oc.success_assign_blocks -= self.added
        return self

    def __exit__(self, *a):
        oc = outcome(self.body)
        oc.fail_blocks -= self.added
        oc.success_assign_blocks |= self.added


def _escaping_writers(f):
    """The function(s) of xml::encode that do the escaping, by what they are: they take an escape mode and the bytes, and
    consult the replacement table (the function R-CLS reads the byte classes from) — whatever they are called."""
    ENUM = "xml::encode::TextEscape"
    rep = escape_table(f)["body"]
    out = set()
    if rep is None:
        return out
    from engine.callgraph import CallGraph
    cg = CallGraph(f)
    for n, r in f.fns.items():
        if not r.get("has_body") or n not in f.bodies or r.get("impl_trait") or not n.startswith("xml::encode::") or n == rep.name:
            continue
        ins = [re.sub(r"^&(?:'\w+ )?(?:mut )?", "", i) for i in r.get("inputs", ())]
        if ENUM not in ins or not any(i in ("[u8]", "str") for i in ins):
            continue
        reach = {n} | {m for m in cg.edges(n) if root_fn(f, m) == n}
        if any(rep.name in cg.edges(m) for m in reach):
            out.add(n)
    return out


def _fmt_adaptors(f):
    """ADTs of xml::encode that implement fmt::Write (the Display → escaped bytes adaptor), with their write_str bodies."""
    out = {}
    for n, r in f.fns.items():
        if r.get("impl_trait") == "std::fmt::Write" and r.get("name") == "write_str" and (r.get("impl_adt") or "").startswith("xml::encode::") \
                and n in f.bodies:
            out[r["impl_adt"]] = n
    return out


def check_text_impls_escape(ctx, f, rule="R-CHK"):
    """Every implementation of xml::encode::Text::write_escaped sends all of its bytes through the escaping writer
    (directly or via the fmt::Write adaptor) — there is no path that writes the bytes unescaped.

    Same rule (and obligation keys) as props.common.check_text_impls_escape, which only C09 and C11 use.  What it needs
    is found by role: the escaping writer is the function of xml::encode from (mode, bytes, target) that consults the
    replacement table; the adaptor is the type of xml::encode implementing fmt::Write (formatting into it — `write!`,
    `write_fmt`, `write_str` — is escaping, because its write_str is held to the same rule).  Whether a path is a
    success path is decided by meaning: `?`, `match`, `if r.is_ok()`, `r.and_then(|()| Err(..))`, `map_err` … ."""
    writers = _escaping_writers(f) or {"xml::encode::TextEscape::write_escaped"}
    adaptors = _fmt_adaptors(f)

    def into_adaptor(c):
        if c.trait != "std::fmt::Write" or c.name not in ("write_fmt", "write_str", "write_char"):
            return False
        self_ty = (c.ga[0] if c.ga else "") or ""
        return any(self_ty == a or self_ty.startswith(a + "<") for a in adaptors)

    def sink(c):
        return (c.res or "") in writers or into_adaptor(c)

    def sink_term(t):
        t = strip_deep(t)
        if t[0] != "call":
            return False
        info = t[3] or {}
        if (info.get("res") or info.get("fn") or "") in writers:
            return True
        self_ty = (info.get("ga") or ("",))[0] or ""
        return info.get("trait") == "std::fmt::Write" and info.get("name") in ("write_fmt", "write_str", "write_char") and \
            any(self_ty == a or self_ty.startswith(a + "<") for a in adaptors)

    def is_ok_edge(bd, sy, bb):
        t = bd.term(bb)
        if t["t"] != "switch" or t.get("dty") != "bool":
            return None
        at = bool_atom(sy.operand(t["discr"]))
        if not at or not isinstance(at[0], tuple) or at[0][2] not in ("is_ok", "is_err") or len(at[1]) != 1:
            return None
        if not re.match(r"^(std|core)::result::Result::<", at[0][1]) or not sink_term(at[1][0]):
            return None
        fe, te = switch_bool_edges(bd, bb)
        return [(bb, te if (at[0][2] == "is_ok") == at[3] else fe)]
    n = 0
    for name, b in sorted(f.bodies.items()):
        m = re.match(r"^<(.+) as xml::encode::Text>::write_escaped$", name)
        disp = name in adaptors.values()
        if not m and not disp:
            continue
        n += 1
        ctx.saw_fn(name)
        mp = MustPass(f, sink if m else (lambda c: (c.res or "") in writers), guard_fn=is_ok_edge, name="TextEscape::write_escaped")
        with _semantic_failures(f, b):
            ok = mp.holds(name)
        raw = [c.where() for c in b.calls() if not b.is_cleanup(c.bb) and
               c.name in ("write_all", "write", "write_fmt", "write_vectored", "write_all_vectored") and (c.trait or "").endswith("io::Write")]
        ctx.ob(rule, "%s:escapes-everything" % short(name), ok and not raw,
               "%s writes nothing that did not pass TextEscape::write_escaped" % short(name), where=b.loc,
               detail={"unescaped_writes": raw, "path": None if ok else K.why(f, mp, name)})
    ctx.floor(rule, "implementations of Text::write_escaped (and the Display adaptor)", n, 3)


def _ord(b, c):
    same = [x for x in b.calls() if x.res == c.res and not b.is_cleanup(x.bb)]
    return same.index(c) if c in same else 0
