"""C06 — RTR: after any completed exchange the client holds the server's data
(necessary structural conditions only; DESIGN §2 C06.a–d).  The simulation over
histories is NOT decided."""
import re
from engine import absint
from engine.absint import region_constraints as RC, outcome_str
from engine.rules import (MustPass, Outcome, outcome, success_values, call_checked, root_fn, loop_each_checked, variant_switches,
                          _callee_key)
from engine.sym import strip, strip_deep, render, walk, short
from props import common as K

META = {
    "level": "other",
    "technique": "static analysis of type-checked MIR (rustc_private driver): must-pass-through and provenance rules on pre-transform coroutine MIR; abstract-interpretation tables for version gating",
    "explanation": "On the pre-transform coroutine MIR of Client::serial / Client::reset: an update is returned only on paths "
                   "that adopted the End-of-Data PDU's state (and its timing when present), every received payload PDU is "
                   "version-checked, converted and pushed with its own action before the next is read, serial starts the "
                   "target with reset=false and reset with true, the two loops perform the same checks; the server side "
                   "names the source's state in CacheResponse/EndOfData (C08) and builds payload PDUs only through the version filter; version gating tables (payload kinds per "
                   "version, End-of-Data layout per version, both check_version functions) and the flags↔action mapping are "
                   "computed by abstract interpretation and compared with the RFC tables; the server writes the PDU of every item the source yields before pulling the next item or ending the response (order preserved).",
    "not_decided": ["equality of the applied update sequence with the source's set for all histories, diffs vs resets, "
                    "notify interleavings", "PayloadTarget/PayloadSource implementations supplied by the user"],
    "trusted_base": ["tokio I/O", "user-supplied PayloadTarget / PayloadSource honour their documented contracts"],
}

CL = "rtr::client::Client::<Sock, Target>::"
PDU = "rtr::pdu::"
END = r"Try::branch\(read::\{closure#0\}\(__awaitee⟵Payload::read\([$^]self\.sock\), .*\)↓Ready\.0\)↓Continue\.0↓Err\.0"
PAY = r"Try::branch\(read::\{closure#0\}\(__awaitee⟵Payload::read\([$^]self\.sock\), .*\)↓Ready\.0\)↓Continue\.0↓Ok\.0↓Some\.0"


# Result combinators that hand the variant of their receiver on unchanged (Ok stays Ok, Err stays Err) and do nothing else
_RESULT_VARIANT_KEEPING = {("std::result::Result", "map"), ("std::result::Result", "map_err"),
                           ("std::result::Result", "inspect"), ("std::result::Result", "inspect_err")}


def _plain_local(op, body):
    """The local an operand moves/copies wholesale (no projection, not a parameter), or None."""
    pl = op.get("m") or op.get("c")
    if pl and not pl["p"] and pl["l"] > body.arg_count:
        return pl["l"]
    return None


class ExchangeOutcome(Outcome):
    """Which blocks decide that the exchange function returns a failure — also when the value returned is the result
    of an awaited part of the exchange whose body is seen in place (`self.part().await`, `self.part().await.map(Some)`).

    The fact decided is the one `Outcome` decides ("this block assigns an Err to what is returned"); the only thing
    added is what counts as *what is returned*.  Besides locals moved wholesale into the return place these are
      * the result `x` completing an awaited body seen in place:  `p = Poll::Ready(x)` … `r = (p as Ready).0` with `r`
        returned, and
      * the receiver of a variant-keeping Result combinator whose result is returned (`x.map(f)` is Err iff `x` is).
    Every exit of such a body assigns its own local (def-use webs are split by the engine), so an `Err(..)` /
    `from_residual(..)` assigned to one of them is a failure of the whole function exactly as an assignment to the
    return place is.  On a body without these shapes this is `Outcome` itself."""

    def _carriers(self):
        b = self.body
        car = set(Outcome._carriers(self))
        polls = set()         # Poll<Result<..>> locals whose Ready payload is returned
        changed = True
        while changed:
            changed = False
            for blk in b.blocks:
                if blk.get("cleanup"):
                    continue
                for s in blk["stmts"]:
                    if s["s"] != "assign" or s["pl"]["p"]:
                        continue
                    dst, rv = s["pl"]["l"], s["rv"]
                    if dst in car and rv["r"] == "use":
                        pl = rv["op"].get("m") or rv["op"].get("c")
                        if not pl or pl["l"] <= b.arg_count:
                            continue
                        pp = [p for p in pl["p"] if p[0] != "d"]
                        if not pp and not pl["p"] and pl["l"] not in car:
                            car.add(pl["l"])
                            changed = True
                        elif len(pp) == 2 and len(pl["p"]) == 2 and pp[0][0] == "dc" and pp[0][1] == "Ready" and pp[1][0] == "f" \
                                and pl["l"] not in polls:
                            polls.add(pl["l"])
                            changed = True
                    elif dst in polls and rv["r"] == "agg" and rv.get("ak") == "adt" and rv.get("variant") == "Ready" \
                            and len(rv["ops"]) == 1:
                        l = _plain_local(rv["ops"][0], b)
                        if l is not None and l not in car:
                            car.add(l)
                            changed = True
                t = blk["term"]
                if t["t"] == "call" and not t["dest"]["p"] and t["dest"]["l"] in car and t["args"]:
                    k = t["func"].get("k") if isinstance(t["func"], dict) else None
                    if k and _callee_key(k) in _RESULT_VARIANT_KEEPING:
                        l = _plain_local(t["args"][0], b)
                        if l is not None and l not in car:
                            car.add(l)
                            changed = True
        self.polls = polls
        return car

    def returned_values(self):
        """Terms assigned to what is returned in non-failure blocks, [(bb, term)] — without the assignments that only
        hand such a value on (moves between carriers, the Ready payload, a variant-keeping combinator on a carrier)."""
        b = self.body
        out = []
        for bi in sorted(self.success_assign_blocks):
            blk = b.blocks[bi]
            for st in blk["stmts"]:
                if st["s"] != "assign" or st["pl"]["p"] or st["pl"]["l"] not in self.carriers:
                    continue
                rv = st["rv"]
                if rv["r"] == "use":
                    pl = rv["op"].get("m") or rv["op"].get("c")
                    if pl and (pl["l"] in self.carriers or pl["l"] in self.polls):
                        continue
                t = strip_deep(self.sym.rvalue(rv))
                if not self._is_fail_term(t):
                    out.append((bi, t))
            t = blk["term"]
            if t["t"] == "call" and not t["dest"]["p"] and t["dest"]["l"] in self.carriers:
                k = t["func"].get("k") if isinstance(t["func"], dict) else None
                if k and _callee_key(k) in _RESULT_VARIANT_KEEPING and t["args"] and _plain_local(t["args"][0], b) in self.carriers:
                    continue
                out.append((bi, strip_deep(self.sym.call(t, bi))))
        return out


def timing_store(s, rv):
    """How an assignment to the client's `timing` relates to the End-of-Data PDU just received:
      "when-some" — the value is the payload of `end.timing()` (only meaningful on the Some edge of a match on it);
      "always"    — the value is `end.timing().unwrap_or(self.timing)`: the PDU's timing when it carries one, the
                    value the field already has otherwise (no change) — decided per value of `end.timing()`, so the
                    store may stand unconditionally on the path;
      None        — anything else (another write of the timing)."""
    t = strip_deep(s.rvalue(rv))
    if re.match(r"^EndOfData::timing\(%s\)↓Some\.0$" % END, render(t)):
        return "when-some"
    if t[0] == "call" and (t[3] or {}).get("name") == "unwrap_or" and len(t[2]) == 2 and \
            re.match(r"^(std|core)::option::Option::<", (t[3] or {}).get("fn") or "") and \
            re.match(r"^EndOfData::timing\(%s\)$" % END, render(strip_deep(t[2][0]))) and \
            re.match(r"^[$^]self\.timing$", render(strip_deep(t[2][1]))):
        return "always"
    return None


def check_server_sends_items_in_order(ctx, f, rule="R-CHK"):
    """The client applies what it receives in the order received, so the server must send the source's items in the
    order the source yields them: in each response loop, a PDU built from an item (new_if_supported = Some) is written
    before the next item is pulled and before End-of-Data — there is no way round the loop, or out of it, from the
    `Some` edge that does not pass the write of that PDU; and what is written is that PDU, not one kept from an earlier
    round."""
    n = 0
    for b in f.bodies.values():
        if not (b.name.startswith("rtr::server::") and b.is_coroutine):
            continue
        mk = [c for c in b.calls() if c.res == PDU + "Payload::new_if_supported" and not b.is_cleanup(c.bb)]
        if not mk:
            continue
        s = K.sym_of(b)
        oc = outcome(b)
        writes = [c for c in b.calls() if c.res == PDU + "Payload::write" and not b.is_cleanup(c.bb)]
        wblocks = {c.bb for c in writes}
        pulls = {c.bb for c in b.calls() if c.name == "next" and (c.trait or "").rsplit("::", 1)[-1] in ("PayloadDiff", "PayloadSet")
                 and not b.is_cleanup(c.bb)}
        ends = {c.bb for c in b.calls() if c.res in (PDU + "EndOfData::new", PDU + "EndOfData::write") and not b.is_cleanup(c.bb)}
        fn = short(root_fn(f, b.name))
        for c in mk:
            n += 1
            # the `Some` edges of the switches on this call's result
            some_targets = []
            call_txt = None
            for bi, blk in enumerate(b.blocks):
                t = blk["term"]
                if t["t"] != "switch" or blk.get("cleanup"):
                    continue
                d = strip_deep(s.operand(t["discr"]))
                if d[0] != "discr":
                    continue
                inner = strip_deep(d[1])
                while inner[0] in ("mvar",):
                    inner = strip_deep(inner[3])
                if inner[0] == "call" and inner[1] == PDU + "Payload::new_if_supported" and (inner[3] or {}).get("bb") == c.bb:
                    for v, tb in b.switch_edges(bi):
                        if v == 1 or (v is None and not any(x == 1 for x, _ in b.switch_edges(bi))):
                            some_targets.append(tb)
            if not some_targets:
                ctx.ob(rule, "%s:each-item-written-in-its-round" % fn, False,
                       "cannot find where %s looks at the result of new_if_supported" % fn, where=c.where())
                continue
            escaped = []
            for tb in some_targets:
                reach = b.reachable(tb, removed_blocks=wblocks)
                bad = sorted((reach & pulls) | (reach & ends) | (reach & set(oc.returns())))
                if bad:
                    escaped.append({"from_line": b.line_of(tb), "reaches_without_writing": [b.line_of(x) for x in bad]})
            # what is written is the PDU just built
            recv = [K.arg_renders(w)[0] for w in writes]
            own = all("Payload::new_if_supported(" in r for r in recv)
            ctx.ob(rule, "%s:each-item-written-in-its-round" % fn, not escaped and bool(writes) and own,
                   "%s writes the PDU of each item the source yields before pulling the next item or ending the response "
                   "(the client applies items in the order received)" % fn, where=c.where(),
                   detail={"escapes": escaped, "written": [r[:100] for r in recv]})
    ctx.floor(rule, "server response loops building payload PDUs", n, 2)


def run(ctx):
    f = ctx.facts()
    ctx.rule("R-FLOW", "operand provenance")
    ctx.rule("R-CHK", "every success path passes the required step")
    ctx.rule("R-SIB", "sibling functions perform the same checks")
    ctx.rule("R-REG", "decision table by abstract interpretation equals the spec")

    # server side: what is sent to a client is restricted to its version's payload types
    from engine.rules import calls_to
    raw = [c for c in calls_to(f, lambda c: c.res == PDU + "Payload::new") if c.body.name.startswith("rtr::server::")
           and not c.body.is_cleanup(c.bb)]
    filt = [c for c in calls_to(f, lambda c: c.res == PDU + "Payload::new_if_supported") if c.body.name.startswith("rtr::server::")
            and not c.body.is_cleanup(c.bb)]
    okv = all(re.search(r"Connection::version\(\^?self\)", K.arg_renders(c)[0]) for c in filt)
    ctx.ob("R-FLOW", "server:payload-pdus-version-filtered", not raw and len(filt) >= 2 and okv,
           "every payload PDU the server writes (diff and full responses) is built by Payload::new_if_supported with the "
           "connection's negotiated version, never by the unfiltered Payload::new",
           detail={"unfiltered": [c.where() for c in raw], "filtered": [(c.where(), K.arg_renders(c)[0]) for c in filt]})

    from props.C07 import check_payload_new
    check_payload_new(ctx, f)
    check_server_sends_items_in_order(ctx, f)
    # the timing handed to the client's target is the PDU's own three fields, each converted from network byte order and
    # nothing else (no clamping, no defaults): "its timing values equal the source's"
    def _timing_fields(v):
        if v[0] == "agg" and str(v[2]) == "Timing":
            return [strip_deep(x) for _, x in v[3]]
        return [None]
    for fld in ("refresh", "retry", "expire"):
        pass
    tb_ = f.body(PDU + "EndOfDataV1::timing")
    if tb_ is None:
        ctx.missing("R-FLOW", "EndOfDataV1::timing", PDU + "EndOfDataV1::timing")
    else:
        ctx.saw_fn(tb_.name)
        vals_ = [strip_deep(t) for _, _, t in success_values(tb_)]
        want_ = ["num::from_be(self.%s)" % x for x in ("refresh", "retry", "expire")]
        got_ = []
        for v in vals_:
            got_.append([render(strip_deep(x)) for _, x in v[3]] if v[0] == "agg" and str(v[2]) == "Timing" else render(v)[:120])
        ctx.ob("R-FLOW", "EndOfDataV1::timing:own-fields", got_ == [want_],
               "EndOfDataV1::timing returns the PDU's own refresh / retry / expire fields, converted from network byte order "
               "and otherwise untouched", where=tb_.loc, detail=got_)

    checks = {}
    for meth, reset_flag in (("serial", "0"), ("reset", "1")):
        n = CL + meth + "::{closure#0}"
        b = f.body(n)
        if b is None:
            ctx.missing("R-CHK", "Client::" + meth, n)
            continue
        ctx.saw_fn(n)
        # failure exits of the function, also those of an awaited part of the exchange seen in place (ExchangeOutcome)
        oc = ExchangeOutcome(b, K.sym_of(b))
        s = oc.sym
        # ---- state / timing adoption ------------------------------------------------
        st_blocks, tm_blocks, tm_always, other_state = set(), set(), set(), []
        for bi, blk in enumerate(b.blocks):
            if blk.get("cleanup"):
                continue
            for st in blk["stmts"]:
                if st["s"] != "assign":
                    continue
                fl = [p[1] for p in st["pl"]["p"] if p[0] == "f"]
                if fl[-1:] == ["state"] and "Client" in (st["pl"]["p"][-1][2] if st["pl"]["p"][-1][0] == "f" else ""):
                    r = render(strip_deep(s.rvalue(st["rv"])))
                    if re.match(r"^option::Option::Some\{0: EndOfData::state\(%s\)\}$" % END, r):
                        st_blocks.add(bi)
                    else:
                        other_state.append(r)
                if fl[-1:] == ["timing"] and "Client" in (st["pl"]["p"][-1][2] if st["pl"]["p"][-1][0] == "f" else ""):
                    how = timing_store(s, st["rv"])
                    if how == "when-some":
                        tm_blocks.add(bi)
                    elif how == "always":
                        tm_always.add(bi)
                    else:
                        other_state.append("timing=" + render(strip_deep(s.rvalue(st["rv"]))))
        upd = [(bi, render(t)) for bi, t in oc.returned_values()]
        upd_blocks = [bi for bi, r in upd if "PayloadTarget::start" in r]
        ok = bool(st_blocks) and bool(upd_blocks) and all(ub not in b.reachable(0, removed_blocks=set(oc.fail_blocks) | st_blocks) for ub in upd_blocks)
        ctx.ob("R-CHK", "Client::%s:update-only-after-adopting-EndOfData-state" % meth, ok,
               "Client::%s returns an update only on paths that stored the state of the received End-of-Data PDU" % meth,
               where=b.loc, detail={"state_assignments": sorted(st_blocks), "update_returns": upd})
        allowed_other = ["option::Option::None{}"] if meth == "serial" else []
        ctx.ob("R-FLOW", "Client::%s:no-other-state-writes" % meth, sorted(other_state) == allowed_other,
               "Client::%s writes its session state only from the End-of-Data PDU%s" % (meth, " (or clears it on Cache Reset)" if meth == "serial" else ""),
               where=b.loc, detail=other_state)
        # timing: on the Some edge of end.timing() the timing is stored before the update is returned
        tsw = variant_switches(b, s, r"^EndOfData::timing\(%s\)$" % END)
        okt = False
        if tsw and tm_blocks:
            some_t = [tb for v, tb in b.switch_edges(tsw[0]) if v == 1]
            okt = bool(some_t) and all(ub not in b.reachable(some_t[0], removed_blocks=tm_blocks) for ub in upd_blocks) and \
                all(tb in b.reachable(some_t[0]) for tb in tm_blocks)
        elif tm_always and not tm_blocks and bool(upd_blocks):
            # the store that adopts the timing for every value of end.timing() (timing_store "always") needs no match:
            # it has to lie on every path that returns the update
            okt = all(ub not in b.reachable(0, removed_blocks=set(oc.fail_blocks) | tm_always) for ub in upd_blocks)
        ctx.ob("R-CHK", "Client::%s:timing-adopted-when-present" % meth, okt,
               "when the End-of-Data PDU carries timing values Client::%s stores them before returning the update" % meth, where=b.loc)
        # ---- the update returned is the one started with the right reset flag ------------
        starts = [c for c in b.calls() if c.name == "start" and (c.trait or "").endswith("PayloadTarget") and not b.is_cleanup(c.bb)]
        # `self` is the captured receiver, read through a local copy (`$self`) or directly (`^self`)
        oks = len(starts) == 1 and K.arg_renders(starts[0]) in (["$self.target", reset_flag], ["^self.target", reset_flag])
        want_rx = r"\w+⟵PayloadTarget::start\([$^]self\.target, %s\)" % reset_flag      # whatever the local is called
        # "returns that very update" is a statement about the update returns: none found ⇒ not established here
        # (it is then decided on the view that shows the awaited part of the exchange in place)
        oks = oks and bool(upd_blocks) and all(re.search(want_rx, r) for bi, r in upd if bi in upd_blocks)
        ctx.ob("R-FLOW", "Client::%s:target-started-with-reset=%s" % (meth, reset_flag), oks,
               "Client::%s starts the target update with reset=%s and returns that very update" % (meth, "true" if reset_flag == "1" else "false"),
               where=b.loc, detail=[K.arg_renders(c) for c in starts])
        # ---- every payload PDU is checked, converted and pushed with its own action -------
        pu = [c for c in b.calls() if c.name == "push_update" and not b.is_cleanup(c.bb)]
        okp = len(pu) == 1
        det = None
        if okp:
            a = K.arg_renders(pu[0])
            det = a
            conv = r"Payload::to_payload\(%s\)↓Ok\.0" % PAY
            okp = re.match("^" + want_rx + "$", a[0]) is not None and re.match("^" + conv + r"\.0$", a[1]) is not None and re.match("^" + conv + r"\.1$", a[2]) is not None
        ctx.ob("R-FLOW", "Client::%s:push(action, payload)-of-the-received-PDU" % meth, okp,
               "Client::%s pushes exactly the (action, payload) pair converted from the PDU just read" % meth, where=b.loc, detail=det)
        # loop form: after reading a payload PDU, the next read is reachable only through version check, conversion and push
        rd = [c for c in b.calls() if c.res == PDU + "Payload::read"]
        steps = {
            "check_version(pdu.version())": [c.bb for c in b.calls() if c.res == CL + "check_version" and re.search(r"^Payload::version\(%s\)$" % PAY, K.arg_renders(c)[1])],
            "to_payload": [c.bb for c in b.calls() if c.res == PDU + "Payload::to_payload"],
            "push_update": [c.bb for c in pu],
        }
        for sname, blocks in steps.items():
            res = loop_each_checked(b, None, None, oc=oc, elem_switch_rx=r"^%s$" % PAY.replace("↓Some\\.0", ""),
                                    require_for_return=True, pass_blocks=set(blocks))
            okl = bool(res) and all(r[1] for r in res) and bool(blocks)
            chk = all(call_checked(b, bb, oc)[0] for bb in blocks)
            ctx.ob("R-CHK", "Client::%s:each-PDU→%s" % (meth, sname), okl and chk,
                   "every supported payload PDU received by Client::%s goes through %s (and a failure ends the exchange) "
                   "before the next PDU is read or the update returned" % (meth, sname), where=b.loc,
                   detail=[r[2] for r in res])
        ev = [c.bb for c in b.calls() if c.res == CL + "check_version" and re.search(r"^EndOfData::version\(%s\)$" % END, K.arg_renders(c)[1])]
        okv = bool(ev) and all(call_checked(b, bb, oc)[0] for bb in ev) and \
            all(sb not in b.reachable(0, removed_blocks=set(oc.fail_blocks) | set(ev)) for sb in st_blocks)
        ctx.ob("R-CHK", "Client::%s:EndOfData-version-checked" % meth, okv,
               "the End-of-Data PDU's version is checked before its state is adopted", where=b.loc)
        sv = [c.bb for c in b.calls() if c.res == CL + "check_version" and "CacheResponse::version(" in K.arg_renders(c)[1]]
        okc = bool(sv) and all(call_checked(b, bb, oc)[0] for bb in sv) and all(r.bb not in b.reachable(0, removed_blocks=set(oc.fail_blocks) | set(sv)) for r in rd)
        ctx.ob("R-CHK", "Client::%s:CacheResponse-version-checked" % meth, okc,
               "the Cache Response's version is checked before any payload is read", where=b.loc)
        checks[meth] = sorted((short(c.res or "?"), re.sub(r"\(.*", "", K.arg_renders(c)[1]) if len(c.args) > 1 else "")
                              for c in b.calls() if not b.is_cleanup(c.bb) and c.is_static and
                              c.res in (CL + "check_version", PDU + "Payload::to_payload", PDU + "Payload::read") or
                              (c.name == "push_update" and not b.is_cleanup(c.bb)))
    if len(checks) == 2:
        ctx.ob("R-SIB", "Client::serial≡Client::reset:payload-loop-checks", checks["serial"] == checks["reset"],
               "serial and reset run the same checks on the response (version checks, conversion, push)", detail=checks)

    # EndOfData accessors
    eb = f.body(PDU + "EndOfData::state")
    if eb is not None:
        vals = [render(t) for _, _, t in success_values(eb)]
        ctx.ob("R-FLOW", "EndOfData::state", vals == ["State::from_parts(EndOfData::session(self), EndOfData::serial(self))"],
               "EndOfData::state is built from the PDU's own session and serial", where=eb.loc, detail=vals)
    tb = f.body(PDU + "EndOfData::timing")
    if tb is not None:
        paths, it, err = K.run_absint(f, tb.name)
        got = sorted((tuple(c[0] for c in p.conds), outcome_str(p.outcome)) for p in (paths or []))
        ok = got == [(("self is V0",), "return None"), (("self is V1",), "return Some(EndOfDataV1::timing(self↓V1.0))")]
        ctx.ob("R-REG", "EndOfData::timing", ok, "timing() is Some exactly for the version ≥ 1 layout", where=tb.loc, detail=got)
    sb = f.body("rtr::state::State::from_parts")
    if sb is not None:
        vals = [render(t) for _, _, t in success_values(sb)]
        ctx.ob("R-FLOW", "State::from_parts", vals == ["state::State::State{session: session, serial: serial}"],
               "State::from_parts stores (session, serial) in order", where=sb.loc, detail=vals)

    # ---- C06.c version gating -------------------------------------------------------------
    nb = f.body(PDU + "Payload::new_if_supported")
    if nb is None:
        ctx.missing("R-REG", "Payload::new_if_supported", PDU + "Payload::new_if_supported")
    else:
        ctx.saw_fn(nb.name)
        paths, it, err = K.run_absint(f, nb.name)
        if paths is None:
            ctx.ob("R-REG", "new_if_supported:analysable", False, "cannot establish: " + err, where=nb.loc)
        else:
            for kind, minv in (("Origin", 0), ("RouterKey", 1), ("Aspa", 2)):
                flt = lambda p, kind=kind: ("payload is %s" % kind, True) in p.conds
                rows = []
                if minv > 0:
                    rows.append(("version<%d" % minv, RC("version", 0, minv - 1), lambda p: outcome_str(p.outcome) == "return None", "None"))
                rows.append(("version≥%d" % minv, RC("version", minv, 255),
                             lambda p, kind=kind: outcome_str(p.outcome) in ("return Some(Payload::new(version, flags, %s))" % kind,
                                                                          "return Some(Payload::new(version, flags, payload))"),
                             "Some(Payload::new(version, flags, payload))"))
                K.check_regions(ctx, "R-REG", "new_if_supported[%s]" % kind, paths, it, rows, nb.loc, allow_opaque=True, path_filter=flt)
    eb = f.body(PDU + "EndOfData::new")
    if eb is not None:
        paths, it, err = K.run_absint(f, eb.name)
        if paths is not None:
            K.check_regions(ctx, "R-REG", "EndOfData::new", paths, it, [
                ("version=0", RC("version", 0, 0), lambda p: outcome_str(p.outcome) == "return V0(EndOfDataV0::new(state))", "V0 layout"),
                ("version≥1", RC("version", 1, 255), lambda p: outcome_str(p.outcome) == "return V1(EndOfDataV1::new(version, state, timing))", "V1 layout with the timing values"),
            ], eb.loc)
    cv = CL + "check_version"
    cb = f.body(cv)
    if cb is None:
        ctx.missing("R-REG", "Client::check_version", cv)
    else:
        ctx.saw_fn(cv)
        names = {"self.version↓Some.0": "cur", "version": "v"}
        paths, it, err = K.run_absint(f, cv, sym_names={"self.version↓Some.0": "cur"})
        if paths is not None:
            isnone = lambda p: ("self.version is None", True) in p.conds
            issome = lambda p: ("self.version is Some", True) in p.conds
            okk = lambda p: outcome_str(p.outcome) == "return Ok(())"
            errk = lambda p: outcome_str(p.outcome).startswith("return Err(")
            K.check_regions(ctx, "R-REG", "Client::check_version[no version yet]", paths, it, [
                ("v≤2", RC("version", 0, 2), okk, "Ok (version adopted)"), ("v>2", RC("version", 3, 255), errk, "Err")],
                cb.loc, allow_opaque=True, path_filter=isnone)
            K.check_regions(ctx, "R-REG", "Client::check_version[version stored]", paths, it, [
                ("v=cur", RC(("version", "cur"), 0, 0), okk, "Ok"), ("v>cur", RC(("version", "cur"), 1, None), errk, "Err"),
                ("v<cur", RC(("version", "cur"), None, -1), errk, "Err")], cb.loc, allow_opaque=True, path_filter=issome)
        s = K.sym_of(cb)
        sv = False
        for blk in cb.blocks:
            for st in blk["stmts"]:
                if st["s"] == "assign" and any(p[0] == "f" and p[1] == "version" for p in st["pl"]["p"]):
                    sv = render(strip_deep(s.rvalue(st["rv"]))) == "option::Option::Some{0: version}"
        ctx.ob("R-FLOW", "Client::check_version:stores-version", sv, "the first accepted version is stored", where=cb.loc)

    # ---- C06.d flags ↔ action ------------------------------------------------------------------
    fb = f.body("rtr::payload::Action::from_flags")
    ib = f.body("rtr::payload::Action::into_flags")
    if fb is None or ib is None:
        ctx.missing("R-REG", "Action::from_flags/into_flags", "rtr::payload::Action")
    else:
        for bit, want in ((0, "Withdraw"), (1, "Announce")):
            for lo in (bit, bit + 2, bit + 254):
                paths, it, err = K.run_absint(f, fb.name, assume=[("^flags$", lo, lo)])
                ok = paths is not None and len(paths) == 1 and outcome_str(paths[0].outcome) == "return " + want
                ctx.ob("R-REG", "Action::from_flags[flags=%d]" % lo, ok, "from_flags(%d) is %s (bit 0 decides)" % (lo, want), where=fb.loc)
        # the small predicates of Action itself (`is_announce`, `is_withdraw`) are read through
        paths, it, err = K.run_absint(f, ib.name, inline=lambda res: res.startswith("rtr::payload::Action::"))
        got = sorted((tuple(c[0] for c in p.conds), outcome_str(p.outcome)) for p in (paths or []))
        ctx.ob("R-REG", "Action::into_flags", got == [(("self is Announce",), "return 1"), (("self is Withdraw",), "return 0")],
               "into_flags: Announce → 1, Withdraw → 0 (inverse of from_flags on bit 0)", where=ib.loc, detail=got)
    ctx.note("observation: Client::update races SerialNotify::read (read_exact into a future-owned buffer) against timeout_at; "
             "a timeout between two fragments of a Serial Notify PDU drops the fragment already read. This is outside C06's "
             "statement (it concerns stream framing after a cancelled read, not the data adopted) and is reported here only.")
