"""C16 — RTR serial numbers compare and advance per RFC 1982 (decided in full by
abstract interpretation over the zone domain; DESIGN §2 C16)."""
import re
from engine import absint
from engine.absint import region_constraints as RC, outcome_str
from props import common as K

META = {
    "level": "proof",
    "explanation": "Sound path-partitioned abstract interpretation (zone domain over self.0, other.0) of "
                   "<Serial as PartialOrd>::partial_cmp, Serial::add, to_be/from_be, eq and hash: the computed map "
                   "input-region → outcome is compared for equality with the RFC 1982 table over the whole 2^64 input "
                   "space, including absence of any feasible overflow panic; every table row is an obligation; to_be / from_be decided as byte permutations on little- and big-endian hosts.",
    "not_decided": [],
    "trusted_base": ["the ≈800-line abstract interpreter (/verif/engine/absint.py)", "std integer cmp / wrapping_add / to_be semantics"],
    "technique": "abstract interpretation of type-checked MIR (zone/DBM domain, path partitioning) compared with a spec table",
}

S = "rtr::state::Serial"
M31 = 2**31
M32 = 2**32


def ret_is(text):
    return lambda p: outcome_str(p.outcome) == "return " + text


def run(ctx):
    f = ctx.facts()
    ctx.rule("R-REG", "outcome regions computed by abstract interpretation equal the RFC 1982 table")
    ctx.rule("R-FLOW", "value provenance of the result")
    ctx.rule("R-SIB", "Eq and Hash look at the same field")

    # the comparison operators are the ones std derives from partial_cmp: no hand-written lt / le / gt / ge (which could
    # treat the partial order as total), and no Ord impl
    over = sorted(n for n in f.bodies if re.match(r"^<%s as std::cmp::(PartialOrd|Ord)>::(lt|le|gt|ge|cmp|max|min|clamp)$" % re.escape(S), n))
    ctx.ob("R-SIB", "Serial:operators-derive-from-partial_cmp", not over,
           "`<`, `<=`, `>`, `>=` on Serial are std's defaults over partial_cmp (undefined pairs compare false both ways); there is "
           "no overriding method and no total Ord", detail=over or None)

    fn = "<%s as std::cmp::PartialOrd>::partial_cmp" % S
    b = f.body(fn)
    if b is None:
        ctx.missing("R-REG", "partial_cmp", fn)
    else:
        ctx.saw_fn(fn)
        paths, it, err = K.run_absint(f, fn, sym_names={"self.0": "a", "other.0": "b"})
        if paths is None:
            ctx.ob("R-REG", "partial_cmp:analysable", False, "cannot establish: " + err, where=b.loc)
        else:
            d = ("b", "a")     # t = b - a ; RFC distance d = t mod 2^32
            rows = [
                ("d=0", RC(d, 0, 0), ret_is("Some(Equal)"), "Some(Equal)"),
                ("d∈[1,2^31-1] (b ahead, no wrap)", RC(d, 1, M31 - 1), ret_is("Some(Less)"), "Some(Less)"),
                ("d=2^31 (no wrap)", RC(d, M31, M31), ret_is("None"), "None"),
                ("d∈[2^31+1,2^32-1] (no wrap)", RC(d, M31 + 1, M32 - 1), ret_is("Some(Greater)"), "Some(Greater)"),
                ("d∈[2^31+1,2^32-1] (t=d-2^32)", RC(d, M31 + 1 - M32, -1), ret_is("Some(Greater)"), "Some(Greater)"),
                ("d=2^31 (t=-2^31)", RC(d, -M31, -M31), ret_is("None"), "None"),
                ("d∈[1,2^31-1] (t=d-2^32)", RC(d, 1 - M32, -M31 - 1), ret_is("Some(Less)"), "Some(Less)"),
            ]
            K.check_regions(ctx, "R-REG", "Serial::partial_cmp", paths, it, rows, b.loc)
            panics = [p for p in paths if p.outcome[0] != "return"]
            ctx.ob("R-REG", "Serial::partial_cmp:no-panic", not panics,
                   "no feasible panic / overflow edge in partial_cmp over all (self, other)", where=b.loc,
                   detail=[p.describe() for p in panics] or {"paths": len(paths)})
            ctx.ob("R-REG", "Serial::partial_cmp:precise", not it.imprecise,
                   "the analysis lost no precision (every branch was decided in the zone domain)", where=b.loc,
                   detail=it.imprecise or None)

    fn = S + "::add"
    b = f.body(fn)
    if b is None:
        ctx.missing("R-REG", "add", fn)
    else:
        ctx.saw_fn(fn)
        paths, it, err = K.run_absint(f, fn, sym_names={"self.0": "a", "other": "n"})
        if paths is None:
            ctx.ob("R-REG", "add:analysable", False, "cannot establish: " + err, where=b.loc)
        else:
            rows = [
                ("n∈[0,2^31-1]", RC("n", 0, M31 - 1), ret_is("state::Serial{0: wrapping_add(a, n)}"), "Serial(self.0.wrapping_add(n))"),
                ("n≥2^31", RC("n", M31, M32 - 1), lambda p: p.outcome[0] == "panic", "panic (documented)"),
            ]
            K.check_regions(ctx, "R-REG", "Serial::add", paths, it, rows, b.loc)

    for name, expect in (("to_be", "to_be(a)"), ("from_be", "state::Serial{0: from_be(value)}")):
        fn = "%s::%s" % (S, name)
        b = f.body(fn)
        if b is None:
            ctx.missing("R-FLOW", name, fn)
            continue
        ctx.saw_fn(fn)
        paths, it, err = K.run_absint(f, fn, sym_names={"self.0": "a"})
        ok = paths is not None and len(paths) == 1 and outcome_str(paths[0].outcome) == "return " + expect
        detail = [p.describe() for p in (paths or [])]
        if not ok:
            # the same conversion spelt through byte arrays (`u32::from_ne_bytes(x.to_be_bytes())`, …): the composition is
            # evaluated as a permutation of the four bytes for a little- and a big-endian host and compared with to_be /
            # from_be (one and the same permutation)
            from engine.rules import success_values
            from engine.sym import strip_deep, render
            vals = [strip_deep(t) for _, _, t in success_values(b)]
            sy = K.sym_of(b)
            p1 = strip_deep(sy.local(1))

            def is_input(t, p1=p1, name=name):
                t = strip_deep(t)
                if name == "to_be":
                    return t[0] == "field" and str(t[2]) == "0" and strip_deep(t[1]) == p1
                return t == p1
            if len(vals) == 1:
                v = vals[0]
                if name == "from_be" and v[0] == "agg" and len(v[3]) == 1:
                    v = strip_deep(v[3][0][1])
                elif name == "from_be":
                    v = None
                ok = v is not None and K.is_byte_order_conversion(v, is_input, name)
                detail = [render(x)[:160] for x in vals]
        ctx.ob("R-FLOW", "Serial::" + name, ok, "Serial::%s is u32::%s of the wrapped value" % (name, name), where=b.loc,
               detail=detail)

    fn = "<%s as std::cmp::PartialEq>::eq" % S
    b = f.body(fn)
    if b is None:
        ctx.missing("R-REG", "eq", fn)
    else:
        ctx.saw_fn(fn)
        paths, it, err = K.run_absint(f, fn, sym_names={"self.0": "a", "other.0": "b"})
        if paths is None:
            ctx.ob("R-REG", "eq:analysable", False, "cannot establish: " + err, where=b.loc)
        else:
            rows = [("a=b", RC(("a", "b"), 0, 0), ret_is("1"), "true"),
                    ("a<b", RC(("a", "b"), None, -1), ret_is("0"), "false"),
                    ("a>b", RC(("a", "b"), 1, None), ret_is("0"), "false")]
            K.check_regions(ctx, "R-REG", "Serial::eq", paths, it, rows, b.loc)
    fn = "<%s as std::hash::Hash>::hash" % S
    b = f.body(fn)
    if b is None:
        ctx.missing("R-SIB", "hash", fn)
    else:
        ctx.saw_fn(fn)
        # what is fed to the hasher: `self.0.hash(state)` or, the same thing spelt out, `state.write_u32(self.0)` (u32's own
        # Hash impl is write_u32) — every feeding call takes the wrapped value and nothing else is fed
        hs = [c for c in b.calls() if not b.is_cleanup(c.bb) and (c.name == "hash" or (c.name or "").startswith("write_"))]
        fed = []
        for c in hs:
            a = K.arg_renders(c)
            fed.append(a[0] if c.name == "hash" else (a[1] if len(a) > 1 else None))
        ok = len(hs) == 1 and fed[0] == "self.0" and (hs[0].name in ("hash", "write_u32"))
        ctx.ob("R-SIB", "Serial::hash-field", ok, "Hash feeds exactly the field Eq compares (self.0)", where=b.loc)
    # serial arithmetic happens in Serial's own functions only: nobody else assigns or mutably borrows the wrapped integer
    # (an in-place `serial.0 += 1` elsewhere overflows at 0xFFFF_FFFF instead of wrapping), and nobody else builds a Serial
    # from an integer it computed itself
    K.check_field_writers(ctx, f, "R-WHO", S, "0", set(),
                          "the wrapped integer of a Serial is never assigned or mutably borrowed outside Serial's own "
                          "constructors (advancing a serial goes through Serial::add, which wraps)")
    from engine.rules import aggregates_of, root_fn
    makers = sorted({root_fn(f, bd.name) for bd, bi, si, st in aggregates_of(f, S)})
    foreign = [m for m in makers if not (m.startswith(S + "::") or m.startswith("<%s as " % S) or
                                         (" for %s>::" % S) in m)]
    ctx.ob("R-WHO", "Serial:built-only-by-its-own-impls", not foreign and len(makers) >= 2,
           "Serial(..) values are built only by functions of Serial's own impls (from, from_be, add, …)", detail={"others": foreign, "all": makers})
    # the derived/other impls must not redefine comparison differently: only one PartialOrd impl
    impls = [i for i in f.impls if i.get("adt") == S and i.get("trait") in ("std::cmp::PartialOrd", "std::cmp::Ord")]
    ctx.ob("R-SIB", "Serial:ordering-impls", len(impls) == 1 and impls[0]["trait"] == "std::cmp::PartialOrd" and not impls[0]["derived"],
           "Serial has exactly the one hand-written PartialOrd impl analysed above (no total Ord)",
           detail=[(i["trait"], i["derived"]) for i in impls])
