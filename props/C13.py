"""C13 — prefixes, max-length prefixes, AS-number sets obey their value laws
(structural clauses; DESIGN §2 C13.a–e)."""
import re
from engine import absint
from engine.absint import region_constraints as RC, outcome_str
from engine.rules import (MustPass, guard_edges, eq_matcher, pred_matcher, outcome, aggregates_of, is_derived, root_fn,
                          call_checked, success_values, calls_to)
from engine.sym import Sym, strip, strip_deep, render, walk, short
from props import common as K

META = {
    "level": "other",
    "technique": "static analysis of type-checked MIR (rustc_private driver): abstract-interpretation tables vs spec regions, construction-site enumeration, projection agreement of Eq/Ord/Hash, step-table extraction of the merge iterators; symbolic bit-vector evaluation (affine forms over GF(2), reduced row echelon comparison) of Prefix::covers and the Bits mask helpers for every length; per-value evaluation of stored family/length codes",
    "explanation": "Abstract-interpretation tables for FamilyAndLen::new_v4/new_v6/len/is_v4, MaxLenPrefix::new/"
                   "saturating_new/resolved_max_len compared with the spec for every input region; construction-site "
                   "enumeration for FamilyAndLen, Prefix, MaxLenPrefix and SmallAsnSet (every safe constructor goes through "
                   "the checks / sort+dedup); host-bits guards and provenance in the Prefix constructors; the decoder guard "
                   "that justifies the one unsafe SmallAsnSet constructor call; Eq/Ord/Hash of RouteOrigin read exactly the "
                   "same projections; shift sites enumerated; the step table of each of the four merge iterators (what is "
                   "advanced / yielded for every combination of heads and their order) equals the table of its set operation; Prefix::covers is false on every path feasible for a more specific self; Prefix::covers ⇔ range inclusion for every pair of lengths of either family (the returned expression evaluated over 128-bit vectors of GF(2) forms in the address bits, compared with {s_i = o_i : i < len(self)} in reduced row echelon form; no full-width shift on a feasible path); Bits::clear_host / into_max / is_host_zero decided the same way for every length 0..=128; every byte stored into a FamilyAndLen is a valid code (all 256 values of the octet it depends on tried).",
    "not_decided": ["totality/transitivity of Ord",
                    "correctness of the merge iterators beyond their single-step tables (that the inputs are ascending)", "text round trip as value identity"],
    "trusted_base": ["std sort/dedup/binary_search", "derive(PartialEq, Hash) compare/hash all fields",
                     "a BTreeSet iterates in ascending order without duplicates",
                     "Option::is_some_and / is_none_or / map_or / filter, Ordering::is_lt … / reverse / then, Result::map / and_then: std's documented contracts"],
}

A = "resources::addr::"


def ret_is(text, names=None):
    return K.ret_is(text, names)


# ---------------------------------------------------------------------------------------------
# flow-sensitive value provenance: what a place holds *at a program point*

class FlowSym(Sym):
    """Sym whose locals are resolved through the definitions that reach the point of use (reaching definitions over
    the blocks reachable from the entry).  A local assigned on several paths (`let x; if c { x = a } else { x = b }`,
    the return slot of a helper folded into its caller, a block duplicated by jump threading) is followed through the
    one definition that can reach the use; when several different values reach it the term stays an opaque `$var`
    exactly as in the position-insensitive Sym."""

    def __init__(self, body, max_depth=60):
        super().__init__(body, max_depth)
        self._pos = None
        self._live = body.reachable(0)
        self._dmemo = {}
        self._rmemo = {}

    def at(self, bb, si):
        self._pos = (bb, len(self.body.blocks[bb]["stmts"]) if si == "term" else si)
        return self

    def _idx(self, d):
        return len(self.body.blocks[d[0]]["stmts"]) if d[1] == "term" else d[1]

    def _reaching(self, l, pos):
        key = (l, pos)
        if key in self._rmemo:
            return self._rmemo[key]
        ds = self._defs.get(l, [])
        by_block = {}
        for d in ds:
            by_block.setdefault(d[0], []).append(d)
        out = []
        bb, si = pos
        here = [d for d in by_block.get(bb, []) if self._idx(d) < si]
        if here:
            out.append(max(here, key=self._idx))
        else:
            seen = set()
            work = [p for p in self.body.preds(bb)]
            while work:
                p = work.pop()
                if p in seen or p not in self._live or self.body.is_cleanup(p):
                    continue
                seen.add(p)
                # a call defines its destination only on the edge of normal return
                cand = [d for d in by_block.get(p, [])]
                if cand:
                    out.append(max(cand, key=self._idx))
                else:
                    work.extend(self.body.preds(p))
        self._rmemo[key] = out
        return out

    def _defval(self, l, d, depth):
        key = (l, d[0], d[1])
        if key in self._dmemo:
            return self._dmemo[key]
        self._dmemo[key] = ("unknown", "cycle")
        save = self._pos
        self._pos = (d[0], self._idx(d))
        try:
            if d[2] == "assign":
                r = self.rvalue(d[3]["rv"], depth + 1)
            elif d[2] == "call":
                r = self.call(d[3], d[0], depth + 1)
            elif d[2] == "yield":
                r = ("yield",)
            else:
                r = ("var", self.body.local_name(l) or "_%d" % l, l)
        finally:
            self._pos = save
        self._dmemo[key] = r
        return r

    def local(self, l, depth=0):
        if self._pos is None:
            return super().local(l, depth)
        b = self.body
        if depth > self.max_depth:
            return ("unknown", "depth")
        if 1 <= l <= b.arg_count:
            return ("param", b.local_name(l) or "_%d" % l)
        ds = self._reaching(l, self._pos)
        if not ds:
            return ("unknown", "undef _%d" % l)
        vals = {}
        for d in ds:
            v = self._defval(l, d, depth)
            vals.setdefault(render(strip_deep(v)), v)
        if len(vals) == 1:
            r = next(iter(vals.values()))
            if l in self._mutb and r[0] not in ("closure", "var"):
                r = ("mvar", b.local_name(l) or "_%d" % l, l, r)
            return r
        return ("var", b.local_name(l) or "_%d" % l, l)


def peel_try(t):
    """Look through the success projections of `?` and of freshly built Ok/Some values:
    `Try::branch(x)↓Continue.0` is `x↓Ok.0` (`x↓Some.0` for an Option) and `Ok(v)↓Ok.0` is `v`."""
    t = strip(t)
    k = t[0]
    if k == "field":
        base = peel_try(t[1])
        if base[0] == "variant":
            inner = strip(base[1])
            if inner[0] == "agg" and str(inner[2]) == str(base[2]):
                for fn_, v in inner[3]:
                    if fn_ == t[2]:
                        return v
        return ("field", base, t[2], t[3] if len(t) > 3 else None)
    if k == "variant":
        base = peel_try(t[1])
        if t[2] == "Continue" and base[0] == "call" and (base[3] or {}).get("name") == "branch" \
                and (base[3] or {}).get("trait") == "std::ops::Try" and len(base[2]) == 1:
            res = (base[3] or {}).get("res") or ""
            which = "Ok" if "result::Result" in res else ("Some" if "option::Option" in res else None)
            if which:
                return peel_try(("variant", base[2][0], which))
        return ("variant", base, t[2])
    if k == "call":
        return ("call", t[1], tuple(peel_try(a) for a in t[2]), t[3])
    if k == "agg":
        return ("agg", t[1], t[2], tuple((f_, peel_try(v)) for f_, v in t[3]))
    if k in ("discr", "len"):
        return (k, peel_try(t[1]))
    if k == "mvar":
        return ("mvar", t[1], t[2], peel_try(t[3]))
    return t


_CMP_CALLS = ("eq", "ne", "cmp", "partial_cmp", "lt", "le", "gt", "ge", "hash")
_CMP_BINOPS = ("Eq", "Ne", "Lt", "Le", "Gt", "Ge", "Cmp")


def compared_operands(f, b, subst=None, depth=0):
    """What the comparison / hashing steps of `b` look at: one list of operand texts per step (calls of eq / cmp /
    hash … and primitive comparisons), α-normalised (`self`, %2 = the other parameter).  Tuples are taken apart (a
    tuple compares / hashes exactly its components), and closures built in `b` (`then_with(|| …)`, `map`, …) are read
    too, with their captures standing for the values captured."""
    from engine import sym as symmod
    sy = K.sym_of(b)
    name = (lambda s: s) if subst is not None else (lambda s: K.alpha(s, b))

    def texts(t):
        t = strip_deep(t)
        if t[0] == "agg" and t[1] == "tuple":
            return [x for _, v in t[3] for x in texts(v)]
        return [name(render(t))]

    out = []
    closures = {}

    def scan():
        for c in b.calls():
            if b.is_cleanup(c.bb) or not c.is_static:
                continue
            terms = K.arg_terms(c)
            if c.name in _CMP_CALLS and re.match(r"^<(std|core)::cmp::Ordering as ", c.res or ""):
                continue            # a test of a comparison's result (`a.cmp(&b) == Equal`), not a look at the values
            if c.name in _CMP_CALLS and 1 <= len(terms) <= 2:
                parts = [texts(t) for t in terms[:2]]
                sib = re.match(r"^<(\S+) as std::(?:cmp::\w+|hash::Hash)>::(\w+)$", c.res or "")
                if sib and parts[0] == ["self"] and b.name.startswith("<%s as " % sib.group(1)) and (c.res or "") != b.name:
                    # the whole value handed to another of the type's own Eq / Ord / Hash impls: it looks at what that looks at
                    out.append(["@" + c.res])
                    continue
                if c.name == "hash":
                    out.extend([x] + (parts[1] if len(parts) > 1 else []) for x in parts[0])
                elif len(parts) == 2 and len(parts[0]) == len(parts[1]):
                    out.extend([x, y] for x, y in zip(*parts))       # tuples compare component by component
                else:
                    out.append([x for p_ in parts for x in p_])
            for t in terms:
                for x in walk(t):
                    if x[0] == "closure":
                        closures.setdefault(x[1], x)
        for blk in b.blocks:
            if blk.get("cleanup"):
                continue
            for st in blk["stmts"]:
                if st["s"] == "assign" and st["rv"]["r"] == "bin" and st["rv"]["bop"] in _CMP_BINOPS:
                    out.append([x for o in (st["rv"]["a"], st["rv"]["b"]) for x in texts(sy.operand(o))])
    if subst is not None:
        with symmod.substituting(subst):
            scan()
    else:
        scan()
    if depth < 3:
        for d, ct in sorted(closures.items()):
            if subst is not None:
                with symmod.substituting(subst):
                    cb, m = K.closure_env(f, ct, "<element>")
            else:
                cb, m = K.closure_env(f, ct, "<element>")
            if cb is None:
                out.append(["closure %s not found" % d])
                continue
            m = {k: (name(v) if k[0] == "upvar" else v) for k, v in m.items()}
            out.extend(compared_operands(f, cb, subst=m, depth=depth + 1))
    return out


def object_key(t):
    """Identity of the mutable object a term denotes — (local, field, …) — or None for a computed value."""
    t = strip_deep(t)
    path = []
    while t[0] == "field":
        path.append("." + str(t[2]))
        t = strip_deep(t[1])
    if t[0] in ("mvar", "var"):
        return (t[2],) + tuple(reversed(path))
    return None


def site_fields(f, b, bd, bi, si, st, fams=()):
    """{field: α-normalised value} of the aggregate built at (bi, si) of `bd`, in the vocabulary of the function `b`:
    `bd` is `b` itself, or a closure of `b` handed to `map` / `and_then` on a Result — by the contract of those
    combinators the closure's parameter is the receiver's Ok payload, and its captures are the captured values."""
    from engine import sym as symmod
    if bd is b:
        t = fold_len_roundtrip(value_text(b, FlowSym(b), st["rv"], bi, si), fams)
        return {k: K.alpha(render(v), b) for k, v in t[3]} if t[0] == "agg" else {}
    for c in b.calls():
        if b.is_cleanup(c.bb) or not c.is_static or c.name not in ("map", "and_then"):
            continue
        terms = K.arg_terms(c)
        cts = [x for t_ in terms[1:] for x in walk(strip_deep(t_)) if x[0] == "closure" and x[1] == bd.name]
        if not cts or not terms:
            continue
        recv = render(peel_try(strip_deep(terms[0])))
        cb, m = K.closure_env(f, cts[0], recv + "↓Ok.0")
        if cb is None:
            continue
        t = fold_len_roundtrip(value_text(bd, FlowSym(bd), st["rv"], bi, si), fams)
        if t[0] != "agg":
            return {}
        with symmod.substituting(m):
            return {k: K.alpha(render(v), b) for k, v in t[3]}
    return {}


def expand_vars(t, sym, depth=0):
    """The values a term may stand for when a multiply assigned local in it (`let x = match … { A => a?, B => b? }`) is
    replaced by each of its definitions."""
    t = strip_deep(t)
    k = t[0]
    if k == "var" and depth < 3:
        out = [x for _, v in sym.defs_of_var(t[2]) for x in expand_vars(v, sym, depth + 1)]
        return out or [t]
    if k == "agg" and len(t[3]) == 1:
        return [("agg", t[1], t[2], ((t[3][0][0], v),)) for v in expand_vars(t[3][0][1], sym, depth)]
    if k == "field":
        return [("field", x, t[2], t[3] if len(t) > 3 else None) for x in expand_vars(t[1], sym, depth)]
    if k == "variant":
        return [("variant", x, t[2]) for x in expand_vars(t[1], sym, depth)]
    return [t]


def rewrap(t):
    """`Ok(x?)` is `x` (up to the identity conversion of the error) and `Some(x?)` is `x`."""
    t = peel_try(strip_deep(t))
    if t[0] == "agg" and str(t[2]) in ("Ok", "Some") and len(t[3]) == 1:
        v = peel_try(strip_deep(t[3][0][1]))
        if v[0] == "field" and str(v[2]) == "0" and v[1][0] == "variant" and str(v[1][2]) == str(t[2]):
            return rewrap(v[1][1])
    return t


def fold_len_roundtrip(t, fams):
    """`FamilyAndLen::len(FamilyAndLen::new_<fam>(l)↓Ok.0)` is `l` for the families in `fams` — those for which this run has
    established both halves by abstract interpretation (the constructor's table: Ok ⇒ the byte encoding `l`; the accessor's
    table: that byte class decodes to the same number).  So a length handed on inside the checked family-and-length value
    and read back from it is the length given."""
    t = peel_try(strip_deep(t))
    k = t[0]
    if k == "call":
        info = t[3] or {}
        if info.get("res") == A + "FamilyAndLen::len" and len(t[2]) == 1:
            x = peel_try(strip_deep(t[2][0]))
            if x[0] == "field" and str(x[2]) == "0" and x[1][0] == "variant" and str(x[1][2]) == "Ok":
                c = peel_try(strip_deep(x[1][1]))
                for fam in fams:
                    if c[0] == "call" and (c[3] or {}).get("res") == A + "FamilyAndLen::new_" + fam and len(c[2]) == 1:
                        return fold_len_roundtrip(c[2][0], fams)
        return ("call", t[1], tuple(fold_len_roundtrip(a, fams) for a in t[2]), t[3])
    if k == "agg":
        return ("agg", t[1], t[2], tuple((f_, fold_len_roundtrip(v, fams)) for f_, v in t[3]))
    if k == "field":
        return ("field", fold_len_roundtrip(t[1], fams), t[2], t[3] if len(t) > 3 else None)
    if k == "variant":
        return ("variant", fold_len_roundtrip(t[1], fams), t[2])
    if k == "mvar":
        return ("mvar", t[1], t[2], fold_len_roundtrip(t[3], fams))
    return t


def value_text(body, fs, rv, bb, si):
    """α-normalised, `?`-peeled rendering of what the rvalue at (bb, si) evaluates to there."""
    return peel_try(strip_deep(fs.at(bb, si).rvalue(rv)))


def sym_alias(it, path):
    """The short name the interpreter was told to use for the quantity `path` (exact or `re:` key), else the path."""
    names = getattr(it, "sym_names", None) or {}
    if path in names:
        return names[path]
    for k, v in names.items():
        if k.startswith("re:") and re.search(k[3:], path):
            return v
    return path


def vdesc(v, it=None, depth=0):
    """Structural description of an abstract value that does not depend on how the source spelt it: integers by their
    linear form over the named quantities (`len ^ 0xFF`, `!len` and `255 - len` are all `-len+255`), quantities by the
    names of the specification, aggregates by type and field name."""
    if v is None:
        return "⊥"
    if depth > 6:
        return "…"
    k = v.k
    if k == "int":
        if v.lin is not None:
            return repr(v.lin)
        return v.expr or "?"
    if k == "obj":
        rng = absint.int_range(v.ty or "")
        if v.path.startswith("!") and rng is not None and rng[0] == 0 and re.match(r"^![\w.%↓]+$", v.path):
            return repr(absint.Lin({sym_alias(it, v.path[1:]): -1}, rng[1]))        # bitwise not of an unsigned integer
        return sym_alias(it, v.path)
    if k == "variant":
        fs = v.fields or {}
        return "%s(%s)" % (v.vname, ", ".join(vdesc(fs[i], it, depth + 1) for i in sorted(fs))) if fs else "%s" % v.vname
    if k == "struct":
        return "%s{%s}" % (short(v.adt or "?"), ", ".join("%s: %s" % (n, vdesc(x, it, depth + 1)) for n, x in sorted(v.fields.items())))
    if k == "tuple":
        return "(%s)" % ", ".join(vdesc(x, it, depth + 1) for x in v.fields)
    return absint.show(v)


def ret_val(text, it_box):
    """Row predicate: the path returns the value `text` (in vdesc form).  `it_box` is a one-element list holding the
    interpreter whose symbol names apply (filled in by the caller once the run exists)."""
    def pred(p):
        return p.outcome[0] == "return" and vdesc(p.outcome[1], it_box[0] if it_box else None) == text
    return pred


def maxlen_parts(p, it):
    """(wrapper, prefix, max_len) of the MaxLenPrefix value a path returns, each in vdesc form; None for anything else."""
    if p.outcome[0] != "return" or p.outcome[1] is None:
        return None
    v, wrap = p.outcome[1], ""
    if v.k == "variant" and v.vname == "Ok" and v.fields:
        v, wrap = v.fields.get(0), "Ok"
    if v is None or v.k != "struct" or not (v.adt or "").endswith("::MaxLenPrefix") or set(v.fields) != {"prefix", "max_len"}:
        return None
    return (wrap, vdesc(v.fields["prefix"], it), vdesc(v.fields["max_len"], it))


def same_option(t):
    """`Some(x↓Some.0)` is `x` (the projection exists only where `x` is `Some`): rebuilding an option from its own
    payload stores the option."""
    t = strip_deep(t)
    if t[0] == "agg":
        if str(t[2]) == "Some" and len(t[3]) == 1:
            v = strip_deep(t[3][0][1])
            if v[0] == "field" and str(v[2]) == "0" and v[1][0] == "variant" and str(v[1][2]) == "Some":
                return same_option(v[1][1])
        return ("agg", t[1], t[2], tuple((f_, same_option(v)) for f_, v in t[3]))
    return t


def row_verdicts(paths, it, rows, path_filter=None):
    """{row name: (holds, detail)} — K.check_regions without the reporting."""
    out = {}
    for name, cons, pred, text in rows:
        ps = absint.paths_in_region([p for p in paths if path_filter is None or path_filter(p)], cons)
        ok = bool(ps)
        det = []
        for p in ps:
            # the row is a claim about the part of the path that lies in the row's region: the predicate sees the path
            # with its constraints met with the region's (a value `pl` is the value `m` where the region has pl = m)
            z = p.zone.copy()
            for x, y, _ in cons:
                for q in (x, y):
                    if q is not None:
                        z.idx(q)
            good = bool(pred(absint.Path(z.meet_constraints(cons), p.outcome, p.effects, p.conds, p.trace)))
            ok = ok and good
            if not good or len(det) < 2:
                d = dict(p.describe(), verdict="ok" if good else "MISMATCH")
                if p.outcome[0] == "return":
                    d["value"] = vdesc(p.outcome[1], it)
                det.append(d)
        out[name] = (ok, {"expected": text, "paths": det, "imprecision": it.imprecise[:5]})
    return out


ROWS = {}        # "label:row" -> whether the row was established in the current run (reset by run())


def table(ctx, f, fn, rows, sym_names=None, assume=None, label=None, inline=None, path_filter=None):
    """rows: (name, zone constraints, expected value in vdesc form or a predicate, text)."""
    b = f.body(fn)
    if b is None:
        return ctx.missing("R-REG", short(fn), fn)
    ctx.saw_fn(fn)
    paths, it, err = K.run_absint(f, fn, sym_names=sym_names or {}, assume=assume or [], inline=inline)
    if paths is None and inline is not None:
        paths, it, err = K.run_absint(f, fn, sym_names=sym_names or {}, assume=assume or [])
    if paths is None:
        return ctx.ob("R-REG", "%s:analysable" % short(fn), False, "cannot establish: " + err, where=b.loc)
    box = [it]
    rows = [(n, c, ret_val(p, box) if isinstance(p, str) else p, t) for n, c, p, t in rows]
    lab = label or short(fn)
    for name, (ok, det) in row_verdicts(paths, it, rows, path_filter).items():
        ROWS["%s:%s" % (lab, name)] = ok
        ctx.ob("R-REG", "%s:%s" % (lab, name), ok, "%s: %s ⇒ %s" % (lab, name, [r[3] for r in rows if r[0] == name][0]), where=b.loc, detail=det)
    return paths


# The three byte classes of the private family-and-length encoding (established for the constructors and decoded back by
# the accessors in the FamilyAndLen tables): a v4 prefix is a byte 0..=32, a v6 prefix the byte 0x40 or a byte ≥ 0x80.
FAMILY_BYTES = {"v4": [(0, 32)], "v6": [(64, 64), (128, 255)]}


def in_module(prefix, keep=()):
    return lambda n: n.startswith(prefix) and n not in keep


class ValueInterp(absint.Interp):
    """The abstract interpreter with one more exact summary: `Ord::min` / `Ord::max` of a primitive integer type called as
    methods on values whose integer type is known only from the callee (`m.min(limit)` on the payload of an
    `Option<u8>` parameter): the arguments are numbers of the type the impl is for, the result is one of them, decided by
    their order — the same table the engine uses for `cmp::min(a, b)`."""

    def summary(self, st, body, k, res, name, trait, args, t, bb):
        ity = None
        if name in ("min", "max") and trait == "std::cmp::Ord" and len(args) == 2 and (k.get("res_krate") or k.get("krate")) in _STD:
            # both arguments have the type of the impl: the one type either of them is known to have
            m = re.match(r"^<(\w+) as std::cmp::Ord>::(min|max)$", res or "")
            tys = {m.group(1)} if m else {a.ty for a in args if a is not None and a.k in ("int", "obj") and a.ty}
            ity = next(iter(tys)) if len(tys) == 1 and next(iter(tys)) in absint.INT_RANGES else None
        if ity:
            xs = [self.as_int(st, a, ity) for a in args]
            if all(x is not None and x.lin is not None for x in xs):
                a, b = xs
                return [(s2, (a if tr else b) if name == "min" else (b if tr else a)) for s2, tr in self.fork_cmp(st, "le", a.lin, b.lin)]
        return super().summary(st, body, k, res, name, trait, args, t, bb)


def run_values(f, fname, **kw):
    """K.run_absint with ValueInterp (parameters named by position in `sym_names` likewise)."""
    kw = {k: v for k, v in kw.items() if v is not None}
    b = f.body(fname)
    if b is not None and kw.get("sym_names"):
        pn = {"%%%d" % i: b.local_name(i) for i in range(1, b.arg_count + 1) if b.local_name(i)}
        kw["sym_names"] = {re.sub(r"%\d+", lambda m: pn.get(m.group(0), m.group(0)), k): v for k, v in kw["sym_names"].items()}
    it = ValueInterp(f, **kw)
    try:
        return it.run(fname), it, None
    except absint.Unsupported as e:
        return None, it, str(e)


def same_on_path(p, it, v, want):
    """Whether the integer value `v` a path returns is the quantity / constant `want` *on that path*: the difference of
    the two linear forms is 0 under the path's own constraints (`max(32, pl)` returned as `pl` where the path has
    pl = 32 is the value 32)."""
    if v is None or v.k != "int" or v.lin is None:
        return False
    w = absint.Lin.const(int(want)) if re.match(r"^\d+$", want) else absint.Lin.sym(want)
    st = absint.State()
    st.zone = p.zone
    try:
        return tuple(it.lin_bounds(st, v.lin.sub(w))) == (0, 0)
    except Exception:
        return False


# the largest prefix length of each family: with the FamilyAndLen tables and construction sites established, the prefix
# length of a v4 prefix is at most 32 and that of a v6 prefix at most 128 (the type's invariant)
FAMILY_MAX = {"v4": 32, "v6": 128}


def family_table(ctx, f, fn, rows, label=None, invariant=()):
    """Spec rows over (family of the prefix, m = the max length given, pl = the prefix length) for a function
    (prefix, Option<u8>) -> …; rows: (name, "v4"/"v6", constraints over m / pl, expected value, text).

    The family and the length of the prefix are facts about the prefix argument, not calls of a particular accessor.
    Each row is decided under up to three readings of the same function, every one of them sound, and holds when one
    of them establishes it:
      1. the module's own functions folded into the body (public wrappers and private helpers alike) down to the two
         decoding accessors of the encoding byte, which are the quantities `v4` and `pl`;
      2. the same with the family test folded too, once for each byte class of the row's family (the family is then not
         a quantity at all: however the code asks for it, the answer follows from the byte);
      3. the body as written with the public accessors as the quantities.
    For the families in `invariant` (those whose type invariant this run has established) a row is decided for prefix
    lengths within the family's bound only; a row that does not name a family is decided for each family in turn."""
    b = f.body(fn)
    if b is None:
        return ctx.missing("R-REG", short(fn), fn)
    ctx.saw_fn(fn)
    lab = label or short(fn)
    FLN = A + "FamilyAndLen::"
    opt = b.local_name(2) or "max_len"
    flt = lambda p: ("%s is Some" % opt, True) in p.conds
    atoms = {"%2↓Some.0": "m",
             "FamilyAndLen::len(%1.family_and_len)": "pl", "FamilyAndLen::is_v4(%1.family_and_len)": "v4",
             "Prefix::len(%1)": "pl", "Prefix::is_v4(%1)": "v4"}
    fam_cons = {"v4": RC("v4", 1, 1), "v6": RC("v4", 0, 0)}
    cache = {}

    def reading(kind, cls=None, fam=None):
        key = (kind, cls, fam)
        if key not in cache:
            known = [("^pl$", 0, FAMILY_MAX[fam])] if fam in invariant else []
            if fam in invariant and kind != "bytes":
                known.append(("^v4$", int(fam == "v4"), int(fam == "v4")))
            if kind == "atoms":
                r = run_values(f, fn, sym_names=atoms, inline=in_module(A, (FLN + "len", FLN + "is_v4")), assume=known)
            elif kind == "bytes":
                names = {"%2↓Some.0": "m", "FamilyAndLen::len(%1.family_and_len)": "pl", "%1.family_and_len.0": "x"}
                r = run_values(f, fn, sym_names=names, inline=in_module(A, (FLN + "len",)), assume=[("^x$", cls[0], cls[1])] + known)
            else:
                r = run_values(f, fn, sym_names=atoms, assume=known)
            cache[key] = r
        return cache[key]

    def decide(row):
        name, fam, cons, want, text = row
        tried = {}
        for kind in ("atoms", "bytes", "plain"):
            fams = [fam] if fam else (["v4", "v6"] if invariant else [None])
            if kind == "bytes":
                runs = [(reading(kind, c, fx), c, fx) for fx in fams for c in (FAMILY_BYTES[fx] if fx else FAMILY_BYTES["v4"] + FAMILY_BYTES["v6"])]
            else:
                runs = [(reading(kind, None, fx if fx in invariant else None), None, fx) for fx in fams]
            ok = True
            dets = []
            for (paths, it, err), c, fx in runs:
                if paths is None:
                    ok = False
                    dets.append({"not analysable": err})
                    continue
                cs = cons if kind == "bytes" or not fx else fam_cons[fx] + cons
                pred = ret_val(want, [it]) if isinstance(want, str) else (lambda p, it=it: want(p, it))
                o, d = row_verdicts(paths, it, [(name, cs, pred, text)], flt)[name]
                ok = ok and o
                dets.append(d if c is None else dict(d, byte_class=list(c)))
            if ok:
                return True, {"reading": kind, "detail": dets[:1]}
            tried[kind] = dets
        return False, tried
    for row in rows:
        ok, det = decide(row)
        ctx.ob("R-REG", "%s:%s" % (lab, row[0]), ok, "%s: %s ⇒ %s" % (lab, row[0], row[4]), where=b.loc, detail=det)
    return reading("atoms")


def run(ctx):
    f = ctx.facts()

    # the read accessors of MaxLenPrefix hand out the stored fields as they are (serialisers, Display and the RTR payload
    # are written in terms of them: an accessor that "tidies" its answer changes what is written out)
    for acc, fld in (("max_len", "max_len"), ("prefix", "prefix")):
        K.check_returns_kept(ctx, f, "R-FLOW", A + "MaxLenPrefix::" + acc,
                             "MaxLenPrefix::%s() returns the stored field unchanged" % acc,
                             r"^self\.%s$" % fld, key="MaxLenPrefix::%s:returns-field" % acc)
    ctx.rule("R-REG", "outcome regions by abstract interpretation equal the spec table")
    ctx.rule("R-WHO", "construction sites of a type are exactly the confirmed ones")
    ctx.rule("R-GRD", "success requires the guard literal")
    ctx.rule("R-FLOW", "operand provenance")
    ctx.rule("R-CHK", "every return path passes the required calls")
    ctx.rule("R-SIB", "Eq / Ord / Hash look at the same projections")
    ctx.rule("R-PANIC", "shift sites enumerated; new sites are reported")

    ROWS.clear()
    # ---- C13.a FamilyAndLen ----------------------------------------------------
    # expected values are given by their value (linear form over the argument), not by the operator that computes them
    FL = A + "FamilyAndLen"
    table(ctx, f, FL + "::new_v4", [
        ("len≤32", RC("%1", 0, 32), "Ok(addr::FamilyAndLen{0: %1})", "Ok(FamilyAndLen(len))"),
        ("len>32", RC("%1", 33, 255), "Err(LenOverflow)", "Err(LenOverflow)"),
    ], sym_names={"%1": "%1"}, inline=in_module(A))
    table(ctx, f, FL + "::new_v6", [
        ("len<128", RC("%1", 0, 127), "Ok(addr::FamilyAndLen{0: -%1+255})", "Ok(FamilyAndLen(len ^ 0xFF))"),
        ("len=128", RC("%1", 128, 128), "Ok(addr::FamilyAndLen{0: 64})", "Ok(FamilyAndLen(0x40))"),
        ("len>128", RC("%1", 129, 255), "Err(LenOverflow)", "Err(LenOverflow)"),
    ], sym_names={"%1": "%1"}, inline=in_module(A))
    # accessors decode exactly the three encodings the constructors produce
    for lo, hi, cls, want_len, want_v4 in ((0, 32, "v4", "x", "1"), (64, 64, "v6/128", "128", "0"),
                                           (128, 255, "v6/<128", "-x+255", "0")):
        table(ctx, f, FL + "::len", [("x∈[%d,%d]" % (lo, hi), RC("x", lo, hi), want_len, want_len)],
              sym_names={"self.0": "x"}, assume=[("^x$", lo, hi)], label="FamilyAndLen::len[%s]" % cls, inline=in_module(A))
        table(ctx, f, FL + "::is_v4", [("x∈[%d,%d]" % (lo, hi), RC("x", lo, hi), want_v4, want_v4)],
              sym_names={"self.0": "x"}, assume=[("^x$", lo, hi)], label="FamilyAndLen::is_v4[%s]" % cls, inline=in_module(A))
    sites = [x for x in aggregates_of(f, FL) if not is_derived(x[0])]
    fns = sorted({root_fn(f, x[0].name) for x in sites})
    ok = set(fns) - {FL + "::new_v4", FL + "::new_v6"} <= {n for n in fns if "arbitrary" in n.lower()}
    fl_sites_ok = ok and {FL + "::new_v4", FL + "::new_v6"} <= set(fns)
    ctx.ob("R-WHO", "FamilyAndLen-literal-sites", fl_sites_ok,
           "FamilyAndLen(..) is built only in new_v4, new_v6 and the hand-written (range-respecting) Arbitrary impl", detail=fns)

    # ---- Prefix constructors -----------------------------------------------------
    # families for which "the length read back from the checked family-and-length value is the length given" is
    # established by the tables above (constructor: Ok ⇒ the encoding of len; accessor: that encoding decodes to len)
    need = {"v4": ("FamilyAndLen::new_v4:len≤32", "FamilyAndLen::len[v4]:x∈[0,32]"),
            "v6": ("FamilyAndLen::new_v6:len<128", "FamilyAndLen::new_v6:len=128", "FamilyAndLen::len[v6/128]:x∈[64,64]",
                   "FamilyAndLen::len[v6/<128]:x∈[128,255]")}
    roundtrip = tuple(fam for fam, rows in sorted(need.items()) if all(ROWS.get(r) is True for r in rows))
    P = A + "Prefix"
    sites = [x for x in aggregates_of(f, P) if not is_derived(x[0])]
    fns = sorted({root_fn(f, x[0].name) for x in sites})
    allowed = {P + "::new_v4", P + "::new_v6", P + "::new_v4_relaxed", P + "::new_v6_relaxed"}
    extra = [n for n in fns if n not in allowed and "arbitrary" not in n.lower()]
    ctx.ob("R-WHO", "Prefix-literal-sites", not extra and allowed <= set(fns),
           "Prefix {..} is built only in the four new_* constructors (and the hand-written Arbitrary impl)", detail=fns)
    adt = f.adts.get(P)
    if adt:
        ctx.ob("R-WHO", "Prefix-fields-private", all(fl["vis"] != "pub" for v in adt["variants"] for fl in v["fields"]),
               "Prefix fields are private")
    for fam in ("v4", "v6"):
        for relaxed in (False, True):
            fn = "%s::new_%s%s" % (P, fam, "_relaxed" if relaxed else "")
            b = f.body(fn)
            if b is None:
                ctx.missing("R-FLOW", short(fn), fn)
                continue
            ctx.saw_fn(fn)
            # what the two fields hold at the construction site, whichever way the values got there (`?`, a match that
            # returns the error, a local assigned in both arms, a checking helper that hands its argument back):
            # parameters are numbered (%1 = the address, %2 = the length), `?` projections are looked through
            mine = [x for x in sites if root_fn(f, x[0].name) == fn]
            okf = bool(mine)
            detail = None
            for bd, bi, si, st in mine:
                flds = site_fields(f, b, bd, bi, si, st, roundtrip)
                detail = flds
                fl_ok = flds.get("family_and_len") == "FamilyAndLen::new_%s(%%2)↓Ok.0" % fam
                if relaxed:
                    bits_ok = flds.get("bits") == "Bits::clear_host(Bits::from_%s(%%1), %%2)" % fam
                else:
                    bits_ok = flds.get("bits") == "Bits::from_%s(%%1)" % fam
                okf = okf and fl_ok and bits_ok
            ctx.ob("R-FLOW", "%s:fields" % short(fn), okf,
                   "%s stores the checked family/length of the same family and the %s address bits"
                   % (short(fn), "host-cleared" if relaxed else "given"), where=b.loc, detail=detail)
            if not relaxed:
                # the test is is_host_zero(<the address's bits>, <the length given>) — the length as the parameter itself or
                # read back from the checked family-and-length value of it
                g0 = pred_matcher(r"Bits::is_host_zero$", (r"^Bits::from_%s\(addr\)$" % fam,))

                def g(rel, a, b_, g0=g0):
                    if g0(rel, a, b_) is None or len(a) < 2:
                        return None
                    return True if render(fold_len_roundtrip(a[1], roundtrip)) == "len" else None
                mp = MustPass(f, lambda c: False, guard_fn=lambda bd, s_, bb, g=g: guard_edges(bd, s_, bb, g), name="host bits zero")
                ok = mp.holds(fn)
                ctx.ob("R-GRD", "%s:host-bits-zero" % short(fn), ok,
                       "%s succeeds only if the host bits are zero" % short(fn), where=b.loc,
                       detail=None if ok else K.why(f, mp, fn))
    # Prefix::new / new_relaxed dispatch on the family
    for fn, suffix in ((P + "::new", ""), (P + "::new_relaxed", "_relaxed")):
        b = f.body(fn)
        if b is None:
            ctx.missing("R-FLOW", short(fn), fn)
            continue
        sy = K.sym_of(b)
        vals = sorted({K.alpha(render(rewrap(x)), b) for _, _, t in success_values(b) for x in expand_vars(t, sy)})
        want = sorted(["Prefix::new_v4%s(%%1↓V4.0, %%2)" % suffix, "Prefix::new_v6%s(%%1↓V6.0, %%2)" % suffix])
        ctx.ob("R-FLOW", "%s:dispatch" % short(fn), vals == want, "%s delegates to the constructor of the address's family" % short(fn),
               where=b.loc, detail=vals)

    # ---- MaxLenPrefix -------------------------------------------------------------
    M = A + "MaxLenPrefix"
    pfx = lambda fn_: (f.body(fn_).local_name(1) if f.body(fn_) is not None else None) or "prefix"
    opt_ = lambda fn_: (f.body(fn_).local_name(2) if f.body(fn_) is not None else None) or "max_len"
    # the value returned, taken apart by type and field: Ok(MaxLenPrefix { prefix: <1st argument>, max_len: <2nd> })
    ok_maxlen = lambda p, it: maxlen_parts(p, it) in [("Ok", pfx(M + "::new"), x) for x in ("Some", "Some(m)", opt_(M + "::new"))]
    ok_maxlen_none = lambda p, it: maxlen_parts(p, it) in [("Ok", pfx(M + "::new"), x) for x in ("None", opt_(M + "::new"))]
    res = family_table(ctx, f, M + "::new", [
        ("v4, m>32", "v4", RC("m", 33, 255), "Err(Overflow)", "Err(Overflow)"),
        ("v6, m>128", "v6", RC("m", 129, 255), "Err(Overflow)", "Err(Overflow)"),
        ("v4, m≤32, pl>m", "v4", RC("m", 0, 32) + RC(("pl", "m"), 1, None), "Err(Underflow)", "Err(Underflow)"),
        ("v6, m≤128, pl>m", "v6", RC("m", 0, 128) + RC(("pl", "m"), 1, None), "Err(Underflow)", "Err(Underflow)"),
        ("v4, pl≤m≤32", "v4", RC("m", 0, 32) + RC(("pl", "m"), None, 0), ok_maxlen, "Ok(prefix, Some(m))"),
        ("v6, pl≤m≤128", "v6", RC("m", 0, 128) + RC(("pl", "m"), None, 0), ok_maxlen, "Ok(prefix, Some(m))"),
    ])
    paths, it, err = res if res else (None, None, "anchor missing")
    if paths is not None:
        b = f.body(M + "::new")
        opt = b.local_name(2) or "max_len"
        nonep = [p for p in paths if ("%s is None" % opt, True) in p.conds]
        ctx.ob("R-REG", "MaxLenPrefix::new:None", bool(nonep) and all(ok_maxlen_none(p, it) for p in nonep),
               "without a max length the prefix is accepted as is", detail=[p.describe() for p in nonep])
        # the stored values are the arguments themselves (`Some(m)` of the `m` taken out of the argument is the argument)
        vals = sorted({K.alpha(render(same_option(peel_try(strip_deep(t)))), b) for _, _, t in success_values(b)})
        ctx.ob("R-FLOW", "MaxLenPrefix::new:stores-arguments", vals == ["result::Result::Ok{0: addr::MaxLenPrefix::MaxLenPrefix{prefix: %1, max_len: %2}}"],
               "MaxLenPrefix::new stores exactly (prefix, max_len)", where=b.loc, detail=vals)
    def sat(what):
        """The path returns MaxLenPrefix { prefix: <1st argument>, max_len: Some(<what>) } — <what> by its value on the path."""
        def pred(p, it):
            if maxlen_parts(p, it) == ("", pfx(M + "::saturating_new"), "Some(%s)" % what):
                return True
            parts = maxlen_parts(p, it)
            ml = p.outcome[1].fields.get("max_len") if parts and parts[:2] == ("", pfx(M + "::saturating_new")) else None
            return ml is not None and ml.k == "variant" and ml.vname == "Some" and same_on_path(p, it, (ml.fields or {}).get(0), what)
        return pred
    # the type invariant of Prefix (v4 ⇒ len ≤ 32, v6 ⇒ len ≤ 128), where this run has established it: the encoding byte
    # is built only by the two checked constructors and decodes to the length given
    prefix_inv = roundtrip if fl_sites_ok and ROWS.get("FamilyAndLen::new_v4:len>32") and ROWS.get("FamilyAndLen::new_v6:len>128") else ()
    family_table(ctx, f, M + "::saturating_new", [
        ("pl>m", None, RC(("pl", "m"), 1, None), sat("pl"), "Some(prefix.len())"),
        ("v4, pl≤m, m>32", "v4", RC("m", 33, 255) + RC(("pl", "m"), None, 0), sat("32"), "Some(32)"),
        ("v6, pl≤m, m>128", "v6", RC("m", 129, 255) + RC(("pl", "m"), None, 0), sat("128"), "Some(128)"),
        ("v4, pl≤m≤32", "v4", RC("m", 0, 32) + RC(("pl", "m"), None, 0), sat("m"), "Some(m)"),
        ("v6, pl≤m≤128", "v6", RC("m", 0, 128) + RC(("pl", "m"), None, 0), sat("m"), "Some(m)"),
    ], invariant=prefix_inv)
    sites = [x for x in aggregates_of(f, M) if not is_derived(x[0])]
    fns = sorted({root_fn(f, x[0].name) for x in sites})
    allowed = {M + "::new", M + "::saturating_new", "<%s as std::convert::From<%s>>::from" % (M, P)}
    extra = [n for n in fns if n not in allowed and "arbitrary" not in n.lower()]
    ctx.ob("R-WHO", "MaxLenPrefix-literal-sites", not extra and allowed <= set(fns),
           "MaxLenPrefix {..} is built only in new, saturating_new and From<Prefix> (max_len: None)", detail=fns)
    # no derived (unchecked) Arbitrary for the invariant-carrying types
    for adt_name in (M, "resources::asn::SmallAsnSet"):
        der = [i for i in f.impls if i.get("adt") == adt_name and (i.get("trait") or "").endswith("arbitrary::Arbitrary") and i["derived"]]
        ctx.ob("R-WHO", "%s:no-derived-Arbitrary" % short(adt_name), not der,
               "%s has no derived Arbitrary impl (a derive builds values without the constructor's checks)" % short(adt_name),
               where=der[0]["loc"] if der else None)
    fb = f.body("<%s as std::convert::From<%s>>::from" % (M, P))
    if fb is not None:
        vals = [render(t) for _, _, t in success_values(fb)]
        ctx.ob("R-FLOW", "MaxLenPrefix::from(Prefix)", vals == ["addr::MaxLenPrefix::MaxLenPrefix{prefix: prefix, max_len: option::Option::None{}}"],
               "From<Prefix> stores no max length", where=fb.loc, detail=vals)

    # ---- C13.b SmallAsnSet ---------------------------------------------------------
    S = "resources::asn::SmallAsnSet"
    sites = [x for x in aggregates_of(f, S) if not is_derived(x[0])]
    fns = sorted({root_fn(f, x[0].name) for x in sites})
    fi = "<%s as std::iter::FromIterator<resources::asn::Asn>>::from_iter" % S
    allowed = {S + "::from_vec_unchecked", fi}
    extra = [n for n in fns if n not in allowed and "arbitrary" not in n.lower()]
    ctx.ob("R-WHO", "SmallAsnSet-literal-sites", not extra and allowed <= set(fns),
           "SmallAsnSet(..) is built only in the unsafe from_vec_unchecked and in FromIterator", detail=fns)
    b = f.body(fi)
    if b is None:
        ctx.missing("R-CHK", "SmallAsnSet::from_iter", fi)
    else:
        ctx.saw_fn(fi)
        # the vector that ends up in the returned set, as a mutable object (local + field path): `res.0` of a set
        # built first and normalised in place, or a local vector normalised first and wrapped last
        vec_keys = set()
        fs = FlowSym(b)
        for rb in b.return_blocks():
            rt = strip_deep(fs.at(rb, "term").local(0))
            inner = rt
            while inner[0] == "mvar":
                inner = strip_deep(inner[3])
            if rt[0] == "agg" and rt[1] == S and len(rt[3]) == 1:
                vec_keys.add(object_key(rt[3][0][1]))
            elif inner[0] == "agg" and inner[1] == S and len(inner[3]) == 1:
                k0 = object_key(rt)
                vec_keys.add(k0 + (".0",) if k0 else None)
            else:
                vec_keys.add(None)
        vec_key = next(iter(vec_keys)) if len(vec_keys) == 1 else None
        # … or a vector collected from an ordered set: a BTreeSet iterates in ascending order without duplicates
        from_ordered_set = bool(b.return_blocks())
        for rb in b.return_blocks():
            rt = strip_deep(fs.at(rb, "term").local(0))
            vt = strip_deep(rt[3][0][1]) if rt[0] == "agg" and rt[1] == S and len(rt[3]) == 1 else ("unknown",)
            ordered = False
            while vt[0] == "call" and (vt[3] or {}).get("name") in ("collect", "from_iter", "into_iter", "iter", "into", "from", "cloned", "copied") \
                    and len(vt[2]) == 1:
                ga = " ".join(str(x) for x in ((vt[3] or {}).get("ga") or ())) + " " + str((vt[3] or {}).get("res") or "")
                if re.search(r"\bstd::collections::(BTreeSet<|btree_set::)", ga):
                    ordered = True          # the vector is (collected from) the iteration of a BTreeSet
                    break
                vt = strip_deep(vt[2][0])
            if not ordered:
                from_ordered_set = False
        for what, rx in (("sort", r"^(sort|sort_unstable|sort_by|sort_unstable_by|sort_by_key)$"), ("dedup", r"^(dedup|dedup_by|dedup_by_key)$")):
            def sink(c, rx=rx):
                if not re.match(rx, c.name or "") or not c.args:
                    return False
                return vec_key is not None and object_key(K.arg_terms(c)[0]) == vec_key
            # from_iter returns the set itself: treat every return as success, calls are effects (always "checked")
            blocks = {c.bb for c in b.calls() if c.is_static and sink(c)}
            reach = b.reachable(0, removed_blocks=blocks)
            ok = (bool(blocks) and not [r for r in b.return_blocks() if r in reach]) or from_ordered_set
            ctx.ob("R-CHK", "SmallAsnSet::from_iter→%s" % what, ok,
                   "FromIterator %ss the collected vector on every path before returning it" % what, where=b.loc)
        # order: dedup after sort
        sb = [c.bb for c in b.calls() if re.match(r"^sort", c.name or "")]
        db = [c.bb for c in b.calls() if re.match(r"^dedup", c.name or "")]
        if from_ordered_set:
            ctx.ob("R-CHK", "SmallAsnSet::from_iter:dedup-after-sort", True,
                   "the vector is collected from a BTreeSet (ascending, duplicate-free by std's contract)", where=b.loc)
        elif sb and db:
            ctx.ob("R-CHK", "SmallAsnSet::from_iter:dedup-after-sort", all(d in b.reachable(s_) for s_ in sb for d in db) and
                   not any(s_ in b.reachable(d) for s_ in sb for d in db),
                   "duplicates are removed after sorting (dedup only removes adjacent equals)", where=b.loc)
    uns = calls_to(f, lambda c: c.res == S + "::from_vec_unchecked")
    callers = sorted({root_fn(f, c.body.name) for c in uns})
    ctx.ob("R-WHO", "SmallAsnSet::from_vec_unchecked-callers", callers == ["repository::aspa::ProviderAsSet::to_set"],
           "the unsafe constructor is called only from ProviderAsSet::to_set (whose input the decoder checked)", detail=callers)
    check_provider_set_decoder(ctx, f)

    # ---- C13.c Eq / Ord / Hash projections ---------------------------------------------
    RO = "rtr::payload::RouteOrigin"
    projs = {}
    impl_of = {}
    for tr, meth in (("std::cmp::PartialEq", "eq"), ("std::cmp::Ord", "cmp"), ("std::hash::Hash", "hash")):
        impl_of["<%s as %s>::%s" % (RO, tr, meth)] = meth
    impl_of["<%s as std::cmp::PartialOrd>::partial_cmp" % RO] = "cmp"        # shown below to be Some(cmp)
    for tr, meth in (("std::cmp::PartialEq", "eq"), ("std::cmp::Ord", "cmp"), ("std::hash::Hash", "hash")):
        b = f.body("<%s as %s>::%s" % (RO, tr, meth))
        if b is None:
            ctx.missing("R-SIB", "RouteOrigin::" + meth, "%s for RouteOrigin" % tr)
            continue
        ctx.saw_fn(b.name)
        got = set()
        for ops in compared_operands(f, b):
            if len(ops) == 1 and ops[0].startswith("@"):
                got.add("@" + impl_of.get(ops[0][1:], "?" + ops[0][1:]))
                continue
            if meth == "hash":
                ops = [a for a in ops if a != "%2"]          # the hasher itself
            sides, whose = set(), []
            for a in ops:
                m = re.match(r"^(MaxLenPrefix::prefix|MaxLenPrefix::resolved_max_len)\((self|%2)\.prefix\)$", a) \
                    or re.match(r"^()(self|%2)\.asn$", a)
                if m:
                    got.add(a.replace("%2", "self"))
                    sides.add(a.replace("%2", "self"))
                    whose.append(m.group(2))
                else:
                    got.add("?" + a)
            # a comparison step sets a projection of self against the same projection of the other value
            if len(sides) > 1 or (meth != "hash" and sides and sorted(whose) != sorted(["self", "%2"] * (len(whose) // 2))):
                got.add("?compares %s" % " with ".join(sorted(ops)))
        projs[meth] = got
    want = {"MaxLenPrefix::prefix(self.prefix)", "MaxLenPrefix::resolved_max_len(self.prefix)", "self.asn"}
    for _ in range(3):                      # an impl that hands the whole value to a sibling impl looks at what that one looks at
        for meth, got in projs.items():
            for g in [g for g in got if g.startswith("@") and g[1:] in projs and g[1:] != meth]:
                got.discard(g)
                got |= projs[g[1:]]
    for meth, got in projs.items():
        ctx.ob("R-SIB", "RouteOrigin::%s:projections" % meth, got == want,
               "RouteOrigin::%s looks at exactly prefix, effective max length and AS number" % meth, detail=sorted(got))
    pr = f.body("<%s as std::cmp::PartialOrd>::partial_cmp" % RO)
    if pr is not None:
        vals = [render(t) for _, _, t in success_values(pr)]
        ctx.ob("R-SIB", "RouteOrigin::partial_cmp=Some(cmp)", vals == ["option::Option::Some{0: Ord::cmp(self, other)}"],
               "partial_cmp is Some(cmp)", detail=vals)
    # Prefix: Eq/Hash derived over both fields; Ord hand-written reads both
    der = {i.get("trait"): i["derived"] for i in f.impls if i.get("adt") == P}
    ctx.ob("R-SIB", "Prefix:Eq+Hash-derived", der.get("std::cmp::PartialEq") is True and der.get("std::hash::Hash") is True,
           "Prefix derives PartialEq and Hash (both fields)", detail={k: v for k, v in der.items() if k and "cmp" in k or k and "hash" in k})
    ob = f.body("<%s as std::cmp::Ord>::cmp" % P)
    if ob is None:
        ctx.missing("R-SIB", "Prefix::cmp", "Ord for Prefix")
    else:
        s = K.sym_of(ob)
        txt = " ".join(" ".join(K.arg_renders(c)) for c in ob.calls() if not ob.is_cleanup(c.bb) and c.is_static)
        alltxt = txt
        for bi, blk in enumerate(ob.blocks):
            for st in blk["stmts"]:
                if st["s"] == "assign":
                    alltxt += " " + render(s.rvalue(st["rv"]))
        ok = "family_and_len" in alltxt or "Prefix::len(" in alltxt or "is_v4" in alltxt
        ok = ok and ("self.bits" in alltxt)
        ctx.ob("R-SIB", "Prefix::cmp:reads-both-fields", ok, "Prefix::cmp consults family/length and bits", where=ob.loc)

    # ---- C13.d text forms go through the checked constructors --------------------------
    for fn, ctor in (("<%s as std::str::FromStr>::from_str" % P, P + "::new"), (P + "::from_str_relaxed", P + "::new_relaxed"),
                     ("<%s as std::str::FromStr>::from_str" % M, M + "::new")):
        b = f.body(fn)
        if b is None:
            ctx.missing("R-CHK", short(fn), fn)
            continue
        ctx.saw_fn(fn)
        mp = MustPass(f, lambda c, ctor=ctor: c.res == ctor, name=short(ctor))
        ok = mp.holds(fn)
        ctx.ob("R-CHK", "%s→%s" % (short(fn), short(ctor)), ok, "%s builds its value through %s" % (short(fn), short(ctor)),
               where=b.loc, detail=None if ok else K.why(f, mp, fn))

    check_merge_iterators(ctx, f)
    check_covers_family(ctx, f)
    check_covers_inclusion(ctx, f)
    masks_decided = check_bits_masks(ctx, f) or set()
    check_family_byte_values(ctx, f)

    # ---- C13.e shift sites ---------------------------------------------------------------
    shifts = []
    for n, b in f.bodies.items():
        if not b.file.endswith("resources/addr.rs") or is_derived(b) or "arbitrary" in n.lower():
            continue
        for bi, blk in enumerate(b.blocks):
            for st in blk["stmts"]:
                if st["s"] == "assign" and st["rv"]["r"] == "bin" and st["rv"]["bop"] in ("Shl", "Shr") \
                        and st["rv"].get("oty") == "u128":
                    shifts.append(root_fn(f, n))
    got = sorted(set(shifts))
    want = sorted([A + "Bits::clear_host", A + "Bits::from_v4", A + "Bits::into_max", A + "Bits::into_v4",
                   A + "Prefix::covers", "<%sPrefix as std::cmp::Ord>::cmp" % A])
    # a reviewed function that no longer shifts (it went over to checked_shl, say) cannot overflow a shift: only a *new*
    # shifting function is a new way to panic; at least half of the reviewed ones must still be seen (the rule is alive)
    ctx.ob("R-PANIC", "addr.rs:u128-shift-sites", set(got) <= set(want) and len(got) * 2 >= len(want),
           "the functions that shift 128-bit values are among the reviewed ones (clear_host/into_max guard len 0/≥128; "
           "covers/cmp return before a shift by 128; from_v4/into_v4 shift by the constant 96)", detail={"found": got, "reviewed": want})
    for fn, rows in ((A + "Bits::clear_host", [("len=0", RC("len", 0, 0), ret_is("addr::Bits{0: 0}"), "Bits(0)")]),
                     (A + "Bits::into_max", [("prefix_len≥128", RC("prefix_len", 128, 255), ret_is("self"), "self unchanged")])):
        # these two rows spell the edge case as a literal outcome; where the function was decided bit by bit for every
        # length (check_bits_masks) that verdict stands — `bits & !(MAX >> 0)` is as good a zero as `Bits(0)`
        if fn not in masks_decided:
            table(ctx, f, fn, rows)
    for fn in (A + "Bits::clear_host", A + "Bits::into_max"):
        if fn in masks_decided:
            continue
        paths, it, err = K.run_absint(f, fn)
        if paths is not None:
            pan = [p for p in paths if p.outcome[0] != "return"]
            ctx.ob("R-PANIC", "%s:no-shift-overflow" % short(fn), not pan,
                   "no feasible shift-overflow / arithmetic panic in %s for any (bits, len)" % short(fn),
                   detail=[p.describe() for p in pan] or None)


_ORD_CODE = {"Less": 255, "Equal": 0, "Greater": 1}


class _Unknown:
    """A payload whose value the comparison logic does not model (`()`, an error text, …): it can be carried around
    inside Some / Ok / Err, but nothing can be decided from it."""
    def __repr__(self):
        return "?"


UNK = _Unknown()


class Res:
    """Value of a `Result` under an assignment: which variant, and its payload."""
    __slots__ = ("ok", "v")

    def __init__(self, ok, v):
        self.ok, self.v = bool(ok), v

    def __eq__(self, other):
        return isinstance(other, Res) and (self.ok, self.v) == (other.ok, other.v)

    def __hash__(self):
        return hash((self.ok, self.v if not isinstance(self.v, _Unknown) else "?"))

    def __repr__(self):
        return "%s(%r)" % ("Ok" if self.ok else "Err", self.v)


class Enum:
    """Value of a crate-defined enum under an assignment (a private "state of the heads" / "what to do" enum a function
    hands from its deciding half to its acting half): which variant (by declaration index and name), and its payloads."""
    __slots__ = ("adt", "idx", "name", "fields")

    def __init__(self, adt, idx, name, fields):
        self.adt, self.idx, self.name, self.fields = adt, idx, name, tuple(fields)

    def _key(self):
        return (self.adt, self.idx, tuple("?" if isinstance(x, _Unknown) else x for x in self.fields))

    def __eq__(self, other):
        return isinstance(other, Enum) and self._key() == other._key()

    def __hash__(self):
        return hash(self._key())

    def __repr__(self):
        return "%s(%s)" % (self.name, ", ".join(repr(x) for x in self.fields))


def enum_value(facts, adt, variant, payloads):
    """The Enum for a literal `adt::variant(payloads…)`, when the discriminant MIR reads off such a value is known to be
    the declaration index: an enum of this crate with at least one variant carrying data and no `repr` integer type
    (explicit discriminants are not allowed there).  None otherwise (not read, never guessed)."""
    rec = (getattr(facts, "adts", None) or {}).get(adt) if facts is not None else None
    if not rec or rec.get("kind") != "Enum" or "int: None" not in (rec.get("repr") or ""):
        return None
    vs = rec.get("variants") or []
    if not any(v.get("fields") for v in vs):
        return None
    idx = [i for i, v in enumerate(vs) if v.get("name") == str(variant)]
    if len(idx) != 1 or len(vs[idx[0]].get("fields") or []) != len(payloads):
        return None
    return Enum(adt, idx[0], str(variant), payloads)


def _known(x):
    """No unknown payload anywhere inside a value."""
    if x is None or isinstance(x, _Unknown):
        return False
    if isinstance(x, Enum):
        return all(_known(y) for y in x.fields)
    if isinstance(x, tuple):
        return all(_known(y) for y in x)
    if isinstance(x, Res):
        return _known(x.v)
    return True


def _comparable(x, y):
    return _known(x) and _known(y) and type(x) is type(y) and not isinstance(x, (Res, Enum))


def _payload(x):
    return UNK if x is None else x


_STD = ("core", "std", "alloc")


def order_value(t, leaf, facts=None):
    """Value of a term built from order comparisons under a concrete assignment of its leaves, or None when it depends
    on anything else.  `leaf(term)` gives the value of a leaf (an int, or a tuple for an Option: () is None, (x,) is
    Some(x) — Python orders tuples the way Rust orders Options) or None for "not a leaf".  Comparisons by operator, by
    the PartialEq / PartialOrd / Ord methods, three-way `cmp` (as the discriminant of its Ordering: 255 / 0 / 1),
    `partial_cmp`, the `is_lt` … family, `reverse`, `then`, `then_with`, `min`/`max`, negation, Some/None/Ok/Err/Ordering
    literals, the Option / Result / bool combinators of std (by their documented contracts, closures evaluated on the
    payload) and `?` are all read; so `a.cmp(&b) == Less`, `a < b`, `!(a >= b)`, `b > a`, `a.cmp(&b).is_lt()`,
    `o.map(|a| a.cmp(&b)) == Some(Less)`, `o.is_some_and(|a| a < b)` and `o.map_or(false, |a| a < b)` have the same value."""
    t = strip_deep(peel_try(t))
    v = leaf(t)
    if v is not None:
        return v
    k = t[0]
    if k == "const" and isinstance(t[1], (bool, int)):
        return int(t[1])
    if k == "mvar":
        return order_value(t[3], leaf, facts)
    if k == "cast":
        return order_value(t[1], leaf, facts)
    if k == "un" and t[1] == "Not":
        x = order_value(t[2], leaf, facts)
        return None if not isinstance(x, int) else int(not x)
    cmpf = {"Lt": lambda x, y: x < y, "Le": lambda x, y: x <= y, "Gt": lambda x, y: x > y, "Ge": lambda x, y: x >= y,
            "Eq": lambda x, y: x == y, "Ne": lambda x, y: x != y}
    if k == "bin" and t[1] in cmpf:
        x, y = order_value(t[2], leaf, facts), order_value(t[3], leaf, facts)
        if not _comparable(x, y):
            return None
        return int(cmpf[t[1]](x, y))
    if k == "bin" and t[1] in ("BitAnd", "BitOr", "BitXor"):
        x, y = order_value(t[2], leaf, facts), order_value(t[3], leaf, facts)
        if isinstance(x, int) and isinstance(y, int) and x in (0, 1) and y in (0, 1):       # `&` / `|` / `^` of two bools
            return {"BitAnd": x & y, "BitOr": x | y, "BitXor": x ^ y}[t[1]]
        return None
    if k == "bin" and t[1] == "Cmp":
        x, y = order_value(t[2], leaf, facts), order_value(t[3], leaf, facts)
        if not _comparable(x, y):
            return None
        return 255 if x < y else (0 if x == y else 1)
    if k == "agg":
        if str(t[2]) in _ORD_CODE and str(t[1]).endswith("cmp::Ordering"):
            return _ORD_CODE[str(t[2])]
        if str(t[1]).endswith("option::Option"):
            if str(t[2]) == "None":
                return ()
            if str(t[2]) == "Some" and len(t[3]) == 1:
                return (_payload(order_value(t[3][0][1], leaf, facts)),)
        if str(t[1]).endswith("result::Result") and str(t[2]) in ("Ok", "Err") and len(t[3]) == 1:
            return Res(str(t[2]) == "Ok", _payload(order_value(t[3][0][1], leaf, facts)))
        if t[1] not in ("tuple", "array", "closure"):
            return enum_value(facts, t[1], t[2], [_payload(order_value(v, leaf, facts)) for _, v in t[3]])
        return None
    if k == "discr":
        inner = strip_deep(t[1])
        if inner[0] == "call" and (inner[3] or {}).get("name") == "branch" and ((inner[3] or {}).get("trait") or "").endswith("ops::Try") \
                and len(inner[2]) == 1:
            x = order_value(inner[2][0], leaf, facts)
            if isinstance(x, tuple):
                return 0 if len(x) == 1 else 1      # `?` on an Option: Continue iff Some
            if isinstance(x, Res):
                return 0 if x.ok else 1             # `?` on a Result: Continue iff Ok
            return None
        x = order_value(t[1], leaf, facts)
        if isinstance(x, tuple):
            return len(x)               # None = 0, Some = 1
        if isinstance(x, Res):
            return 0 if x.ok else 1     # Ok = 0, Err = 1
        if isinstance(x, Enum):
            return x.idx                # declaration index (see enum_value)
        return x if isinstance(x, int) else None
    if k == "field" and t[1][0] == "variant" and str(t[2]).isdigit():
        x0 = order_value(t[1][1], leaf, facts)
        if isinstance(x0, Enum):
            r = x0.fields[int(t[2])] if x0.name == str(t[1][2]) and int(t[2]) < len(x0.fields) else None
            return r if _known(r) else None
    if k == "field" and str(t[2]) == "0" and t[1][0] == "variant":
        x = order_value(t[1][1], leaf, facts)
        vn = str(t[1][2])
        if vn == "Some":
            r = x[0] if isinstance(x, tuple) and len(x) == 1 else None
        elif vn in ("Ok", "Err"):
            r = x.v if isinstance(x, Res) and x.ok == (vn == "Ok") else None
        else:
            r = None
        return r if _known(r) else None
    if k == "call":
        info = t[3] or {}
        name = info.get("name")
        args = [None if strip_deep(a)[0] == "closure" else order_value(a, leaf, facts) for a in t[2]]
        clos = [strip_deep(a) if strip_deep(a)[0] == "closure" else None for a in t[2]]
        std = info.get("krate") in _STD or re.search(r"\b(option::Option|result::Result|cmp::Ordering)\b|^bool::", info.get("res") or "") is not None
        call = lambda i, xs: closure_value(facts, clos[i], xs, leaf)
        if std and any(c is not None for c in clos) and args and args[0] is not None:
            # std's contracts of the combinators that take a closure: what comes out for which variant going in
            r0 = args[0]
            n = len(args)
            if isinstance(r0, tuple):
                has = len(r0) == 1
                x = [r0[0]] if has else None
                if name in ("is_some_and", "is_none_or") and n == 2 and clos[1]:
                    return int(name == "is_none_or") if not has else (call(1, x) if _known(x[0]) else None)
                if name == "map_or" and n == 3 and clos[2]:
                    return args[1] if not has else (call(2, x) if _known(x[0]) else None)
                if name == "map_or_else" and n == 3 and clos[1] and clos[2]:
                    return call(1, []) if not has else (call(2, x) if _known(x[0]) else None)
                if name == "filter" and n == 2 and clos[1]:
                    if not has:
                        return ()
                    keep = call(1, x) if _known(x[0]) else None
                    return None if not isinstance(keep, int) else (r0 if keep else ())
                if name in ("map", "inspect") and n == 2 and clos[1]:
                    if not has or name == "inspect":
                        return r0
                    return (_payload(call(1, x) if _known(x[0]) else None),)
                if name == "and_then" and n == 2 and clos[1]:
                    if not has:
                        return ()
                    r = call(1, x) if _known(x[0]) else None
                    return r if isinstance(r, tuple) else None
                if name == "or_else" and n == 2 and clos[1]:
                    if has:
                        return r0
                    r = call(1, [])
                    return r if isinstance(r, tuple) else None
                if name == "unwrap_or_else" and n == 2 and clos[1]:
                    r = x[0] if has else call(1, [])
                    return r if _known(r) else None
                if name == "ok_or_else" and n == 2 and clos[1]:
                    return Res(True, x[0]) if has else Res(False, _payload(call(1, [])))
            if isinstance(r0, Res):
                x = [r0.v]
                if name in ("map", "map_err") and n == 2 and clos[1]:
                    if r0.ok != (name == "map"):
                        return r0
                    return Res(r0.ok, _payload(call(1, x) if _known(x[0]) else None))
                if name in ("inspect", "inspect_err") and n == 2:
                    return r0
                if name in ("and_then", "or_else") and n == 2 and clos[1]:
                    if r0.ok != (name == "and_then"):
                        return r0
                    r = call(1, x) if _known(x[0]) else None
                    return r if isinstance(r, Res) else None
                if name in ("is_ok_and", "is_err_and") and n == 2 and clos[1]:
                    if r0.ok != (name == "is_ok_and"):
                        return 0
                    return call(1, x) if _known(x[0]) else None
                if name == "unwrap_or_else" and n == 2 and clos[1]:
                    r = r0.v if r0.ok else (call(1, x) if _known(x[0]) else None)
                    return r if _known(r) else None
                if name == "map_or" and n == 3 and clos[2]:
                    return args[1] if not r0.ok else (call(2, x) if _known(x[0]) else None)
            if isinstance(r0, int):
                if name == "then" and n == 2 and clos[1] and r0 in (0, 1) and (info.get("res") or "").startswith("bool::"):
                    return (_payload(call(1, [])),) if r0 else ()
                if name == "then_with" and n == 2 and clos[1] and r0 in (255, 0, 1):
                    return r0 if r0 != 0 else call(1, [])
            return None
        if any(c is not None for c in clos):
            return None
        if name in ("copied", "cloned", "as_ref", "as_deref", "as_mut", "clone", "into", "from", "borrow", "to_owned") and len(args) == 1:
            return args[0]
        if any(a is None for a in args):
            # combinators whose result does not depend on the argument that cannot be read
            if std and len(args) == 2 and isinstance(args[0], tuple) and name in ("ok_or",):
                return Res(True, args[0][0]) if args[0] else Res(False, UNK)
            if std and len(args) == 2 and isinstance(args[0], Res) and name in ("expect",) and args[0].ok:
                return args[0].v if _known(args[0].v) else None
            if std and len(args) == 2 and isinstance(args[0], tuple) and name in ("expect",) and args[0]:
                return args[0][0] if _known(args[0][0]) else None
            return None
        m2 = {"lt": "Lt", "le": "Le", "gt": "Gt", "ge": "Ge", "eq": "Eq", "ne": "Ne"}
        if name in m2 and len(args) == 2:
            return int(cmpf[m2[name]](args[0], args[1])) if _comparable(args[0], args[1]) else None
        if name in ("cmp", "partial_cmp") and len(args) == 2:
            if not _comparable(args[0], args[1]):
                return None
            c = 255 if args[0] < args[1] else (0 if args[0] == args[1] else 1)
            return c if name == "cmp" else (c,)
        if name in ("min", "max") and len(args) == 2:
            if not _comparable(args[0], args[1]):
                return None
            return min(args) if name == "min" else max(args)
        if len(args) == 1 and isinstance(args[0], int) and args[0] in (255, 0, 1):
            o = {255: -1, 0: 0, 1: 1}[args[0]]
            tests = {"is_lt": o < 0, "is_le": o <= 0, "is_gt": o > 0, "is_ge": o >= 0, "is_eq": o == 0, "is_ne": o != 0}
            if name in tests:
                return int(tests[name])
            if name == "reverse":
                return {255: 1, 0: 0, 1: 255}[args[0]]
        if name == "then" and len(args) == 2 and all(isinstance(a, int) for a in args) and args[0] in (255, 0, 1):
            return args[0] if args[0] != 0 else args[1]
        if name == "then_some" and len(args) == 2 and args[0] in (0, 1) and std:
            return (args[1],) if args[0] else ()
        if std and isinstance(args[0] if args else None, tuple):
            o = args[0]
            if len(args) == 1:
                if name == "is_some":
                    return int(len(o) == 1)
                if name == "is_none":
                    return int(len(o) == 0)
                if name in ("unwrap", "unwrap_unchecked") and o:
                    return o[0] if _known(o[0]) else None
                if name == "flatten":
                    return o[0] if o and isinstance(o[0], tuple) else (() if not o else None)
            if len(args) == 2:
                if name == "unwrap_or":
                    r = o[0] if o else args[1]
                    return r if _known(r) else None
                if name == "ok_or":
                    return Res(True, o[0]) if o else Res(False, args[1])
                if name in ("or", "and", "xor") and isinstance(args[1], tuple):
                    p = args[1]
                    return {"or": o if o else p, "and": p if o else (), "xor": (o if not p else ()) if o else p}[name]
                if name in ("is_some_and", "is_none_or", "map", "and_then", "filter"):
                    return None                 # a function item as the predicate: not read
            if len(args) == 3 and name == "map_or":
                return None
        if std and isinstance(args[0] if args else None, Res):
            r0 = args[0]
            if len(args) == 1:
                if name in ("is_ok", "is_err"):
                    return int(r0.ok == (name == "is_ok"))
                if name in ("ok", "err"):
                    return (r0.v,) if r0.ok == (name == "ok") else ()
                if name in ("unwrap", "unwrap_unchecked") and r0.ok:
                    return r0.v if _known(r0.v) else None
            if len(args) == 2 and name == "unwrap_or":
                r = r0.v if r0.ok else args[1]
                return r if _known(r) else None
    return None


def _const_of(op, env):
    """Value of an operand that is a literal, or a plain local holding one on the path walked so far."""
    if "k" in op:
        v = op["k"].get("v")
        return int(v) if isinstance(v, (bool, int)) else None
    pl = op.get("c") or op.get("m")
    if pl is not None and not pl["p"]:
        return env.get(pl["l"])
    return None


def _path_place(pl, env, sym):
    """("t", term) of a place — a local, or a field / variant payload of it — whose local holds a value computed on the
    path walked so far; None when the path has not set it."""
    if pl is None or sym is None:
        return None
    held = env.get(pl["l"])
    if not isinstance(held, tuple):
        return None
    if any(p[0] not in ("d", "f", "dc") for p in pl["p"]):
        return None
    return ("t", sym._project(held[1], pl["p"], 0))


def cond_term(sym, d):
    """The term a recorded branch tested: the discriminant operand, or the value a flag local was given on the path."""
    return d if isinstance(d, tuple) else sym.operand(d)


def _flags_after(stmts, env, sym=None):
    """Flags set on a path (`let ok = match … { … => true, … }` … `if ok`, what `matches!` and `&&` leave behind): the
    constants held by plain locals after the statements, given those held before."""
    for st in stmts:
        if st["s"] == "assign" and st["rv"]["r"] in ("ref", "rawptr") and st["rv"]["pl"]["l"] in env:
            env = dict(env)
            env.pop(st["rv"]["pl"]["l"], None)      # borrowed: may change behind our back
        if st["s"] == "assign" and not st["pl"]["p"]:
            v = _const_of(st["rv"]["op"], env) if st["rv"]["r"] == "use" else None
            if v is None and st["rv"]["r"] == "use":
                v = _path_place(st["rv"]["op"].get("c") or st["rv"]["op"].get("m"), env, sym)      # a part of such a value
            if v is None and st["rv"]["r"] == "discr":
                # the discriminant of a selector the path has set (`let order = match … { … => Less, … => a.cmp(b) }` …
                # `match order`), or of a part of it: the discriminant of the value it was given on this path
                pv = _path_place(st["rv"]["pl"], env, sym)
                v = ("t", ("discr", pv[1])) if pv is not None else None
            if v is None and sym is not None and st["pl"]["l"] in sym._multi and st["pl"]["l"] > sym.body.arg_count:
                # a flag / selector of any type (bool, Ordering, Option, a private enum) computed on this path: a later
                # branch on it tests the value it was given here
                v = ("t", sym.rvalue(st["rv"]))
            if v is not None or st["pl"]["l"] in env:
                env = dict(env)
                env.pop(st["pl"]["l"], None)
                if v is not None:
                    env[st["pl"]["l"]] = v
        elif st["s"] in ("assign", "setdiscr") and st["pl"]["l"] in env:
            env = dict(env)
            env.pop(st["pl"]["l"], None)
    return env


def iteration_paths(b, starts, stops, on_stmt=None, max_paths=4000, revisit_again=False, sym=None):
    """Acyclic paths of one loop iteration: from the blocks `starts` until a block of `stops` is entered again
    ("again"), the function returns ("return", block) or nothing follows.  -> [(kind, block, conds, notes, blocks)] with
    conds = [(discriminant operand, block, value taken | None, values not taken)] in path order; `on_stmt(bb, si, st,
    notes, conds)` may record things about the statements / calls passed (si = "term" for the call terminator).
    A branch on a flag local whose value the path itself has set is followed along that value only."""
    out = []
    stack = [(s0, [], [], frozenset(), {}) for s0 in starts]
    while stack:
        bb, conds, notes, seen, env = stack.pop()
        if bb in stops:
            out.append(("again", bb, conds, notes, seen))
            continue
        if bb in seen and revisit_again:
            out.append(("again", bb, conds, notes, seen))
            continue
        if bb in seen or b.is_cleanup(bb):
            continue
        seen = seen | {bb}
        if len(out) > max_paths:
            return None
        blk = b.blocks[bb]
        if on_stmt is not None:
            notes = list(notes)
            for si, st in enumerate(blk["stmts"]):
                on_stmt(bb, si, st, notes, conds)
        env = _flags_after(blk["stmts"], env, sym)
        t = blk["term"]
        k = t["t"]
        if k == "return":
            out.append(("return", bb, conds, notes, seen))
        elif k in ("goto", "drop", "assert"):
            stack.append((t["target"], conds, notes, seen, env))
        elif k == "call":
            if on_stmt is not None:
                on_stmt(bb, "term", t, notes, conds)
            dl = t["dest"]["l"]
            if dl in env or (sym is not None and not t["dest"]["p"] and dl in sym._multi):
                env = dict(env)
                env.pop(dl, None)
                if sym is not None and not t["dest"]["p"] and dl in sym._multi and dl > sym.body.arg_count:
                    env[dl] = ("t", sym.call(t, bb))
            if t.get("target") is not None:
                stack.append((t["target"], conds, notes, seen, env))
        elif k == "switch":
            known = _const_of(t["discr"], env)
            d = t["discr"]
            if isinstance(known, tuple):
                d, known = known[1], None
            if known is not None:
                tgt = [tb for v, tb in t["targets"] if v == known]
                stack.append((tgt[0] if tgt else t["otherwise"], conds, notes, seen, env))
                continue
            listed = [v for v, _ in t["targets"]]
            for v, tb in t["targets"]:
                stack.append((tb, conds + [(d, bb, v, [])], notes, seen, env))
            stack.append((t["otherwise"], conds + [(d, bb, None, listed)], notes, seen, env))
    return out


def closure_value(facts, ct, args, outer_leaf):
    """Value of calling the closure term `ct` = ('closure', def, captures) on the values `args`, when its body is a
    loop-free combination of order comparisons of its parameters and captures (captures are valued in the caller)."""
    cb = facts.body(ct[1]) if facts is not None else None
    if cb is None:
        return None
    sy = K.sym_of(cb)
    caps = {}
    for name, pl in cb.rec.get("upvars", []):
        for pe in pl.get("p", []):
            if pe and pe[0] == "f":
                try:
                    caps[name] = ct[2][int(pe[1])]
                except (TypeError, ValueError, IndexError):
                    pass
                break
    params = {(cb.local_name(i + 2) or "_%d" % (i + 2)): a for i, a in enumerate(args) if cb.arg_count >= i + 2}

    def leaf(t):
        if t[0] == "param" and t[1] in params:
            return params[t[1]]
        if t[0] == "upvar" and t[1] in caps:
            return order_value(caps[t[1]], outer_leaf, facts)
        return None

    def on_stmt(bb, si, st, notes, conds):
        if si == "term":
            if st["dest"]["l"] == 0 and not st["dest"]["p"]:
                notes.append(("ret", sy.call(st, bb)))
        elif st["s"] == "assign" and st["pl"]["l"] == 0 and not st["pl"]["p"]:
            notes.append(("ret", sy.rvalue(st["rv"])))
    got = set()
    ips = iteration_paths(cb, [0], (), on_stmt, sym=sy)
    if not ips:
        return None
    for kind, end, conds, notes, blocks in ips:
        feasible = True
        for d, _, v, nots in conds:
            val = order_value(cond_term(sy, d), leaf, facts)
            if not isinstance(val, int):
                return None
            if (v is not None and val != v) or (v is None and val in nots):
                feasible = False
                break
        if feasible:
            rets = [t for k_, t in notes if k_ == "ret"]
            if not rets:
                return None
            got.add(order_value(rets[-1], leaf, facts))
    return next(iter(got)) if len(got) == 1 else None


def check_provider_set_decoder(ctx, f):
    """ProviderAsSet::take_from: the captured list is strictly ascending (justifies to_set's unsafe call).

    The fact: in the loop that reads the provider ASNs, an iteration that has read an element E goes on (reads the next
    one, or ends the decoder successfully) only if E is greater than the element read by the previous iteration, and
    leaves E behind as "the previous element".  It is decided on the paths of one iteration: every comparison on a path
    — operator, method, three-way `cmp`, of the elements or of the options holding them, in whichever operand order —
    is evaluated on every relative order of (previous, E); a path that can be taken when previous ≥ E is the alarm."""
    root = "repository::aspa::ProviderAsSet::take_from"
    is_read = lambda c: (c.res or "").endswith("Asn::take_opt_from")
    cand = [b for n, b in f.bodies.items() if (n == root or n.startswith(root + "::")) and any(is_read(c) for c in b.calls() if not b.is_cleanup(c.bb))]
    if len(cand) != 1:
        return ctx.missing("R-GRD", "ProviderAsSet::take_from loop", "closure calling Asn::take_opt_from")
    b = cand[0]
    ctx.saw_fn(b.name)
    oc = outcome(b)
    sym = oc.sym
    reads = {c.bb for c in b.calls() if is_read(c) and not b.is_cleanup(c.bb)}
    # the element: the payload of the option inside the read's Ok value (`?`, `match`, `map_err(..)?` all give this term)
    E_RX = re.compile(r"^(?:[\w:<>]+\()*Asn::take_opt_from\([^$]*\)[^$↓]*↓Ok\.0↓Some\.0$")

    def is_elem(t):
        return bool(E_RX.match(render(strip_deep(peel_try(t)))))

    def prev_local(t):
        """The local an option-valued term stands for when it is a multiply assigned (loop-carried) local."""
        t = strip_deep(t)
        while t[0] == "mvar":
            inner = strip_deep(t[3])
            if inner[0] in ("var", "mvar"):
                t = inner
            else:
                return t[2]
        return t[2] if t[0] == "var" else None

    # candidates for "the previous element": option locals assigned Some(E) inside the iteration
    carried = {}
    for l, ds in sym._defs.items():
        vals = [strip_deep(v) for _, v in sym.defs_of_var(l)]
        somes = [v for v in vals if v[0] == "agg" and str(v[2]) == "Some" and len(v[3]) == 1 and is_elem(v[3][0][1])]
        if somes and l > b.arg_count and l in sym._multi:
            others = [render(v) for v in vals if v not in somes and not (v[0] == "agg" and str(v[2]) == "None")]
            carried[l] = others
    detail = {"loop": b.name, "previous-element locals": {b.local_name(l) or "_%d" % l: o for l, o in carried.items()}}
    prevs = [l for l, o in carried.items() if not o]
    found = len(prevs) == 1
    ok = False
    if found:
        P = prevs[0]

        def on_stmt(bb, si, st, notes, conds):
            if si != "term" and st["s"] == "assign" and st["pl"]["l"] == P:
                v = strip_deep(sym.rvalue(st["rv"])) if not st["pl"]["p"] else ("unknown", "partial")
                if v[0] == "agg" and str(v[2]) == "Some" and len(v[3]) == 1 and is_elem(v[3][0][1]):
                    notes.append(("update", len(conds)))
                else:
                    notes.append(("clobber", len(conds)))

        starts = [b.blocks[r]["term"]["target"] for r in reads if b.blocks[r]["term"].get("target") is not None]
        paths = iteration_paths(b, starts, reads, on_stmt, sym=sym)
        reach = oc.success_reach()
        bad = []
        n_cont = 0
        for kind, end, conds, notes, blocks in paths or []:
            if blocks & oc.fail_blocks or (kind == "return" and end not in reach):
                continue                                    # the decoder fails: nothing is accepted
            # an iteration without an element (the read said "no more"): not a step past an element
            def no_elem(c):
                d, _, v, nots = c
                t = strip_deep(peel_try(cond_term(sym, d)))
                return t[0] == "discr" and is_elem(("field", ("variant", t[1], "Some"), "0", None)) and (v == 0 or (v is None and 1 in nots))
            if any(no_elem(c) for c in conds):
                continue
            n_cont += 1
            upd = [i for kind_, i in notes if kind_ == "update"]
            clob = [i for kind_, i in notes if kind_ == "clobber"]
            for some in (False, True):
                for pv, ev in ((0, 1), (1, 1), (1, 0)):
                    if not some and (pv, ev) != (0, 1):
                        continue

                    def leaf(t, some=some, pv=pv, ev=ev):
                        if is_elem(t):
                            return ev
                        if prev_local(t) == P:
                            return (pv,) if some else ()
                        return None
                    feasible = True
                    uses_prev_after_update = False
                    for i, (d, bb_, v, nots) in enumerate(conds):
                        term = cond_term(sym, d)
                        if upd and i >= min(upd) and any(prev_local(x) == P for x in walk(strip_deep(term))):
                            uses_prev_after_update = True
                        val = order_value(term, leaf, f)
                        if val is None or not isinstance(val, int):
                            continue                        # a test of something else: may go either way
                        if (v is not None and val != v) or (v is None and val in nots):
                            feasible = False
                            break
                    if not feasible:
                        continue
                    why = None
                    if some and not pv < ev:
                        why = "goes on although previous %s element" % ("=" if pv == ev else ">")
                    elif not upd or clob:
                        why = "goes on without leaving the element behind as the previous one"
                    elif uses_prev_after_update:
                        why = "compares after the previous element has been overwritten"
                    if why:
                        bad.append({"why": why, "previous": "Some" if some else "None", "ends": "%s bb%d" % (kind, end),
                                    "tests": [render(strip_deep(cond_term(sym, d)))[:100] + "=%s" % (v if v is not None else "not %s" % nots) for d, _, v, nots in conds][-6:]})
        ok = n_cont > 0 and not bad and paths is not None
        detail.update({"iteration paths that go on": n_cont, "counterexamples": bad[:3]})
    ctx.ob("R-GRD", "ProviderAsSet::take_from:strictly-ascending", found and ok,
           "the decoder continues past a provider AS only if the previous one is strictly smaller (so the captured "
           "list is sorted and duplicate-free)", where=b.loc, detail=detail)
    tb = f.body("repository::aspa::ProviderAsSet::to_set")
    if tb is not None:
        cs = [c for c in tb.calls() if (c.res or "").endswith("from_vec_unchecked")]
        ok = len(cs) == 1 and re.search(r"ProviderAsSet::iter\(self\)|^Iterator::collect\(self\)", K.arg_renders(cs[0])[0]) is not None
        ctx.ob("R-FLOW", "ProviderAsSet::to_set:input", ok, "to_set feeds the unsafe constructor the decoded provider list itself",
               where=tb.loc, detail=K.arg_renders(cs[0]) if cs else None)


# ---------------------------------------------------------------------------------------------
# C13.f — the step tables of the four merge iterators over sorted AS-number sets

MERGE_SPEC = {
    # (left head, right head, order of the heads) -> what one step does
    "SmallSetUnion": {("N", "N", "-"): "end", ("S", "N", "-"): "yield L", ("N", "S", "-"): "yield R",
                      ("S", "S", "<"): "yield L", ("S", "S", "="): "drop one, yield the other", ("S", "S", ">"): "yield R"},
    "SmallSetIntersection": {("N", "N", "-"): "end", ("S", "N", "-"): "end", ("N", "S", "-"): "end",
                             ("S", "S", "<"): "skip L", ("S", "S", "="): "drop one, yield the other", ("S", "S", ">"): "skip R"},
    "SmallSetDifference": {("N", "N", "-"): "end", ("N", "S", "-"): "end", ("S", "N", "-"): "yield L",
                           ("S", "S", "<"): "yield L", ("S", "S", "="): "skip both", ("S", "S", ">"): "skip R"},
    "SmallSetSymmetricDifference": {("N", "N", "-"): "end", ("S", "N", "-"): "yield L", ("N", "S", "-"): "yield R",
                                    ("S", "S", "<"): "yield L", ("S", "S", "="): "skip both", ("S", "S", ">"): "yield R"},
}


def merge_step_table(b, facts=None):
    """{(L, R, order): set of actions} of a merge iterator's next(), decided per state.

    The paths of one step (entry → return, or → a block entered a second time = the next round of its loop) are read
    off the CFG with the tests they pass.  For each state of the specification — left head None/Some, right head
    None/Some, and for two heads their relative order — every test is *evaluated* (order_value: comparison operators,
    methods, three-way cmp in either operand order, tests of the options themselves, flags), so what matters is which
    states a path serves, not how its tests are written.  A test that looks at anything but the two peeked heads is
    reported."""
    s = K.sym_of(b)
    problems = []

    def side_of(t):
        # the two peekable sequences are the `left` / `right` fields of the iterator, directly or inside a state struct
        # the iterator wraps (`self.left`, `self.merge.left`): a field path from `self` ending in left / right
        r = K.alpha(render(strip_deep(t)), b)
        m = re.match(r"^self(?:\.\w+)*\.(left|right)$", r)
        return {"left": "L", "right": "R"}[m.group(1)] if m else r

    def on_stmt(bb, si, st, notes, conds):
        if si == "term":
            k = st["func"].get("k") if isinstance(st["func"], dict) else None
            name = (k or {}).get("name")
            call_t = render(strip_deep(s.call(st, bb)))
            if name in ("next", "next_back", "nth", "advance_by", "next_if", "next_if_eq") and st["args"]:
                notes.append(("next", side_of(s.operand(st["args"][0])), call_t))
            if st["dest"]["l"] == 0 and not st["dest"]["p"]:
                notes.append(("ret", call_t))
        elif st["s"] == "assign" and st["pl"]["l"] == 0 and not st["pl"]["p"]:
            notes.append(("ret", render(strip_deep(s.rvalue(st["rv"])))))
    paths = iteration_paths(b, [0], (), on_stmt, revisit_again=True, sym=s)
    if paths is None:
        return {}, ["too many paths"]

    def action(notes, kind):
        nexts = [(sd, txt) for k_, sd, txt in [n for n in notes if n[0] == "next"]]
        rets = [n[1] for n in notes if n[0] == "ret"]
        ret = rets[-1] if rets else None
        seq = [(sd, "ret" if (kind == "return" and txt == ret) else "") for sd, txt in nexts]
        end = "return" if kind == "return" else "continue"
        if not seq and end == "return":
            return "end"
        if len(seq) == 1 and seq[0][1] == "ret" and end == "return":
            return "yield " + seq[0][0]
        if len(seq) == 1 and seq[0][1] == "" and end == "continue":
            return "skip " + seq[0][0]
        if len(seq) == 2 and {x for x, _ in seq} == {"L", "R"} and seq[0][1] == "" and seq[1][1] == "ret" and end == "return":
            return "drop one, yield the other"
        if len(seq) == 2 and {x for x, _ in seq} == {"L", "R"} and all(r == "" for _, r in seq) and end == "continue":
            return "skip both"
        return "other: %s %s" % (seq, end)

    table = {}
    states = [(L, R, o) for L in "NS" for R in "NS" for o in (("<", "=", ">") if (L, R) == ("S", "S") else ("-",))]
    for L, R, o in states:
        lv, rv = {"<": (0, 1), "=": (1, 1), ">": (1, 0), "-": (1, 1)}[o]

        def leaf(t, L=L, R=R, lv=lv, rv=rv):
            if t[0] == "call" and (t[3] or {}).get("name") in ("peek", "peek_mut") and len(t[2]) == 1:
                sd = side_of(t[2][0])
                if sd == "L":
                    return (lv,) if L == "S" else ()
                if sd == "R":
                    return (rv,) if R == "S" else ()
            return None
        for kind, end, conds, notes, blocks in paths:
            feasible = True
            for d, bb_, v, nots in conds:
                term = cond_term(s, d)
                val = order_value(term, leaf, facts)
                if not isinstance(val, int):
                    # unreadable with both heads present: a test of something else (reported); unreadable only here: a
                    # projection of a head this state does not have, so the path belongs to another state
                    both = lambda t: leaf(t, "S", "S")
                    if not isinstance(order_value(term, both, facts), int):
                        txt = "branches on %s" % K.alpha(render(strip_deep(term)), b)[:120]
                        if txt not in problems:
                            problems.append(txt)
                        continue
                    feasible = False
                    break
                if (v is not None and val != v) or (v is None and val in nots):
                    feasible = False
                    break
            if feasible:
                table.setdefault((L, R, o), set()).add(action(notes, kind))
    return table, problems


def check_merge_iterators(ctx, f):
    n = 0
    for ty, spec in sorted(MERGE_SPEC.items()):
        name = "<resources::asn::%s<'_> as std::iter::Iterator>::next" % ty
        b = f.body(name)
        if b is None:
            ctx.missing("R-REG", ty + "::next", name)
            continue
        n += 1
        ctx.saw_fn(name)
        table, problems = merge_step_table(b, f)
        got = {k: sorted(v) for k, v in table.items()}
        want = {k: [v] for k, v in spec.items()}
        diff = {"%s/%s/%s" % k: {"function": got.get(k), "specification": want.get(k)} for k in sorted(set(got) | set(want))
                if got.get(k) != want.get(k)}
        ctx.ob("R-REG", "%s::next:step-table" % ty, not diff and not problems,
               "one step of %s does, for every combination of (left head, right head, their order), what the set operation over two "
               "ascending sequences requires" % ty, where=b.loc, detail={"differences": diff, "problems": problems[:4]})
    ctx.floor("R-REG", "merge iterators over SmallAsnSet", n, 4)


def check_covers_family(ctx, f):
    """Prefix::covers can answer anything but `false` only for two prefixes of the same address family: on every path
    that is feasible when is_v4(self) != is_v4(other), the result is the constant false."""
    from engine import orderlogic as OL
    fn = "resources::addr::Prefix::covers"
    b = f.body(fn)
    if b is None:
        return ctx.missing("R-GRD", "Prefix::covers", fn)
    ctx.saw_fn(fn)
    s = K.sym_of(b)
    try:
        ps = OL.paths(b, s)
    except OL.NotComparisonOnly as e:
        return ctx.ob("R-GRD", "Prefix::covers:same-family", False, "Prefix::covers is loop-free: %s" % e, where=b.loc)
    FAM = re.compile(r"^(?:Prefix|FamilyAndLen)::is_v([46])\((self|%2)(?:\.family_and_len)?\)$")

    class FamEnv(dict):
        """is_v4 / is_v6 of either prefix (through Prefix or its family-and-length field) under a choice of families."""
        def get(self, key, default=None):
            m = FAM.match(key or "")
            if not m:
                return default
            return int((m.group(1) == "4") == bool(self[m.group(2)]))

        def __contains__(self, key):
            return FAM.match(key or "") is not None
    bad = []
    for va, vb in ((0, 1), (1, 0)):
        env = FamEnv({"self": va, "%2": vb})
        for conds, ret in ps:
            feasible = True
            for a, truth in conds:
                neg = False
                while a[0] == "not":
                    a, neg = a[1], not neg
                v = None
                if a[0] == "cmp":
                    x, y = env.get(K.alpha(render(a[2]), b)), env.get(K.alpha(render(a[3]), b))
                    if x is not None and y is not None:
                        v = {"<": x < y, "<=": x <= y, ">": x > y, ">=": x >= y, "==": x == y, "!=": x != y}[a[1]]
                elif a[0] == "opaque":
                    k = K.alpha(a[1], b)
                    if k in env:
                        v = bool(env.get(k))
                if v is None:
                    continue            # a test on something else: may go either way
                if neg:
                    v = not v
                if v != truth:
                    feasible = False
                    break
            if feasible and not (ret is not None and OL.atom(ret) == ("const", False)):
                bad.append({"is_v4(self)": va, "is_v4(other)": vb, "returns": render(ret)[:120] if ret is not None else None})
    ctx.ob("R-GRD", "Prefix::covers:same-family", not bad,
           "Prefix::covers returns false whenever the two prefixes are of different address families (no path that is feasible "
           "then returns anything else)", where=b.loc, detail={"paths": len(ps), "counterexamples": bad[:3]})
    # a more specific prefix never covers a less specific one: on every path that is feasible when len(self) > len(other)
    # — whatever the other tests say — the result is the constant false
    LEN = re.compile(r"^(?:Prefix|FamilyAndLen)::len\((self|%2)(?:\.family_and_len)?\)$")
    lens = {"self": 2, "%2": 1}
    bad2 = []
    for conds, ret in ps:
        feasible = True
        for a, truth in conds:
            neg = False
            while a[0] == "not":
                a, neg = a[1], not neg
            v = None
            if a[0] == "cmp":
                mx, my = LEN.match(K.alpha(render(a[2]), b) or ""), LEN.match(K.alpha(render(a[3]), b) or "")
                if mx and my:
                    x, y = lens[mx.group(1)], lens[my.group(1)]
                    v = {"<": x < y, "<=": x <= y, ">": x > y, ">=": x >= y, "==": x == y, "!=": x != y}[a[1]]
            if v is None:
                continue
            if neg:
                v = not v
            if v != truth:
                feasible = False
                break
        if feasible and not (ret is not None and OL.atom(ret) == ("const", False)):
            bad2.append({"returns": render(ret)[:120] if ret is not None else None})
    ctx.ob("R-GRD", "Prefix::covers:not-more-specific", not bad2,
           "Prefix::covers returns false whenever self is longer (more specific) than other — no path that is feasible then "
           "returns anything else", where=b.loc, detail={"paths": len(ps), "counterexamples": bad2[:3]})


# ---------------------------------------------------------------------------------------------
# Prefix::covers ⇔ range inclusion, decided bit by bit (session 6)

class _CoversUnsupported(Exception):
    pass


_W = 128
_ALL = (1 << _W) - 1
_LENRX = re.compile(r"^(?:Prefix|FamilyAndLen)::len\((self|%2)(?:\.family_and_len)?\)$")
_FAMRX = re.compile(r"^(?:Prefix|FamilyAndLen)::is_v([46])\((self|%2)(?:\.family_and_len)?\)$")
_BITSRX = re.compile(r"^(?:(?:[A-Za-z_]\w*::)*[A-Za-z_]\w*\()*(self|%2)\.bits(?:\.0)?\)*$")
_PFXRX = re.compile(r"^(self|%2)$")


class _BitVec:
    """A 128-bit value whose every bit is an affine form over GF(2) in the address bits of the two prefixes: bit k
    (k = 0 is the most significant) is an int whose binary digits select s_0..s_127 (digits 0..127), o_0..o_127 (digits
    128..255) and the constant 1 (digit 256).  A concrete number is a vector of constant forms."""
    ONE = 1 << 256

    def __init__(self, bits):
        self.bits = bits

    @classmethod
    def const(cls, v):
        v &= _ALL
        return cls([cls.ONE if (v >> (_W - 1 - k)) & 1 else 0 for k in range(_W)])

    @classmethod
    def address(cls, which, length):
        base = 0 if which == "self" else 128
        # invariant of Prefix (established by its constructors, C13 R-WHO / host-bits guards): bits beyond len are zero
        return cls([(1 << (base + k)) if k < length else 0 for k in range(_W)])

    def concrete(self):
        v = 0
        for k, b in enumerate(self.bits):
            if b == self.ONE:
                v |= 1 << (_W - 1 - k)
            elif b != 0:
                return None
        return v


_TXT = {}


def _term_text(t, b):
    """(strip_deep(t), α-normalised text), memoised per term object for the duration of one rule evaluation."""
    r = _TXT.get(id(t))
    if r is None or r[0] is not t:
        sd = strip_deep(t)
        r = (t, sd, K.alpha(render(sd), b))
        _TXT[id(t)] = r
    return r[1], r[2]


def _bv_eval(t, b, env):
    """Value of a term under concrete prefix lengths: an int (lengths, constants, arithmetic on them) or a _BitVec."""
    t, txt = _term_text(t, b)
    k = t[0]
    if txt in env.get("ints", ()):
        return env["ints"][txt]
    if txt in env.get("vecs", ()):
        return env["vecs"][txt]
    if "len" in env:
        m = _LENRX.match(txt)
        if m:
            return env["len"][m.group(1)]
        m = _BITSRX.match(txt)
        if m:
            return _BitVec.address(m.group(1), env["len"][m.group(1)])
    if k == "const":
        v = t[1]
        if isinstance(v, bool):
            return int(v)
        if isinstance(v, int):
            return v
        raise _CoversUnsupported("constant %r" % (v,))
    if k == "cast":
        v = _bv_eval(t[1], b, env)
        if isinstance(v, int):
            return v
        raise _CoversUnsupported("cast of an address value")
    if k == "call":
        nm = (t[3] or {}).get("name") if len(t) > 3 else None
        args = [_bv_eval(a, b, env) for a in t[2]]
        if nm in ("into", "from", "into_int", "clone") and len(args) == 1:
            return args[0]
        if nm in ("saturating_sub", "wrapping_sub") and all(isinstance(a, int) for a in args) and len(args) == 2:
            return max(args[0] - args[1], 0) if nm == "saturating_sub" else (args[0] - args[1]) & 0xFF
        if nm in ("wrapping_shl", "wrapping_shr") and len(args) == 2 and isinstance(args[1], int):
            x, y = args[0], args[1] % _W            # the shift amount is taken modulo the width
            if isinstance(x, int):
                x = _BitVec.const(x)
            return _BitVec(x.bits[y:] + [0] * y) if nm == "wrapping_shl" else _BitVec([0] * y + x.bits[:_W - y])
        if nm in ("min", "max") and all(isinstance(a, int) for a in args) and len(args) == 2:
            return min(args) if nm == "min" else max(args)
        raise _CoversUnsupported("call %s" % (nm or t[1]))
    if k == "un" and t[1] == "Not":
        v = _bv_eval(t[2], b, env)
        if isinstance(v, int):
            v = _BitVec.const(v)
        return _BitVec([x ^ _BitVec.ONE for x in v.bits])
    if k == "bin":
        op = t[1]
        x, y = _bv_eval(t[2], b, env), _bv_eval(t[3], b, env)
        if op in ("Shl", "Shr", "ShlUnchecked", "ShrUnchecked"):
            if not isinstance(y, int):
                raise _CoversUnsupported("shift by an address value")
            if y < 0 or y >= _W:
                raise OverflowError("shift of a 128-bit value by %d" % y)
            if isinstance(x, int):
                x = _BitVec.const(x)
            if op.startswith("Shl"):
                return _BitVec(x.bits[y:] + [0] * y)
            return _BitVec([0] * y + x.bits[:_W - y])
        if op in ("Add", "Sub", "AddWithOverflow", "SubWithOverflow", "Mul") and isinstance(x, int) and isinstance(y, int):
            r = x + y if op.startswith("Add") else x - y if op.startswith("Sub") else x * y
            if r < 0:
                raise OverflowError("%d - %d on unsigned lengths" % (x, y))
            return r
        if op in ("BitAnd", "BitOr", "BitXor"):
            if isinstance(x, int) and isinstance(y, int):
                return {"BitAnd": x & y, "BitOr": x | y, "BitXor": x ^ y}[op]
            if isinstance(x, int):
                x = _BitVec.const(x)
            if isinstance(y, int):
                y = _BitVec.const(y)
            out = []
            for p, q in zip(x.bits, y.bits):
                if op == "BitXor":
                    out.append(p ^ q)
                elif op == "BitAnd":
                    if p == 0 or q == 0:
                        out.append(0)
                    elif p == _BitVec.ONE:
                        out.append(q)
                    elif q == _BitVec.ONE:
                        out.append(p)
                    elif p == q:
                        out.append(p)
                    else:
                        raise _CoversUnsupported("product of two address bits")
                else:
                    if p == _BitVec.ONE or q == _BitVec.ONE:
                        out.append(_BitVec.ONE)
                    elif p == 0:
                        out.append(q)
                    elif q == 0 or p == q:
                        out.append(p)
                    else:
                        raise _CoversUnsupported("disjunction of two address bits")
            return _BitVec(out)
        raise _CoversUnsupported("operator %s" % op)
    if k == "field" and t[2] == "0":
        # `.0` of an (x, overflow) pair
        return _bv_eval(t[1], b, env)
    raise _CoversUnsupported("term %s" % txt[:60])


def _rref(rows):
    """Reduced row echelon form of affine forms over GF(2) (ints; digit 256 = the constant)."""
    rows = [r for r in rows if r]
    piv = []
    for col in range(256):
        bit = 1 << col
        p = None
        for i, r in enumerate(rows):
            if r & bit and i not in [x for x, _ in piv]:
                p = i
                break
        if p is None:
            continue
        for i in range(len(rows)):
            if i != p and rows[i] & bit:
                rows[i] ^= rows[p]
        piv.append((p, col))
    return sorted(set(r for r in rows if r))


def _covers_system(a, b, env):
    """The linear system (rows that must all be zero) under which the atom `a` is true, or True / False."""
    from engine import orderlogic as OL
    neg = False
    while a[0] == "not":
        a, neg = a[1], not neg
    if a[0] == "const":
        return bool(a[1]) != neg
    if a[0] == "cmp" and a[1] in (">=", ">", "<", "<="):
        # `x.trailing_zeros() >= n` / `x.leading_zeros() >= n`: the last / first n bits are zero
        op, lhs, rhs = a[1], a[2], a[3]
        lt, rt = _term_text(lhs, b)[0], _term_text(rhs, b)[0]
        if rt[0] == "call" and (rt[3] or {}).get("name") in ("trailing_zeros", "leading_zeros"):
            lhs, rhs, lt, rt = rhs, lhs, rt, lt
            op = {">=": "<=", ">": "<", "<": ">", "<=": ">="}[op]
        if not (lt[0] == "call" and (lt[3] or {}).get("name") in ("trailing_zeros", "leading_zeros")):
            raise _CoversUnsupported("ordering of address values")
        x, n = _bv_eval(lt[2][0], b, env), _bv_eval(rhs, b, env)
        if not isinstance(n, int):
            raise _CoversUnsupported("zero count compared with an address value")
        if isinstance(x, int):
            x = _BitVec.const(x)
        if op in ("<", "<="):
            neg, op = not neg, {"<": ">=", "<=": ">"}[op]
        if op == ">":
            n += 1
        if n > _W:
            return neg
        rows = list(x.bits[_W - n:]) if n > 0 and lt[3]["name"] == "trailing_zeros" else list(x.bits[:max(n, 0)])
        rr = _rref(rows)
        if _BitVec.ONE in rr:
            return neg
        if not rr:
            return not neg
        if neg:
            raise _CoversUnsupported("negated zero-count test")
        return rr
    if a[0] != "cmp" or a[1] not in ("==", "!="):
        raise _CoversUnsupported("result %s" % (a[0],))
    if a[1] == "!=":
        neg = not neg
    xt, yt = _term_text(a[2], b)[1], _term_text(a[3], b)[1]
    if _PFXRX.match(xt) and _PFXRX.match(yt) and xt != yt:
        # equality of the two prefixes: family and length (here: the same family) and the address bits
        if env["len"]["self"] != env["len"]["%2"]:
            rows = False
        else:
            x, y = _BitVec.address("self", env["len"]["self"]), _BitVec.address("%2", env["len"]["%2"])
            rows = [p ^ q for p, q in zip(x.bits, y.bits)]
    else:
        x, y = _bv_eval(a[2], b, env), _bv_eval(a[3], b, env)
        if isinstance(x, int) and isinstance(y, int):
            rows = (x == y)
        else:
            if isinstance(x, int):
                x = _BitVec.const(x)
            if isinstance(y, int):
                y = _BitVec.const(y)
            rows = [p ^ q for p, q in zip(x.bits, y.bits)]
    if isinstance(rows, bool):
        return rows != neg
    rr = _rref(rows)
    if _BitVec.ONE in rr:
        return neg           # inconsistent: the equality never holds
    if not rr:
        return not neg       # holds for every address
    if neg:
        raise _CoversUnsupported("inequality of address values")
    return rr


def check_covers_inclusion(ctx, f):
    """Prefix::covers(self, other) ⇔ the addresses of `other` are addresses of `self`: same family, len(self) ≤ len(other)
    and the first len(self) address bits agree.  Decided for every pair of lengths of either family: the branch conditions
    of the MIR paths are evaluated on the lengths, the returned expression is evaluated over 128-bit vectors whose bits
    are affine forms (GF(2)) in the address bits of the two prefixes — host bits are zero by the constructors' invariant —
    and the linear system under which it is true must be the system {s_i = o_i : i < len(self)} (compared in reduced row
    echelon form).  A shift by 128 or more on a feasible path is an overflow.  A returned expression outside this
    vocabulary gives no verdict."""
    from engine import orderlogic as OL
    fn = "resources::addr::Prefix::covers"
    b = f.body(fn)
    if b is None:
        return ctx.missing("R-REG", "Prefix::covers", fn)
    s = K.sym_of(b)
    key = "Prefix::covers:range-inclusion"
    what = ("Prefix::covers answers true exactly when both prefixes are of one family, self is not longer than other and the "
            "first len(self) address bits agree — for every pair of lengths of either family (bit-vector evaluation of the "
            "returned expression over GF(2), no shift by the full width on a feasible path)")
    trails = []
    try:
        ps = OL.paths(b, s, trails=trails)
    except OL.NotComparisonOnly as e:
        return ctx.ob("R-REG", key, True, what + " — no verdict: not loop-free comparison code (%s)" % e, where=b.loc, noverdict=True)

    def resolve(t, trail):
        """A local assigned on several paths (`let host_len = if v4 { 32 } else { 128 }`) has, on one path, the value of
        the last assignment the path passes."""
        if not isinstance(t, tuple):
            return t
        if len(t) == 3 and t[0] == "var" and isinstance(t[2], int):
            best = None
            for bb, val in s.defs_of_var(t[2]):
                if bb in trail:
                    i = trail.index(bb)
                    if best is None or i > best[0]:
                        best = (i, val)
            if best is not None and best[1][0] != "unknown":
                return resolve(strip_deep(best[1]), trail)
            return t
        if t[0] == "call" and len(t) > 3:
            return ("call", t[1], tuple(resolve(a, trail) for a in t[2]), t[3])
        return tuple(resolve(x, trail) if isinstance(x, tuple) else x for x in t)

    def resolve_atom(a, trail):
        if a[0] == "not":
            return ("not", resolve_atom(a[1], trail))
        if a[0] == "cmp":
            return ("cmp", a[1], resolve(a[2], trail), resolve(a[3], trail))
        return a
    ps = [([(resolve_atom(a, tr), truth) for a, truth in conds], resolve(ret, tr) if ret is not None else None)
          for (conds, ret), tr in zip(ps, trails)]

    def cond_value(a, env):
        neg = False
        while a[0] == "not":
            a, neg = a[1], not neg
        v = None
        if a[0] == "cmp":
            try:
                x, y = _bv_eval(a[2], b, env), _bv_eval(a[3], b, env)
            except (_CoversUnsupported, OverflowError):
                x = y = None
            if x is None:
                fx, fy = _FAMRX.match(_term_text(a[2], b)[1] or ""), _FAMRX.match(_term_text(a[3], b)[1] or "")
                if fx and fy:
                    x = int((fx.group(1) == "4") == env["v4"])
                    y = int((fy.group(1) == "4") == env["v4"])
            if isinstance(x, int) and isinstance(y, int):
                v = {"<": x < y, "<=": x <= y, ">": x > y, ">=": x >= y, "==": x == y, "!=": x != y}[a[1]]
        elif a[0] == "opaque":
            m = _FAMRX.match(K.alpha(a[1], b) or "")
            if m:
                v = (m.group(1) == "4") == env["v4"]
        if v is None:
            return None
        return (not v) if neg else v

    bad, unsupported, judged, cache = [], [], 0, {}
    _TXT.clear()
    for v4, top in ((True, 32), (False, 128)):
        for ls in range(top + 1):
            want_le = _rref([(1 << i) ^ (1 << (128 + i)) for i in range(ls)]) or True
            for lo in range(top + 1):
                env = {"v4": v4, "len": {"self": ls, "%2": lo}}
                want = want_le if ls <= lo else False
                for pi, (conds, ret) in enumerate(ps):
                    feasible, certain = True, True
                    for a, truth in conds:
                        v = cond_value(a, env)
                        if v is None:
                            certain = False
                        elif v != truth:
                            feasible = False
                            break
                    if not feasible:
                        continue
                    judged += 1
                    rt = _term_text(ret, b)[1] if ret is not None else ""
                    ck = (pi, ls, lo if ("%2)" in rt and "len(" in rt) else None, ls == lo)
                    try:
                        if ret is None:
                            raise _CoversUnsupported("no returned value")
                        if ck not in cache:
                            try:
                                cache[ck] = _covers_system(OL.atom(ret), b, env)
                            except (_CoversUnsupported, OverflowError) as e:
                                cache[ck] = e
                        got = cache[ck]
                        if isinstance(got, Exception):
                            raise got
                    except _CoversUnsupported as e:
                        unsupported.append(str(e))
                        continue
                    except OverflowError as e:
                        if not certain:
                            unsupported.append("a branch condition on the way to a shift could not be evaluated")
                        elif len(bad) < 6:
                            bad.append({"family": "v4" if v4 else "v6", "len(self)": ls, "len(other)": lo, "problem": str(e)})
                        else:
                            bad.append(None)
                        continue
                    if got != want and not certain:
                        unsupported.append("a branch condition on the way to a result could not be evaluated")
                    elif got != want:
                        if len(bad) < 6:
                            bad.append({"family": "v4" if v4 else "v6", "len(self)": ls, "len(other)": lo,
                                        "returns": K.alpha(render(ret), b)[:140],
                                        "true_for": "never" if got is False else "every address" if got is True else "%d bit equations" % len(got),
                                        "should_be_true_for": "never" if want is False else "every address" if want is True else "agreement of the first %d bits" % ls})
                        else:
                            bad.append(None)
    if unsupported and not bad:
        return ctx.ob("R-REG", key, True, what + " — no verdict: the returned expression is outside the bit-vector vocabulary (%s)"
                      % sorted(set(unsupported))[0], where=b.loc, noverdict=True, detail={"unsupported": sorted(set(unsupported))[:5]})
    ctx.ob("R-REG", key, not bad, what, where=b.loc,
           detail={"paths": len(ps), "length_pairs": 33 * 33 + 129 * 129, "path_evaluations": judged,
                   "counterexamples": [x for x in bad if x][:6], "n_counterexamples": len(bad)})
    ctx.floor("R-REG", "feasible (path, length pair) evaluations of Prefix::covers", judged, 17000)


def check_bits_masks(ctx, f):
    """The three mask helpers every Prefix constructor and range computation rests on, decided for every length 0..=128
    over 128-bit vectors of GF(2) forms in the address bits: `clear_host(len)` keeps exactly the first len bits and zeroes
    the rest, `into_max(len)` keeps the first len bits and sets the rest, `is_host_zero(len)` is true exactly when every
    bit from position len on is zero.  A shift by 128 or more on a feasible path is an overflow (debug builds panic,
    release builds wrap to a shift by 0).  Anything outside the vocabulary gives no verdict."""
    from engine import orderlogic as OL
    SPECS = {
        "clear_host": lambda v, n: [v.bits[k] if k < n else 0 for k in range(_W)],
        "into_max": lambda v, n: [v.bits[k] if k < n else _BitVec.ONE for k in range(_W)],
        "is_host_zero": lambda v, n: _rref(list(v.bits[n:])) or True,
    }
    seen = 0
    decided = set()
    for short_name, spec in sorted(SPECS.items()):
        fn = A + "Bits::" + short_name
        b = f.body(fn)
        if b is None:
            ctx.missing("R-REG", "Bits::" + short_name, fn)
            continue
        ctx.saw_fn(fn)
        key = "Bits::%s:every-length" % short_name
        what = {"clear_host": "Bits::clear_host(len) keeps the first len address bits and clears all others",
                "into_max": "Bits::into_max(len) keeps the first len address bits and sets all others",
                "is_host_zero": "Bits::is_host_zero(len) is true exactly when every bit from position len on is zero"}[short_name] + \
            " — for every len in 0..=128 (bit-vector evaluation over GF(2); no full-width shift on a feasible path)"
        s = K.sym_of(b)
        trails = []
        try:
            ps = OL.paths(b, s, trails=trails)
        except OL.NotComparisonOnly as e:
            ctx.ob("R-REG", key, True, what + " — no verdict: not loop-free (%s)" % e, where=b.loc, noverdict=True)
            continue
        _TXT.clear()
        bad, unsupported, judged = [], [], 0
        full = _BitVec.address("self", _W)
        for n in range(_W + 1):
            env = {"ints": {"%2": n}, "vecs": {"self.0": full, "self": full}}
            want = spec(full, n)
            for conds, ret in ps:
                feasible, certain = True, True
                for a, truth in conds:
                    v = None
                    neg = False
                    while a[0] == "not":
                        a, neg = a[1], not neg
                    if a[0] == "cmp":
                        try:
                            x, y = _bv_eval(a[2], b, env), _bv_eval(a[3], b, env)
                        except (_CoversUnsupported, OverflowError):
                            x = y = None
                        if isinstance(x, int) and isinstance(y, int):
                            v = {"<": x < y, "<=": x <= y, ">": x > y, ">=": x >= y, "==": x == y, "!=": x != y}[a[1]]
                    if v is None:
                        certain = False
                        continue
                    if (v != neg) != truth:
                        feasible = False
                        break
                if not feasible:
                    continue
                judged += 1
                try:
                    if ret is None:
                        raise _CoversUnsupported("no returned value")
                    if short_name == "is_host_zero":
                        got = _covers_system(OL.atom(ret), b, env)
                    else:
                        rt = _term_text(ret, b)[0]
                        if rt[0] == "agg" and len(rt[3]) == 1:
                            rt = rt[3][0][1]
                        got = _bv_eval(rt, b, env)
                        if isinstance(got, int):
                            got = _BitVec.const(got)
                        got = got.bits
                except _CoversUnsupported as e:
                    unsupported.append(str(e))
                    continue
                except OverflowError as e:
                    if certain:
                        bad.append({"len": n, "problem": str(e)})
                    else:
                        unsupported.append("a branch condition on the way to a shift could not be evaluated")
                    continue
                if got != want:
                    if certain:
                        wrong = [k for k in range(_W) if got[k] != want[k]][:4] if short_name != "is_host_zero" else None
                        bad.append({"len": n, "returns": K.alpha(render(ret), b)[:120], "wrong_bit_positions": wrong})
                    else:
                        unsupported.append("a branch condition on the way to a result could not be evaluated")
        if unsupported and not bad:
            ctx.ob("R-REG", key, True, what + " — no verdict: outside the bit-vector vocabulary (%s)" % sorted(set(unsupported))[0],
                   where=b.loc, noverdict=True)
            continue
        seen += 1
        decided.add(fn)
        ctx.ob("R-REG", key, not bad, what, where=b.loc,
               detail={"paths": len(ps), "lengths": _W + 1, "path_evaluations": judged, "counterexamples": bad[:5], "n_counterexamples": len(bad)})
    ctx.floor("R-REG", "mask helpers of Bits decided for every length", seen, 3)
    return decided


def check_family_byte_values(ctx, f):
    """Every byte stored into a `FamilyAndLen` is one of the codes the type's accessors are written for: 0..=32 (IPv4 length),
    0x40 (IPv6 /128) or 0x80..=0xFF (IPv6 length l as l ^ 0xFF) — decided per value: where the stored expression and the
    branch conditions on the way depend on one octet-sized unknown (a parameter, a generated byte), all 256 values are
    tried, the branches they decide are taken as decided, and whenever the storing site stays reachable the stored value
    must be a code.  (Derived `Eq` / `Hash` compare this byte: a second spelling of the same prefix — 0x7F for a /128 —
    compares unequal to the parsed one while ordering and text say they are the same.)"""
    adt = A + "FamilyAndLen"
    VALID = set(range(0, 33)) | {0x40} | set(range(0x80, 0x100))
    n = 0
    for b, bi, si, st in aggregates_of(f, adt):
        if is_derived(b) or b.is_cleanup(bi):
            continue
        s = K.sym_of(b)
        ops = st["rv"].get("ops") or []
        if len(ops) != 1:
            continue
        t = strip_deep(s.operand(ops[0]))

        def leaves_of(x, out):
            x = strip_deep(x)
            if x[0] in ("call", "variant", "field", "param", "var", "mvar", "index"):
                out.add(render(x))
                return
            if x[0] in ("bin",):
                leaves_of(x[2], out); leaves_of(x[3], out)
            elif x[0] in ("un",):
                leaves_of(x[2], out)
            elif x[0] == "cast":
                leaves_of(x[1], out)
            elif x[0] != "const":
                out.add(render(x))
        lv = set()
        leaves_of(t, lv)
        key = "%s:stores-a-code@%d" % (short(root_fn(f, b.name)), n)
        what = "%s stores into FamilyAndLen only 0..=32, 0x40 or 0x80..=0xFF (all 256 values of the octet it depends on tried)" % short(root_fn(f, b.name))
        n += 1
        if len(lv) > 1:
            ctx.ob("R-REG", key, True, what + " — no verdict: the stored byte depends on several unknowns", where=b.where(bi, si), noverdict=True)
            continue
        leaf = next(iter(lv)) if lv else None
        switches = []
        for sb, blk in enumerate(b.blocks):
            tt = blk["term"]
            if tt["t"] == "switch" and not blk.get("cleanup"):
                switches.append((sb, tt, strip_deep(s.operand(tt["discr"]))))
        bad, unknown, undecided = [], False, False
        for v in range(256):
            env = {leaf: v} if leaf else {}
            dead = set()
            for sb, tt, d in switches:
                val = K.eval_term(d, env)
                if val is None and d[0] == "discr":
                    c = strip_deep(d[1])
                    if c[0] == "call" and (c[3] or {}).get("name") == "cmp" and len(c[2]) == 2:
                        x, y = K.eval_term(c[2][0], env), K.eval_term(c[2][1], env)
                        if x is not None and y is not None:
                            val = 255 if x < y else 0 if x == y else 1       # discriminants of Ordering as rustc prints them
                            if val == 255 and not any(ev == 255 for ev, _ in b.switch_edges(sb)) and any(ev == -1 for ev, _ in b.switch_edges(sb)):
                                val = -1
                if val is None:
                    if leaf and leaf in render(d) and bi in b.reachable(sb):
                        undecided = True        # a test on the same unknown that cannot be evaluated: no verdict
                    continue
                edges = b.switch_edges(sb)
                taken = [tb for ev, tb in edges if ev is not None and ev == val] or [tt["otherwise"]]
                dead.update((sb, tb) for _, tb in edges if tb not in taken)
            if bi not in b.reachable(0, removed_edges=dead):
                continue
            val = K.eval_term(t, env)
            if val is None:
                unknown = True
                break
            if (val & 0xFF) not in VALID:
                bad.append({"octet": v, "stored": val & 0xFF})
            if not leaf:
                break
        if unknown or (undecided and bad):
            ctx.ob("R-REG", key, True, what + " — no verdict: %s" % ("the stored expression is outside the evaluator" if unknown else
                   "a branch on the same unknown could not be evaluated"), where=b.where(bi, si), noverdict=True)
            continue
        ctx.ob("R-REG", key, not bad, what, where=b.where(bi, si), detail={"depends_on": leaf, "stored": render(t)[:100], "not_a_code_for": bad[:5] or None})
    ctx.floor("R-REG", "sites storing a FamilyAndLen byte", n, 3)
