#!/usr/bin/env python3
"""Regenerates /verif/MANIFEST.json from the per-property META tables in props/."""
import importlib, json, os, sys
HERE = os.path.dirname(os.path.dirname(os.path.abspath(__file__)))
sys.path.insert(0, HERE)
ALL = ["C%02d" % i for i in range(1, 18)]
NA_REASONS = {}
try:
    from props import na as _na
    NA_REASONS = _na.REASONS
except Exception:
    pass
checks = []
na = []
for p in ALL:
    if os.path.exists(os.path.join(HERE, "props", p + ".py")):
        m = importlib.import_module("props." + p)
        meta = m.META
        checks.append({
            "property_id": p,
            "quick_cmd": "./check %s --tier quick" % p,
            "thorough_cmd": "./check %s --tier thorough" % p,
            "evidence_file": "/verif/evidence/%s.json" % p,
            "replay_cmd_template": "./check --explain {path}",
            "engine": "mir-rules",
            "level_claimed": {
                "category": meta.get("level", "other"),
                "text": meta["explanation"],
                "design_ref": "DESIGN.md §2 " + p,
            },
            "level_note": "Decides structural necessary conditions only; NOT decided: " + "; ".join(meta.get("not_decided", [])) +
                          ". Trusted: rustc nightly MIR + callee resolution, /verif/driver, /verif/engine, " +
                          ", ".join(meta.get("trusted_base", [])),
            "technique": meta.get("technique", "static analysis of type-checked MIR (rustc_private driver): "
                                               "must-pass-through graph cuts, guard-polarity, provenance slicing, construction-site enumeration"),
        })
    else:
        na.append({"property_id": p, "reason": NA_REASONS.get(p, "check not built yet in this round; see DESIGN.md §2 for the planned static rules")})
man = {
    "version": 1,
    "setup_cmd": "./check --setup",
    "hooks": {
        "guard": "nlnetlabs_rpki_rs_verif",
        "enable": "none needed: the static checks read /repo's MIR through a RUSTC_WORKSPACE_WRAPPER driver; no source hooks exist",
        "baseline_off_cmd": "cd /repo && cargo test --workspace --no-fail-fast --offline",
        "source_commits": [],
        "add_only": True,
    },
    "engines": [{
        "name": "mir-rules", "path": "/verif/engine",
        "serves_properties": [c["property_id"] for c in checks],
        "kind_free_text": "custom static analysis: rustc_private fact extractor (/verif/driver) dumping pre-borrowck MIR, "
                          "resolved callees and ADT facts; python rule engine (graph cuts over CFGs, provenance slicing, "
                          "guard decoding, abstract interpretation, site enumeration)",
    }],
    "checks": checks,
    "not_applicable": na,
    "notes": "All checks are static: they never execute /repo code. ./check <ID> rebuilds the fact file whenever /repo's "
             "src/, Cargo.toml or Cargo.lock change (hash-keyed cache under /verif/.cache).",
}
with open(os.path.join(HERE, "MANIFEST.json"), "w") as f:
    json.dump(man, f, indent=1)
print("MANIFEST: %d checks, %d not_applicable" % (len(checks), len(na)))
