#!/usr/bin/env python3
"""selftest/log.jsonl -> selftest/MUTATIONS.md (what was mutated, which check was run, whether it reported)."""
import json, collections, re
rows = [json.loads(l) for l in open("/verif/selftest/log.jsonl")]
by = collections.OrderedDict()
for r in rows:
    key = (",".join(r["props"]), r.get("file") or r.get("patch"), (r.get("old") or "")[:400], (r.get("new") or "")[:400])
    by[key] = r["detected"]          # the latest run of the same mutation wins


def one(s):
    s = re.sub(r"\s+", " ", s).strip()
    return (s[:90] + "…") if len(s) > 90 else s
out = ["| check | file | mutation | reported |", "|---|---|---|---|"]
cnt = collections.Counter()
for (props, fn, old, new), det in by.items():
    cnt[(props, det)] += 1
    what = "`%s` → `%s`" % (one(old), one(new)) if old or new else "patch %s" % fn
    out.append("| %s | %s | %s | %s |" % (props, (fn or "").replace("src/", ""), what.replace("|", "\\|"), "yes" if det else "no"))
open("/verif/selftest/MUTATIONS.md", "w").write("\n".join(out) + "\n")
for p in sorted({k[0] for k in cnt}):
    print(p, "reported", cnt[(p, True)], "silent", cnt[(p, False)])
