#!/usr/bin/env python3
"""Maintenance aid (never run by a check): record the function def-paths of /repo's current tree in
tables/head_functions.json.  The rule engine treats a *private, non-async* function that is not in this list as a
helper extracted after the rules were written and inlines it into its callers before analysis (engine/inline.py)."""
import sys, os, json
sys.path.insert(0, os.path.dirname(os.path.dirname(os.path.abspath(__file__))))
from engine import build, facts
names = set()
params = {}
os.environ["VERIF_NO_HEAD_PARAMS"] = "1"
for cfg in ("B", "C", "A"):
    f = facts.load(build.build_facts(cfg))
    names |= {n for n, r in f.fns.items() if r.get("has_body")}
    for n, b in f.bodies.items():
        if "{closure" in n or b.is_coroutine:
            continue
        params[n] = [[b.rec["locals"][i].get("name"), b.rec["locals"][i]["ty"]] for i in range(1, b.arg_count + 1)]
out = os.path.join(os.path.dirname(os.path.dirname(os.path.abspath(__file__))), "tables", "head_functions.json")
json.dump({"doc": "function def-paths of the tree the rules were written against (see tools/mk_head_functions.py)",
           "functions": sorted(names)}, open(out, "w"), indent=0)
json.dump({"doc": "parameter names of those functions: a rule that says `len(s)` means `len of parameter 1`; engine/facts.py "
                  "labels parameters with these names whatever they are called now", "params": params},
          open(os.path.join(os.path.dirname(out), "head_params.json"), "w"), indent=0, sort_keys=True)
print(len(names), "functions")
