#!/usr/bin/env python3
"""Maintenance aid (never run by a check): record the function def-paths of /repo's current tree in
tables/head_functions.json.  The rule engine treats a *private, non-async* function that is not in this list as a
helper extracted after the rules were written and inlines it into its callers before analysis (engine/inline.py)."""
import sys, os, json
sys.path.insert(0, os.path.dirname(os.path.dirname(os.path.abspath(__file__))))
from engine import build, facts
names = set()
for cfg in ("B", "C", "A"):
    f = facts.load(build.build_facts(cfg))
    names |= {n for n, r in f.fns.items() if r.get("has_body")}
out = os.path.join(os.path.dirname(os.path.dirname(os.path.abspath(__file__))), "tables", "head_functions.json")
json.dump({"doc": "function def-paths of the tree the rules were written against (see tools/mk_head_functions.py)",
           "functions": sorted(names)}, open(out, "w"), indent=0)
print(len(names), "functions")
