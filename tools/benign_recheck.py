#!/usr/bin/env python3
"""Re-run every check against every stored behaviour-preserving refactoring (scratch copies; /repo untouched) and
refresh benign/*/meta.json (`verified.alarms`) and benign/SUMMARY.md.  Every alarm here is a false alarm of ours.
   tools/benign_recheck.py [-j N] [name-prefix ...]"""
import glob, json, os, subprocess, sys, tempfile, shutil, re
from concurrent.futures import ThreadPoolExecutor
args = sys.argv[1:]
CORPUS = "benign"
if "--corpus" in args:
    i = args.index("--corpus"); CORPUS = args[i + 1]; del args[i:i + 2]
jobs = 5
if args and args[0] == "-j":
    jobs = int(args[1]); args = args[2:]
only = args


def one(d):
    name = os.path.basename(d)
    t = tempfile.mkdtemp(prefix="verif-ben-")
    alarms = {}
    try:
        subprocess.run(["rsync", "-a", "--exclude", "target", "--exclude", ".git", "/repo/", t + "/"], check=True)
        r = subprocess.run(["patch", "-s", "-p1", "-d", t, "-i", os.path.join(d, "patch.diff")], capture_output=True, text=True)
        if r.returncode != 0:
            return name, {"PATCH": ["does not apply"]}
        r = subprocess.run(["/verif/check", "all"], env=dict(os.environ, VERIF_REPO=t, VERIF_EVIDENCE=t + "/.verif-evidence", VERIF_BUILD_SLOTS=os.environ.get("VERIF_BUILD_SLOTS", "8"), VERIF_CACHE_KEEP=os.environ.get("VERIF_CACHE_KEEP", "600")), capture_output=True, text=True)
        last = []
        for line in r.stdout.splitlines():
            if line.strip().startswith("violated:"):
                last.append(line.strip()[:400])
            m = re.match(r"^VIOLATION property=(C\d+)", line)
            if m:
                alarms.setdefault(m.group(1), []).extend(last)
                last = []
            if line.startswith("ERROR") or "Traceback" in line:
                alarms.setdefault("ERROR", []).append(line[:200])
    finally:
        shutil.rmtree(t, ignore_errors=True)
    return name, alarms


dirs = [d for d in sorted(glob.glob("/verif/%s/C*-*" % CORPUS)) if not only or any(os.path.basename(d).startswith(o) for o in only)]
with ThreadPoolExecutor(jobs) as ex:
    for name, alarms in ex.map(one, dirs):
        mp = os.path.join("/verif", CORPUS, name, "meta.json")
        meta = json.load(open(mp))
        meta.setdefault("verified", {})["alarms"] = alarms
        json.dump(meta, open(mp, "w"), indent=1, ensure_ascii=False)
        print(name, "clean" if not alarms else "ALARMS " + json.dumps({k: [x[:160] for x in v[:3]] for k, v in alarms.items()})[:900], flush=True)
rows = []
for d in sorted(glob.glob("/verif/%s/C*-*" % CORPUS)):
    meta = json.load(open(os.path.join(d, "meta.json")))
    rows.append((os.path.basename(d), meta.get("summary", "")[:200].replace("|", "/").replace("\n", " "), meta.get("verified", {}).get("alarms", {})))
with open("/verif/%s/SUMMARY.md" % CORPUS, "w") as fh:
    clean = sum(1 for r in rows if not r[2])
    fh.write("%d of %d behaviour-preserving refactorings raise no alarm.\n\n| refactoring | change | alarms (false) |\n|---|---|---|\n" % (clean, len(rows)))
    for name, summ, alarms in rows:
        fh.write("| %s | %s | %s |\n" % (name, summ, ", ".join("%s×%d" % (k, len(v)) for k, v in sorted(alarms.items())) or "none"))
print("clean %d / %d" % (sum(1 for r in rows if not r[2]), len(rows)))
