#!/usr/bin/env python3
"""For each patch directory given (benign/* or seeded/*): apply patch.diff to /repo, compare with the reviewed tree
(engine/equiv.py), undo.  Prints which functions still differ."""
import glob, json, os, subprocess, sys
HERE = os.path.dirname(os.path.dirname(os.path.abspath(__file__)))
sys.path.insert(0, HERE)
os.chdir(HERE)
from engine import equiv
dirs = sys.argv[1:] or sorted(glob.glob("benign/*"))
tot = eq = 0
for d in dirs:
    p = os.path.join(d, "patch.diff")
    if not os.path.exists(p):
        continue
    assert subprocess.run(["git", "-C", "/repo", "status", "--porcelain"], capture_output=True, text=True).stdout.strip() == "", "/repo dirty"
    r = subprocess.run(["git", "-C", "/repo", "apply", os.path.abspath(p)], capture_output=True, text=True)
    if r.returncode:
        print(d, "DOES NOT APPLY")
        continue
    try:
        res = equiv.compare("B")
    except Exception as e:
        res = {"equivalent": False, "error": str(e)[-300:]}
    finally:
        subprocess.run(["git", "-C", "/repo", "checkout", "--", "."], check=True)
    tot += 1
    eq += bool(res.get("equivalent"))
    brief = {k: v for k, v in res.items() if v and k not in ("compared", "manifest_same", "equivalent")}
    print(os.path.basename(d), "EQUIVALENT" if res.get("equivalent") else "different", json.dumps(brief)[:700], flush=True)
print("equivalent %d / %d" % (eq, tot))
