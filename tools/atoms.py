#!/usr/bin/env python3
"""Debug aid: tools/atoms.py <fn-regex> [--view norm|inlined] [--cfg B]   (honours VERIF_REPO)
Prints, for each matching body, the boolean atoms its switches test and the rendered calls."""
import sys, os, re
HERE = os.path.dirname(os.path.dirname(os.path.abspath(__file__)))
sys.path.insert(0, HERE); os.chdir(HERE)
sys.setrecursionlimit(20000)
from engine import build, facts as F, inline, rules as R
from engine.sym import Sym, render
args = sys.argv[1:]
view = None; cfg = "B"
if "--view" in args:
    i = args.index("--view"); view = args[i + 1]; del args[i:i + 2]
f = F.load(build.build_facts(cfg))
if view == "norm":
    f = inline.normalised(f)
    print("new helpers:", getattr(f, "new_helpers", None))
elif view == "inlined":
    f = inline.InlinedFacts(f)
rx = re.compile(args[0])
for n in list(f.bodies.keys() if hasattr(f.bodies, "keys") else f.bodies):
    if not rx.search(n):
        continue
    b = f.bodies[n]
    s = Sym(b)
    print("==", n, len(b.blocks), "blocks")
    for bb in range(len(b.blocks)):
        t = b.term(bb)
        if t["t"] == "switch":
            try:
                term = s.operand(t["discr"])
                at = R.bool_atom(term) if t.get("dty") == "bool" else None
                if at:
                    rel, a, bx, pos = at
                    print("  bb%d switch %s %s | %s | %s pos=%s" % (bb, rel if isinstance(rel, str) else rel, render(a) if not isinstance(a, list) else [render(x) for x in a], render(bx) if bx is not None else None, "", pos))
                else:
                    print("  bb%d switch[%s] %s" % (bb, t.get("dty"), render(term)[:300]))
            except Exception as e:
                print("  bb%d switch ?? %s" % (bb, e))
        elif t["t"] == "call":
            try:
                c = [x for x in b.calls() if x.bb == bb]
                if c:
                    from props import common as K
                    print("  bb%d call %s(%s)" % (bb, c[0].res or c[0].name, ", ".join(x[:120] for x in K.arg_renders(c[0]))))
            except Exception as e:
                print("  bb%d call ?? %s" % (bb, e))
