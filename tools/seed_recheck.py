#!/usr/bin/env python3
"""Re-run every check against every seeded change (scratch copies; /repo untouched) and refresh seeded/*/meta.json
(`verified.caught_by`) and seeded/SUMMARY.md."""
import glob, json, os, subprocess, sys
props = ["C%02d" % i for i in range(1, 18)]
rows = []
for d in sorted(glob.glob("/verif/seeded/C*-*")):
    meta = json.load(open(os.path.join(d, "meta.json")))
    r = subprocess.run(["/verif/tools/mut", ",".join(props), "--patch", os.path.join(d, "patch.diff")], capture_output=True, text=True)
    caught, cur = {}, None
    for line in r.stdout.splitlines():
        if line.startswith("[C"):
            cur = line[1:4]
            if "exit=1" in line:
                caught[cur] = []
            elif "exit=0" not in line:
                caught[cur] = ["ERROR " + line]
        elif cur in caught and line.strip().startswith("violated"):
            caught[cur].append(line.strip()[:300])
    meta.setdefault("verified", {})["caught_by"] = caught
    json.dump(meta, open(os.path.join(d, "meta.json"), "w"), indent=1, ensure_ascii=False)
    rows.append((os.path.basename(d), meta.get("summary", "")[:160].replace("|", "/"), caught))
    print(os.path.basename(d), sorted(caught), flush=True)
with open("/verif/seeded/SUMMARY.md", "w") as fh:
    fh.write("| seed | change | reported by | first report |\n|---|---|---|---|\n")
    for name, summ, caught in rows:
        first = ""
        for k in sorted(caught):
            if caught[k]:
                first = caught[k][0].replace("violated: ", "").replace("|", "/")[:150]
                break
        fh.write("| %s | %s | %s | %s |\n" % (name, summ, ", ".join(sorted(caught)) or "**none**", first))
