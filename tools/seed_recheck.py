#!/usr/bin/env python3
"""Re-run every check against every seeded change (scratch copies; /repo untouched) and refresh seeded/*/meta.json
(`verified.caught_by`) and seeded/SUMMARY.md.   tools/seed_recheck.py [name-prefix ...]"""
import glob, json, os, subprocess, sys, tempfile, shutil, re
only = sys.argv[1:]
rows = []
for d in sorted(glob.glob("/verif/seeded/C*-*")):
    name = os.path.basename(d)
    meta = json.load(open(os.path.join(d, "meta.json")))
    if only and not any(name.startswith(o) for o in only):
        rows.append((name, meta.get("summary", "")[:160].replace("|", "/"), meta.get("verified", {}).get("caught_by", {}), True))
        continue
    t = tempfile.mkdtemp(prefix="verif-seed-")
    applies = True
    try:
        subprocess.run(["rsync", "-a", "--exclude", "target", "--exclude", ".git", "/repo/", t + "/"], check=True)
        r = subprocess.run(["patch", "-s", "-p1", "-d", t, "-i", os.path.join(d, "patch.diff")], capture_output=True, text=True)
        applies = r.returncode == 0
        caught = {}
        if applies:
            r = subprocess.run(["/verif/check", "all"], env=dict(os.environ, VERIF_REPO=t), capture_output=True, text=True)
            last = []
            for line in r.stdout.splitlines():
                if line.strip().startswith("violated:"):
                    last.append(line.strip()[:300])
                m = re.match(r"^VIOLATION property=(C\d+)", line)
                if m:
                    caught.setdefault(m.group(1), []).extend(last)
                    last = []
                if line.startswith("ERROR") or "Traceback" in line:
                    caught.setdefault("ERROR", []).append(line[:200])
    finally:
        shutil.rmtree(t, ignore_errors=True)
    meta.setdefault("verified", {})["caught_by"] = caught
    meta["verified"]["patch_applies_to_current_repo"] = applies
    json.dump(meta, open(os.path.join(d, "meta.json"), "w"), indent=1, ensure_ascii=False)
    rows.append((name, meta.get("summary", "")[:160].replace("|", "/"), caught, applies))
    print(name, "applies" if applies else "DOES NOT APPLY", sorted(caught), flush=True)
with open("/verif/seeded/SUMMARY.md", "w") as fh:
    fh.write("| seed | change | reported by | first report |\n|---|---|---|---|\n")
    for name, summ, caught, applies in rows:
        first = ""
        for k in sorted(caught):
            if caught[k]:
                first = caught[k][0].replace("violated: ", "").replace("|", "/")[:150]
                break
        fh.write("| %s | %s | %s | %s |\n" % (name, summ, ", ".join(sorted(caught)) or ("**none**" if applies else "patch no longer applies"), first))
