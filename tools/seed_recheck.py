#!/usr/bin/env python3
"""Re-run every check against every seeded change (scratch copies; /repo untouched) and refresh seeded/*/meta.json
(`verified.caught_by`) and seeded/SUMMARY.md.   tools/seed_recheck.py [-j N] [name-prefix ...]"""
import glob, json, os, subprocess, sys, tempfile, shutil, re
from concurrent.futures import ThreadPoolExecutor
args = sys.argv[1:]
jobs = 5
if args and args[0] == "-j":
    jobs = int(args[1]); args = args[2:]
only = args


def one(d):
    name = os.path.basename(d)
    t = tempfile.mkdtemp(prefix="verif-seed-")
    applies = True
    caught = {}
    try:
        subprocess.run(["rsync", "-a", "--exclude", "target", "--exclude", ".git", "/repo/", t + "/"], check=True)
        r = subprocess.run(["patch", "-s", "-p1", "-d", t, "-i", os.path.join(d, "patch.diff")], capture_output=True, text=True)
        applies = r.returncode == 0
        if applies:
            r = subprocess.run(["/verif/check", "all"], env=dict(os.environ, VERIF_REPO=t, VERIF_EVIDENCE=t + "/.verif-evidence", VERIF_BUILD_SLOTS=os.environ.get("VERIF_BUILD_SLOTS", "8"), VERIF_CACHE_KEEP=os.environ.get("VERIF_CACHE_KEEP", "600")), capture_output=True, text=True)
            last = []
            for line in r.stdout.splitlines():
                if line.strip().startswith("violated:"):
                    last.append(line.strip()[:300])
                m = re.match(r"^VIOLATION property=(C\d+)", line)
                if m:
                    caught.setdefault(m.group(1), []).extend(last)
                    last = []
                if line.startswith("ERROR") or "Traceback" in line:
                    caught.setdefault("ERROR", []).append(line[:200])
    finally:
        shutil.rmtree(t, ignore_errors=True)
    return name, applies, caught


dirs = [d for d in sorted(glob.glob("/verif/seeded/C*-*")) if not only or any(os.path.basename(d).startswith(o) for o in only)]
with ThreadPoolExecutor(jobs) as ex:
    for name, applies, caught in ex.map(one, dirs):
        mp = os.path.join("/verif/seeded", name, "meta.json")
        meta = json.load(open(mp))
        meta.setdefault("verified", {})["caught_by"] = caught
        meta["verified"]["patch_applies_to_current_repo"] = applies
        json.dump(meta, open(mp, "w"), indent=1, ensure_ascii=False)
        print(name, "applies" if applies else "DOES NOT APPLY", sorted(caught), flush=True)
rows = []
for d in sorted(glob.glob("/verif/seeded/C*-*")):
    meta = json.load(open(os.path.join(d, "meta.json")))
    v = meta.get("verified", {})
    rows.append((os.path.basename(d), meta.get("summary", "")[:160].replace("|", "/").replace("\n", " "), v.get("caught_by", {}),
                 v.get("patch_applies_to_current_repo", True)))
with open("/verif/seeded/SUMMARY.md", "w") as fh:
    n = sum(1 for r in rows if r[2] and "ERROR" not in r[2])
    fh.write("%d of %d seeded breaking changes are reported.\n\n| seed | change | reported by | first report |\n|---|---|---|---|\n" % (n, len(rows)))
    for name, summ, caught, applies in rows:
        first = ""
        for k in sorted(caught):
            if caught[k]:
                first = caught[k][0].replace("violated: ", "").replace("|", "/")[:150]
                break
        fh.write("| %s | %s | %s | %s |\n" % (name, summ, ", ".join(sorted(caught)) or ("**none**" if applies else "patch no longer applies"), first))
missed = [r[0] for r in rows if not r[2] and r[3]]
print("reported %d / %d; missed: %s" % (sum(1 for r in rows if r[2]), len(rows), missed))
